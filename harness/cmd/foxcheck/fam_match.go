package main

import (
	"context"
	"encoding/json"
	"fmt"
	"math/rand"
	"net/http"
	"net/url"
	"slices"
	"sort"
	"strings"
	"sync/atomic"
	"time"

	"github.com/tigerwill90/fox"
)

// ---- outcome of a lookup, as the specification prescribes it and as the real router reports it ----

type outcome struct {
	Route  string      `json:"route"` // pattern, "" when nothing matched
	Tsr    bool        `json:"tsr"`
	Params [][2]string `json:"params"`
}

func (o outcome) direct() bool  { return o.Route != "" && !o.Tsr }
func (o outcome) matched() bool { return o.Route != "" }

func sameParams(a, b [][2]string) bool {
	if len(a) != len(b) {
		return false
	}
	for i := range a {
		if a[i] != b[i] {
			return false
		}
	}
	return true
}

func sameOutcome(a, b outcome, withParams bool) bool {
	if a.Route != b.Route || a.Tsr != b.Tsr {
		return false
	}
	return !withParams || a.Route == "" || sameParams(a.Params, b.Params)
}

// agrees decides whether an obtained outcome is allowed by the prescribed one for the aspect a check owns:
// "direct" (C01): the direct match (route and parameters) or its absence;
// "tsr" (C08): the trailing-slash match (route and parameters) or its absence;
// "all" (C09 and others): the full outcome.
func agrees(aspect string, presc, got outcome, withParams bool) bool {
	switch aspect {
	case "direct":
		if presc.direct() {
			return sameOutcome(presc, got, withParams)
		}
		return !got.direct()
	case "tsr":
		if presc.Tsr {
			return sameOutcome(presc, got, withParams)
		}
		return !got.Tsr
	default:
		return sameOutcome(presc, got, withParams)
	}
}

// ---- request plumbing -----------------------------------------------------------------------

type capKey struct{}

type capture struct {
	ran     int
	handler string // which handler ran: the pattern the closure was registered with, or a special kind
	pattern string // c.Pattern()
	params  [][2]string
	scope   fox.HandlerScope
	route   *fox.Route
}

func paramsOf(c fox.Context) [][2]string {
	var ps [][2]string
	for p := range c.Params() {
		ps = append(ps, [2]string{p.Key, p.Value})
	}
	return ps
}

func capOf(c fox.Context) *capture {
	cp, _ := c.Request().Context().Value(capKey{}).(*capture)
	return cp
}

func routeHandler(tag string) fox.HandlerFunc {
	return func(c fox.Context) {
		if cp := capOf(c); cp != nil {
			cp.ran++
			cp.handler = tag
			cp.pattern = c.Pattern()
			cp.params = paramsOf(c)
			cp.scope = c.Scope()
			cp.route = c.Route()
		}
	}
}

func specialHandler(kind string, status int) fox.HandlerFunc {
	return func(c fox.Context) {
		if cp := capOf(c); cp != nil {
			cp.ran++
			cp.handler = kind
			cp.pattern = c.Pattern()
			cp.params = paramsOf(c)
			cp.scope = c.Scope()
			cp.route = c.Route()
		}
		c.Writer().WriteHeader(status)
	}
}

// newRequest builds a server-side request without going through URL parsing, so that any byte
// sequence can be used as path or host.
func newRequest(method, host, path, rawQuery string) (*http.Request, *capture) {
	cp := &capture{}
	req := &http.Request{
		Method:     method,
		Host:       host,
		URL:        &url.URL{Path: path, RawQuery: rawQuery},
		Header:     http.Header{},
		Proto:      "HTTP/1.1",
		ProtoMajor: 1,
		ProtoMinor: 1,
		RequestURI: path,
		RemoteAddr: "192.0.2.1:1234",
	}
	req = req.WithContext(context.WithValue(context.Background(), capKey{}, cp))
	return req, cp
}

// plainWriter is a minimal http.ResponseWriter.
type plainWriter struct {
	h      http.Header
	status int
	body   []byte
}

func newPlainWriter() *plainWriter         { return &plainWriter{h: http.Header{}} }
func (w *plainWriter) Header() http.Header { return w.h }
func (w *plainWriter) WriteHeader(code int) {
	if w.status == 0 && (code < 100 || code > 199 || code == 101) {
		w.status = code
	}
}
func (w *plainWriter) Write(b []byte) (int, error) {
	if w.status == 0 {
		w.status = 200
	}
	w.body = append(w.body, b...)
	return len(b), nil
}

// ---- building routers from a table -----------------------------------------------------------

type builtRouters struct {
	plain *fox.Router // no trailing-slash option
	ign   *fox.Router // every route ignores trailing slashes
}

func buildRouter(pats []string, order []int, method string, opts ...fox.GlobalOption) (*fox.Router, error) {
	opts = append([]fox.GlobalOption{fox.WithNoRouteHandler(specialHandler("noroute", 404))}, opts...)
	r, err := fox.New(opts...)
	if err != nil {
		return nil, err
	}
	for _, i := range order {
		if _, err := r.Handle(method, pats[i], routeHandler(pats[i])); err != nil {
			return nil, fmt.Errorf("Handle(%s): %w", pats[i], err)
		}
	}
	return r, nil
}

// lookupVia runs one real lookup through the named entry point.
// exposes reports which parts of the outcome the entry point can show: "full" (route, tsr, params),
// "notsr-params" ...
func obtainLookup(r interface {
	Lookup(w fox.ResponseWriter, r *http.Request) (*fox.Route, fox.ContextCloser, bool)
}, method, host, path string) outcome {
	req, _ := newRequest(method, host, path, "")
	route, cc, tsr := r.Lookup(nil, req)
	if route == nil {
		if cc != nil {
			cc.Close()
		}
		return outcome{}
	}
	o := outcome{Route: route.Pattern(), Tsr: tsr, Params: paramsOf(cc)}
	if cc.Route() != route {
		o.Route = "<context route differs: " + cc.Pattern() + ">"
	}
	cc.Close()
	return o
}

type reverser interface {
	Reverse(method, host, path string) (*fox.Route, bool)
}

func obtainReverse(r reverser, method, host, path string) outcome {
	route, tsr := r.Reverse(method, host, path)
	if route == nil {
		return outcome{}
	}
	return outcome{Route: route.Pattern(), Tsr: tsr}
}

func obtainIterReverse(it fox.Iter, method, host, path string) []string {
	var got []string
	for m, rt := range it.Reverse(slices.Values([]string{method}), host, path) {
		got = append(got, m+" "+rt.Pattern())
	}
	return got
}

func obtainServe(r *fox.Router, method, host, path string) (outcome, *capture, *plainWriter) {
	req, cp := newRequest(method, host, path, "")
	w := newPlainWriter()
	r.ServeHTTP(w, req)
	if cp.ran == 0 || strings.HasPrefix(cp.handler, "no") || cp.handler == "options" || cp.handler == "redirect" {
		return outcome{}, cp, w
	}
	o := outcome{Route: cp.handler, Params: cp.params}
	if cp.pattern != cp.handler {
		o.Route = "<handler of " + cp.handler + " saw pattern " + cp.pattern + ">"
	}
	return o, cp, w
}

// ---- the D1 replay of MC_Match vectors --------------------------------------------------------

type matchVec struct {
	T  []int   `json:"t"`
	Pr [][]any `json:"pr"`
}

func decodeProbe(p []any, g *matchGen) (h, pi int, presc outcome) {
	h = int(p[0].(float64))
	pi = int(p[1].(float64))
	id := int(p[2].(float64))
	if id > 0 {
		presc.Route = g.Pool[id-1]
		presc.Tsr = p[3].(float64) == 1
		for _, kv := range p[4].([]any) {
			a := kv.([]any)
			presc.Params = append(presc.Params, [2]string{a[0].(string), a[1].(string)})
		}
	}
	return
}

// derivedDetours: routes next to the table's own (a longer hostname, a longer label, a longer or deeper path) that a
// mutation history registers and removes again, so that the splits and merges happen at the table's nodes.
func derivedDetours(pats []string) []string {
	var out []string
	for _, p := range pats {
		if i := strings.IndexByte(p, '/'); i > 0 {
			out = append(out, p[:i]+".c/x", p[:i]+"c/x", p[:i]+".c"+p[i:])
		}
		out = append(out, p+"x", strings.TrimSuffix(p, "/")+"/x")
		// a sibling that sorts before (and one after) the last edge of the pattern
		if n := len(p); n > 1 && p[n-1] >= 'a' && p[n-1] <= 'z' {
			out = append(out, p[:n-1]+"0", p[:n-1]+"~")
		}
	}
	return out
}

type matchReplayer struct {
	r       *Run
	g       *matchGen
	aspect  string
	method  string
	tables  atomic.Int64
	probes  atomic.Int64
	evals   atomic.Int64
	nontriv atomic.Int64 // probes whose prescribed outcome is a match
	tsrs    atomic.Int64
}

func (m *matchReplayer) report(entry string, pats []string, host, path string, presc, got any) {
	sorted := append([]string(nil), pats...)
	sort.Strings(sorted)
	key := fmt.Sprintf("match entry=%s table=%s host=%q path=%q", entry, strings.Join(sorted, " "), host, path)
	m.r.violation(key, map[string]any{
		"kind": "vector", "entry_point": entry, "table": pats, "method": m.method, "host": host, "path": path,
		"prescribed": presc, "obtained": got,
	})
}

func (m *matchReplayer) replay(v matchVec, rng *rand.Rand) {
	pats := make([]string, len(v.T))
	for i, id := range v.T {
		pats[i] = m.g.Pool[id-1]
	}
	sorted := append([]string(nil), pats...)
	sort.Strings(sorted)
	m.r.guard("match replay of table "+strings.Join(sorted, " "), func() map[string]any { return map[string]any{"table": pats} }, func() { m.replayTable(v, pats, rng) })
}

func (m *matchReplayer) replayTable(v matchVec, pats []string, rng *rand.Rand) {
	order := rng.Perm(len(pats))
	plain, err := buildRouter(pats, order, m.method)
	if err != nil {
		// The specification says this table is valid and conflict-free: fox must accept it (C02/C10 territory,
		// but the disagreement is real whatever check sees it).
		m.report("Handle", pats, "", "", "table accepted", err.Error())
		return
	}
	ign, err := buildRouter(pats, rng.Perm(len(pats)), m.method, fox.WithIgnoreTrailingSlash(true))
	if err != nil {
		m.report("Handle", pats, "", "", "table accepted", err.Error())
		return
	}
	// a write transaction holding the same table uncommitted, on an otherwise empty router
	empty, _ := fox.New()
	wtx := empty.Txn(true)
	defer wtx.Abort()
	for _, i := range rng.Perm(len(pats)) {
		if _, err := wtx.Handle(m.method, pats[i], routeHandler(pats[i])); err != nil {
			m.report("Txn.Handle", pats, "", "", "table accepted", err.Error())
			return
		}
	}
	// the same table reached through a mutation history (random order, deletions and re-insertions, updates, aborted
	// transactions, detours through routes that extend the table's patterns and hostnames and are removed again)
	hist, err := buildByHistory(rng, pats, derivedDetours(pats), m.method)
	if err != nil {
		m.report("Handle (mutation history)", pats, "", "", "table accepted", err.Error())
		return
	}
	rtx := plain.Txn(false)
	defer rtx.Abort()
	it := plain.Iter()
	itIgn := ign.Iter()
	m.tables.Add(1)
	for _, pr := range v.Pr {
		h, pi, presc := decodeProbe(pr, m.g)
		host, path := m.g.Hosts[h-1], m.g.Paths[pi-1]
		m.probes.Add(1)
		if presc.matched() {
			m.nontriv.Add(1)
		}
		if presc.Tsr {
			m.tsrs.Add(1)
		}
		n := 0
		chk := func(entry string, got outcome, withParams bool) {
			n++
			if !agrees(m.aspect, presc, got, withParams) {
				m.report(entry, pats, host, path, presc, got)
			}
		}
		chk("Router.Lookup", obtainLookup(plain, m.method, host, path), true)
		chk("Router.Reverse", obtainReverse(plain, m.method, host, path), false)
		chk("Router(after a mutation history).Lookup", obtainLookup(hist, m.method, host, path), true)
		chk("Txn(read).Lookup", obtainLookup(rtx, m.method, host, path), true)
		chk("Txn(read).Reverse", obtainReverse(rtx, m.method, host, path), false)
		chk("Txn(write).Lookup", obtainLookup(wtx, m.method, host, path), true)
		chk("Txn(write).Reverse", obtainReverse(wtx, m.method, host, path), false)
		// iterator Reverse: yields the route for a direct match; for a trailing-slash match only when the route
		// ignores or redirects trailing slashes
		wantPlain, wantIgn := []string(nil), []string(nil)
		if presc.direct() {
			wantPlain = []string{m.method + " " + presc.Route}
		}
		if presc.matched() {
			wantIgn = []string{m.method + " " + presc.Route}
		}
		iterChk := func(entry string, got, want []string, relevant bool) {
			n++
			if relevant && !slices.Equal(got, want) {
				m.report(entry, pats, host, path, want, got)
			}
		}
		// for the aspect a check owns, only the cases that aspect decides are compared
		dirRel := m.aspect != "tsr"
		tsrRel := m.aspect != "direct" || presc.direct()
		iterChk("Iter.Reverse", obtainIterReverse(it, m.method, host, path), wantPlain, dirRel || presc.Tsr)
		iterChk("Txn(read).Iter.Reverse", obtainIterReverse(rtx.Iter(), m.method, host, path), wantPlain, dirRel || presc.Tsr)
		iterChk("Txn(write, uncommitted).Iter.Reverse", obtainIterReverse(wtx.Iter(), m.method, host, path), wantPlain, dirRel || presc.Tsr)
		iterChk("Iter.Reverse(ignore-ts)", obtainIterReverse(itIgn, m.method, host, path), wantIgn, tsrRel)
		// ServeHTTP on the plain router: a route handler runs exactly for a direct match
		got, _, _ := obtainServe(plain, m.method, host, path)
		n++
		if m.aspect != "tsr" {
			want := outcome{}
			if presc.direct() {
				want = outcome{Route: presc.Route, Params: presc.Params}
			}
			if !sameOutcome(want, got, true) {
				m.report("ServeHTTP", pats, host, path, want, got)
			}
		}
		// ServeHTTP on the ignore-trailing-slash router: served for a direct or a trailing-slash match
		got, _, _ = obtainServe(ign, m.method, host, path)
		n++
		if tsrRel {
			want := outcome{}
			if presc.direct() || (presc.Tsr && path != "/") {
				want = outcome{Route: presc.Route, Params: presc.Params}
			}
			if !sameOutcome(want, got, true) {
				m.report("ServeHTTP(ignore-ts)", pats, host, path, want, got)
			}
		}
		m.evals.Add(int64(n))
	}
}

// runMatchD1 runs MC_Match for the generated constants and replays every emitted table.
func runMatchD1(r *Run, g *matchGen, aspect string, checkIrrelevant bool, timeout time.Duration) {
	m := &matchReplayer{r: r, g: g, aspect: aspect, method: "GET"}
	ch := make(chan matchVec, 256)
	done := make(chan struct{})
	var seedCtr atomic.Int64
	go func() {
		defer close(done)
		workers := 8
		sem := make(chan struct{}, workers)
		for v := range ch {
			sem <- struct{}{}
			go func(v matchVec) {
				defer func() { <-sem }()
				rng := rand.New(rand.NewSource(r.Seed*1000003 + seedCtr.Add(1)))
				m.replay(v, rng)
			}(v)
		}
		for i := 0; i < workers; i++ {
			sem <- struct{}{}
		}
	}()
	var sampleOnce atomic.Int64
	res := r.runTLC(tlcOpts{
		Module:  "MC_Match",
		Gen:     map[string]string{"Gen_Match.tla": g.tla(checkIrrelevant)},
		Timeout: timeout,
		OnVec: func(b []byte) {
			var v matchVec
			if err := json.Unmarshal(b, &v); err != nil {
				failTool("bad vector from TLC: %v", err)
			}
			if sampleOnce.Add(1) <= 2 && len(v.Pr) > 0 {
				pats := []string{}
				for _, id := range v.T {
					pats = append(pats, g.Pool[id-1])
				}
				k := len(v.Pr) / 2
				h, pi, presc := decodeProbe(v.Pr[k], g)
				r.sample(map[string]any{"table": pats, "host": g.Hosts[h-1], "path": g.Paths[pi-1], "prescribed": presc})
			}
			ch <- v
		},
	})
	close(ch)
	<-done
	res.mustClean("MC_Match")
	r.addCov("states", res.Distinct)
	r.addCov("transitions", res.Generated)
	r.addCov("traces_validated_against_impl", m.tables.Load())
	r.addCov("tables_replayed", m.tables.Load())
	r.addCov("probes", m.probes.Load())
	r.addCov("probes_prescribing_a_match", m.nontriv.Load())
	r.addCov("probes_prescribing_tsr", m.tsrs.Load())
	r.addCov("evaluations", m.evals.Load())
	r.setCov("pool_size", int64(len(g.Pool)))
	r.setCov("exhaustive", true)
	if m.tables.Load() == 0 {
		failTool("MC_Match emitted no table")
	}
}

func contextWith(ctx context.Context, k, v any) context.Context { return context.WithValue(ctx, k, v) }
