//go:build verif

package main

import (
	"encoding/json"
	"fmt"
	"math"
	"math/rand"
	"net"
	"strings"
	"sync"
	"sync/atomic"
	"time"

	"github.com/tigerwill90/fox"
	"github.com/tigerwill90/fox/clientip"
)

// A rendering is one concrete spelling of an abstract entry, labelled when written with the address it
// denotes (empty for entries that are not addresses).
type rendering struct {
	xff  string
	fwd  string
	addr string // canonical textual address, "" when the entry is not an address
	zone string
}

// renderings by abstract class id (see MC_ClientIP!EntryClasses)
var renderings = map[int][]rendering{
	1: { // pub
		{"8.8.8.8", "for=8.8.8.8", "8.8.8.8", ""},
		{"8.8.8.8:53", `for="8.8.8.8:53"`, "8.8.8.8", ""},
		{"  1.1.1.1 ", "for=1.1.1.1;proto=https;by=10.0.0.9", "1.1.1.1", ""},
		{"2606:4700:4700::1111", `For="[2606:4700:4700::1111]"`, "2606:4700:4700::1111", ""},
		{"[2606:4700:4700::1111]:443", `by=10.0.0.9; for="[2606:4700:4700::1111]:443"`, "2606:4700:4700::1111", ""},
		{"93.184.216.34", "FOR=93.184.216.34 ; host=example.com", "93.184.216.34", ""},
		{"192.18.0.1", "for=192.18.0.1", "192.18.0.1", ""},             // public (not the benchmarking block 198.18/15)
		{"192.19.255.255", "for=192.19.255.255", "192.19.255.255", ""}, // public
		{"::ffff:8.8.4.4", `for="[::ffff:8.8.4.4]"`, "8.8.4.4", ""},
		{"2a00:1450:4001:81b::200e", "for=[2a00:1450:4001:81b::200e]", "2a00:1450:4001:81b::200e", ""},
	},
	2: { // privnet
		{"10.1.2.3", "for=10.1.2.3", "10.1.2.3", ""},
		{"192.168.1.1:8080", `for="192.168.1.1:8080"`, "192.168.1.1", ""},
		{"172.16.0.9", "proto=http;for=172.16.0.9", "172.16.0.9", ""},
		{"fd00::1", `for="[fd00::1]"`, "fd00::1", ""},
		{"100.64.0.1", "for=100.64.0.1", "100.64.0.1", ""},
		{"198.18.0.1", "for=198.18.0.1", "198.18.0.1", ""}, // benchmarking block: not globally routable
		{"198.19.255.255", "for=198.19.255.255", "198.19.255.255", ""},
		{"0.1.2.3", "for=0.1.2.3", "0.1.2.3", ""},
		{"203.0.113.9", "for=203.0.113.9", "203.0.113.9", ""},
	},
	3: { // loop
		{"127.0.0.1", "for=127.0.0.1", "127.0.0.1", ""},
		{"::1", `for="[::1]"`, "::1", ""},
		{"[::1]:80", `for="[::1]:80"`, "::1", ""},
		{"127.8.9.10", "for=127.8.9.10", "127.8.9.10", ""},
	},
	4: { // cust
		{"198.41.129.1", "for=198.41.129.1", "198.41.129.1", ""},
		{"2400:cb00::1", `for="[2400:cb00::1]"`, "2400:cb00::1", ""},
		{"198.41.200.7:443", `for="198.41.200.7:443"`, "198.41.200.7", ""},
	},
	5: { // junk
		{"unknown", "for=unknown", "", ""},
		{"_hidden", "for=_hidden", "", ""},
		{"1.2.3", "proto=https", "", ""},
		{"999.1.1.1", "for=999.1.1.1", "", ""},
		{"[::1", `for="[::1"`, "", ""},
		{"8.8.8.8 9.9.9.9", "for=", "", ""},
		{"g::1", "by=1.1.1.1", "", ""},
		{"\"", "for=\"", "", ""},
		{"[", "for=\"\"", "", ""},
		{"]", "for=[", "", ""},
		{"[]", "for=\"[\"", "", ""},
		{"1.1.1.1.1", "for=\"]\"", "", ""},
		{"::ffff:", "for=;for=8.8.8.8", "", ""},
		{"8.8.8.8%a%b", `for="8.8.8.8%a%b"`, "", ""}, // two percent signs: not an address with a zone
		{"[fe80::1%eth0%x]:80", `for="[fe80::1%eth0%x]:80"`, "", ""},
	},
	6: { // unspec
		{"0.0.0.0", "for=0.0.0.0", "", ""},
		{"::", `for="[::]"`, "", ""},
		{"0.0.0.0:80", `for="0.0.0.0:80"`, "", ""},
	},
	7: { // empty
		{"", "", "", ""},
		{" ", " ", "", ""},
	},
}

// derived spellings: every IPv6 rendering also in its full (uncompressed) form with brackets and a port, which is the
// longest spelling of an address an entry can have
func init() {
	for id, rs := range renderings {
		var more []rendering
		for _, rd := range rs {
			if rd.addr == "" || !strings.Contains(rd.addr, ":") || strings.Contains(rd.addr, "%") {
				continue
			}
			ip := net.ParseIP(rd.addr).To16()
			if ip == nil {
				continue
			}
			var groups []string
			for i := 0; i < 16; i += 2 {
				groups = append(groups, fmt.Sprintf("%02x%02x", ip[i], ip[i+1]))
			}
			full := strings.Join(groups, ":")
			more = append(more, rendering{"[" + full + "]:65535", `for="[` + full + `]:8443"`, rd.addr, ""})
			more = append(more, rendering{full, `for="[` + full + `]"`, rd.addr, ""})
		}
		renderings[id] = append(rs, more...)
	}
	renderings[1] = append(renderings[1],
		rendering{"2606:4700:4700::1111%eth0", `for="[2606:4700:4700::1111%eth0]:4711"`, "2606:4700:4700::1111%eth0", ""},
		rendering{"[2606:4700:4700:0000:0000:0000:0000:1111%eth0]:4711", `for="[2606:4700:4700:0000:0000:0000:0000:1111%eth0]"`, "2606:4700:4700::1111%eth0", ""})
}

// decorateForwarded surrounds a bare for= element with other parameters; for= stays among the first four
// parameters, where RFC 7239 and the documentation place it, and is never the last of more than four.
var fwdExtras = []string{"by=10.0.0.9", "host=example.com", "proto=https", "ext=1", `by="[fd00::9]:1"`, "secret=_x"}

func decorateForwarded(rng *rand.Rand, el string) string {
	if strings.Contains(el, ";") || strings.TrimSpace(el) == "" || rng.Intn(2) == 0 {
		return el
	}
	before := rng.Intn(4) // 0..3 parameters in front: for= is at most the fourth
	after := rng.Intn(3)
	var parts []string
	perm := rng.Perm(len(fwdExtras))
	for i := 0; i < before; i++ {
		parts = append(parts, fwdExtras[perm[i]])
	}
	parts = append(parts, el)
	for i := 0; i < after; i++ {
		parts = append(parts, fwdExtras[perm[before+i]])
	}
	sep := ";"
	if rng.Intn(3) == 0 {
		sep = "; "
	}
	return strings.Join(parts, sep)
}

var customRanges = []string{"198.41.128.0/17", "2400:cb00::/32"}

type ipVec struct {
	H      [][]int `json:"h"`
	Rtc    []int   `json:"rtc"`
	Rnp    []int   `json:"rnp"`
	Rtr    []int   `json:"rtr"`
	Lnp    [][]int `json:"lnp"`
	Single int     `json:"single"`
	Chain  int     `json:"chain"`
}

type ipSetup struct {
	rtcHuge [2]clientip.RightmostTrustedCount // counts in the upper half of the uint range
	lnpAll  [2]clientip.LeftmostNonPrivate    // limit math.MaxUint: no limit
	rtc     [3]clientip.RightmostTrustedCount
	rnp     [2]clientip.RightmostNonPrivate
	rtr     [3]clientip.RightmostTrustedRange
	lnp     [2][3]clientip.LeftmostNonPrivate
	chain   clientip.Chain
}

func mustRes[T any](v T, err error) T {
	if err != nil {
		failTool("resolver construction: %v", err)
	}
	return v
}

func newIPSetup(key clientip.HeaderKey) *ipSetup {
	s := &ipSetup{}
	// resolvers built with every selection of the built-in range families, in every order, and thrown away: building one
	// resolver never changes what another one (built before or after, with other options) trusts
	trust := []func(bool) clientip.TrustedRangeOption{clientip.TrustLoopback, clientip.TrustLinkLocal, clientip.TrustPrivateNet}
	excl := []func(bool) clientip.BlacklistRangeOption{clientip.ExcludeLoopback, clientip.ExcludeLinkLocal, clientip.ExcludePrivateNet}
	for _, order := range [][]int{{0}, {1}, {2}, {0, 1}, {1, 0}, {0, 2}, {2, 0}, {1, 2}, {2, 1}, {0, 1, 2}, {2, 1, 0}, {1, 2, 0}, {1, 0, 2}} {
		var to []clientip.TrustedRangeOption
		var eo []clientip.BlacklistRangeOption
		for _, i := range order {
			to = append(to, trust[i](true))
			eo = append(eo, excl[i](true))
		}
		mustRes(clientip.NewRightmostNonPrivate(key, to...))
		mustRes(clientip.NewLeftmostNonPrivate(key, 2, eo...))
	}
	s.rtcHuge[0] = mustRes(clientip.NewRightmostTrustedCount(key, math.MaxUint))
	s.rtcHuge[1] = mustRes(clientip.NewRightmostTrustedCount(key, math.MaxInt+2))
	s.lnpAll[0] = mustRes(clientip.NewLeftmostNonPrivate(key, math.MaxUint))
	s.lnpAll[1] = mustRes(clientip.NewLeftmostNonPrivate(key, math.MaxUint, clientip.ExcludePrivateNet(true)))
	for n := 1; n <= 3; n++ {
		s.rtc[n-1] = mustRes(clientip.NewRightmostTrustedCount(key, uint(n)))
	}
	s.rnp[0] = mustRes(clientip.NewRightmostNonPrivate(key))
	s.rnp[1] = mustRes(clientip.NewRightmostNonPrivate(key, clientip.TrustPrivateNet(true)))
	cust := mustRes(clientip.AddressesAndRangesToIPNets(customRanges...))
	def := clientip.VerifDefaultRanges()["privateAndLocal"]
	s.rtr[0] = mustRes(clientip.NewRightmostTrustedRange(key, clientip.TrustedIPRangeFunc(func() ([]net.IPNet, error) { return cust, nil })))
	both := append(append([]net.IPNet(nil), cust...), def...)
	s.rtr[1] = mustRes(clientip.NewRightmostTrustedRange(key, clientip.TrustedIPRangeFunc(func() ([]net.IPNet, error) { return both, nil })))
	for lim := 1; lim <= 3; lim++ {
		s.lnp[0][lim-1] = mustRes(clientip.NewLeftmostNonPrivate(key, uint(lim)))
		s.lnp[1][lim-1] = mustRes(clientip.NewLeftmostNonPrivate(key, uint(lim), clientip.ExcludePrivateNet(true)))
	}
	// a provider that returns no range at all (nil for one header, an empty slice for the other): nothing is trusted
	none := []net.IPNet(nil)
	if key == clientip.XForwardedForKey {
		none = []net.IPNet{}
	}
	s.rtr[2] = mustRes(clientip.NewRightmostTrustedRange(key, clientip.TrustedIPRangeFunc(func() ([]net.IPNet, error) { return none, nil })))
	s.chain = clientip.NewChain(s.rtr[0], s.rtc[2], s.lnp[0][1])
	return s
}

type ipCtxKey struct{}

// resolveWith runs a resolver through a real Context (a route whose resolver it is).
func resolveWith(res fox.ClientIPResolver, hdrName string, lines []string) (ip *net.IPAddr, err error, panicked any) {
	rt, e := fox.New(fox.WithClientIPResolver(res))
	if e != nil {
		failTool("fox.New: %v", e)
	}
	rt.MustHandle("GET", "/ip", func(c fox.Context) {
		defer func() {
			if p := recover(); p != nil {
				panicked = p
			}
		}()
		ip, err = c.ClientIP()
	})
	req, _ := newRequest("GET", "", "/ip", "")
	if lines != nil {
		req.Header[hdrName] = lines
	}
	rt.ServeHTTP(newPlainWriter(), req)
	return
}

func replayIPVec(r *Run, v ipVec, rng *rand.Rand, setups map[string]*ipSetup, evals *atomic.Int64) {
	for _, hdr := range []string{"X-Forwarded-For", "Forwarded"} {
		s := setups[hdr]
		// concretise
		var lines []string
		var flat []rendering
		for _, l := range v.H {
			var parts []string
			for _, id := range l {
				rs := renderings[id]
				rd := rs[rng.Intn(len(rs))]
				flat = append(flat, rd)
				if hdr == "Forwarded" {
					parts = append(parts, decorateForwarded(rng, rd.fwd))
				} else {
					parts = append(parts, rd.xff)
				}
			}
			sep := ","
			if rng.Intn(2) == 0 {
				sep = ", "
			}
			lines = append(lines, strings.Join(parts, sep))
		}
		check := func(name string, res fox.ClientIPResolver, wantPos int) {
			evals.Add(1)
			ip, err, pan := resolveWith(res, hdr, lines)
			want := ""
			if wantPos > 0 {
				want = flat[wantPos-1].addr
			}
			got := ""
			if err == nil && ip != nil {
				got = ip.IP.String()
				if ip.Zone != "" {
					got += "%" + ip.Zone
				}
			}
			if pan != nil || got != want || (wantPos == 0 && err == nil) || (wantPos > 0 && err != nil) {
				r.violation(fmt.Sprintf("clientip strategy=%s header=%s lines=%q", name, hdr, lines), map[string]any{"kind": "vector", "strategy": name, "header": hdr,
					"lines": lines, "abstract": v.H, "prescribed": map[string]any{"entry_position": wantPos, "address": want},
					"obtained": map[string]any{"address": got, "error": fmt.Sprint(err), "panic": fmt.Sprint(pan)}})
			}
		}
		for n := 1; n <= 3; n++ {
			check(fmt.Sprintf("rightmost-trusted-count(%d)", n), s.rtc[n-1], v.Rtc[n-1])
		}
		check("rightmost-non-private(default)", s.rnp[0], v.Rnp[0])
		check("rightmost-non-private(private-net only)", s.rnp[1], v.Rnp[1])
		check("rightmost-trusted-range(custom)", s.rtr[0], v.Rtr[0])
		check("rightmost-trusted-range(custom+default)", s.rtr[1], v.Rtr[1])
		check("rightmost-trusted-range(no range)", s.rtr[2], v.Rtr[2])
		for lim := 1; lim <= 3; lim++ {
			check(fmt.Sprintf("leftmost-non-private(%d,default)", lim), s.lnp[0][lim-1], v.Lnp[0][lim-1])
			check(fmt.Sprintf("leftmost-non-private(%d,private-net only)", lim), s.lnp[1][lim-1], v.Lnp[1][lim-1])
		}
		check("chain(rtr custom, rtc 3, lnp 2)", s.chain, v.Chain)
		// the ends of the parameter range: a count no header can reach is an error (never a panic), no limit is any limit
		// that is not reached
		check("rightmost-trusted-count(MaxUint)", s.rtcHuge[0], 0)
		check("rightmost-trusted-count(MaxInt+2)", s.rtcHuge[1], 0)
		if len(flat) <= 3 {
			check("leftmost-non-private(MaxUint,default)", s.lnpAll[0], v.Lnp[0][2])
			check("leftmost-non-private(MaxUint,private-net only)", s.lnpAll[1], v.Lnp[1][2])
		}
	}
	// single-IP header: one entry per header instance
	single := mustRes(clientip.NewSingleIPHeader("X-Real-IP"))
	var lines []string
	var flat []rendering
	onePerLine := true
	for _, l := range v.H {
		if len(l) != 1 {
			onePerLine = false
		}
	}
	if onePerLine {
		for _, l := range v.H {
			rs := renderings[l[0]]
			rd := rs[rng.Intn(len(rs))]
			flat = append(flat, rd)
			lines = append(lines, strings.TrimSpace(rd.xff)) // a header value never reaches a handler with outer whitespace
		}
		ip, err, pan := resolveWith(single, "X-Real-Ip", lines)
		evals.Add(1)
		want, got := "", ""
		if v.Single > 0 {
			want = flat[v.Single-1].addr
		}
		if err == nil && ip != nil {
			got = ip.IP.String()
			if ip.Zone != "" {
				got += "%" + ip.Zone
			}
		}
		if pan != nil || got != want {
			r.violation(fmt.Sprintf("clientip strategy=single-header lines=%q", lines), map[string]any{"kind": "vector", "strategy": "single-header", "lines": lines,
				"prescribed": want, "obtained": map[string]any{"address": got, "error": fmt.Sprint(err), "panic": fmt.Sprint(pan)}})
		}
	}
}

func cidrObs(n net.IPNet) map[string]any {
	ones, _ := n.Mask.Size()
	if ip4 := n.IP.To4(); ip4 != nil && len(n.Mask) == 4 {
		return map[string]any{"v": 4, "g": []int{int(ip4[0]), int(ip4[1]), int(ip4[2]), int(ip4[3])}, "len": ones}
	}
	ip := n.IP.To16()
	g := make([]int, 8)
	for i := range g {
		g[i] = int(ip[2*i])<<8 | int(ip[2*i+1])
	}
	return map[string]any{"v": 6, "g": g, "len": ones}
}

func checkC18(r *Run) {
	gen := fmt.Sprintf("---- MODULE Gen_ClientIP ----\nGenMaxLines == 2\nGenMaxEntries == %d\nGenMaxPrefix == %d\nGenWithEmpty == TRUE\n====\n", pick(r, 2, 3), pick(r, 2, 1))
	setups := map[string]*ipSetup{"X-Forwarded-For": newIPSetup(clientip.XForwardedForKey), "Forwarded": newIPSetup(clientip.ForwardedKey)}
	var vecs, evals atomic.Int64
	ch := make(chan ipVec, 256)
	var wg sync.WaitGroup
	for k := 0; k < 12; k++ {
		wg.Add(1)
		go func(k int) {
			defer wg.Done()
			rng := rand.New(rand.NewSource(r.Seed*131 + int64(k)))
			for v := range ch {
				if n := vecs.Add(1); n == 777 {
					r.sample(v)
				}
				reps := 1
				if r.quick() {
					reps = 2
				}
				for i := 0; i < reps; i++ {
					replayIPVec(r, v, rng, setups, &evals)
				}
			}
		}(k)
	}
	res := r.runTLC(tlcOpts{Module: "MC_ClientIP", Gen: map[string]string{"Gen_ClientIP.tla": gen}, Timeout: pick(r, 5*time.Minute, 40*time.Minute),
		OnVec: func(b []byte) {
			var v ipVec
			if err := json.Unmarshal(b, &v); err != nil {
				failTool("bad vector: %v", err)
			}
			ch <- v
		}})
	close(ch)
	wg.Wait()
	res.mustClean("MC_ClientIP")
	r.addCov("states", res.Distinct)
	r.addCov("transitions", res.Generated)
	r.addCov("traces_validated_against_impl", vecs.Load())
	r.addCov("evaluations", evals.Load())
	r.setCov("exhaustive", true)
	// range audit: every built-in range, read from the real tables, validated by TLC
	var obs []map[string]any
	var names []string
	for table, nets := range clientip.VerifDefaultRanges() {
		for _, n := range nets {
			obs = append(obs, cidrObs(n))
			names = append(names, table+" "+n.String())
		}
	}
	rej := r.runObs("Obs_Ranges", obs, 5*time.Minute)
	for i := range rej {
		r.violation("clientip default range "+names[i-1], map[string]any{"kind": "trace", "range": names[i-1], "prescribed": "inside a non-global block (IANA special-purpose, multicast, reserved)", "obtained": "contains globally routable addresses"})
	}
	r.addCov("default_ranges_audited", int64(len(obs)))
	// remote address resolver and never-panic on junk
	rng := rand.New(rand.NewSource(r.Seed))
	ra := clientip.NewRemoteAddr()
	for i := 0; i < pick(r, 6000, 60000); i++ {
		var b []byte
		if i%2 == 0 {
			b = make([]byte, rng.Intn(24))
			for k := range b {
				b[k] = "0123456789abcdef.:[]%, ;=\"for\t"[rng.Intn(30)]
			}
		} else { // token soup: the pieces parsers special-case, in every order
			toks := []string{"for=", "\"", "[", "]", ";", ",", "by=", "1.2.3.4", ":", "%", " ", "::1", "=", "For=", "80"}
			for n := rng.Intn(6); n > 0; n-- {
				b = append(b, toks[rng.Intn(len(toks))]...)
			}
		}
		for _, hdr := range []string{"X-Forwarded-For", "Forwarded"} {
			for _, res := range []fox.ClientIPResolver{setups[hdr].rtc[0], setups[hdr].rnp[0], setups[hdr].rtr[1], setups[hdr].lnp[0][2], setups[hdr].chain, ra} {
				if _, _, pan := resolveWith(res, hdr, []string{string(b), string(b)}); pan != nil {
					r.violation(fmt.Sprintf("clientip panic header=%s value=%q", hdr, b), map[string]any{"prescribed": "no panic", "obtained": fmt.Sprint(pan)})
				}
			}
		}
	}
	r.assumption("each rendering of the table parses to the address it is labelled with (byte-level parsing by package net is a trusted projection)")
	r.assumption("192.88.99.0/24 (deprecated 6to4 relay anycast, RFC 7526) and 2001::/23 count as non-global blocks")
}
