package main

import (
	"encoding/json"
	"errors"
	"fmt"
	"math/rand"
	"slices"
	"sort"
	"strings"
	"sync"
	"sync/atomic"
	"time"

	"github.com/tigerwill90/fox"
)

// ---- helpers for function-like families --------------------------------------------------------------

func tlaCharSet(cs string) string {
	parts := make([]string, len(cs))
	for i := 0; i < len(cs); i++ {
		parts[i] = tlaStr(cs[i : i+1])
	}
	return "{" + strings.Join(parts, ", ") + "}"
}

// allStrings enumerates every string over alphabet of length exactly n.
func allStrings(alphabet string, n int, f func(string)) {
	buf := make([]byte, n)
	var rec func(i int)
	rec = func(i int) {
		if i == n {
			f(string(buf))
			return
		}
		for k := 0; k < len(alphabet); k++ {
			buf[i] = alphabet[k]
			rec(i + 1)
		}
	}
	rec(0)
}

// obsFile renders observations as ndjson for the Obs_* trace specifications.
func obsFile(obs []map[string]any) string {
	var sb strings.Builder
	for _, o := range obs {
		b, _ := json.Marshal(o)
		sb.Write(b)
		sb.WriteByte('\n')
	}
	return sb.String()
}

// runObs validates recorded observations with an Obs_* module; it returns, per rejected observation
// index (1-based), what the specification wanted.
func (r *Run) runObs(module string, obs []map[string]any, timeout time.Duration) map[int]json.RawMessage {
	rejected := map[int]json.RawMessage{}
	var mu sync.Mutex
	res := r.runTLC(tlcOpts{
		Module:  module,
		Files:   map[string]string{"obs.ndjson": obsFile(obs)},
		Timeout: timeout,
		OnVec: func(b []byte) {
			var v struct {
				I    int             `json:"i"`
				Want json.RawMessage `json:"want"`
			}
			if err := json.Unmarshal(b, &v); err != nil {
				failTool("bad rejection from TLC: %v", err)
			}
			mu.Lock()
			rejected[v.I] = v.Want
			mu.Unlock()
		},
	})
	// The invariant Report is TRUE for conforming observations and prints (returning TRUE) otherwise,
	// so TLC itself must finish cleanly; rejections come through the printed lines.
	res.mustClean(module)
	if res.Distinct < 2*int64(len(obs)) {
		failTool("%s: only %d of %d observations were examined", module, res.Distinct, len(obs))
	}
	r.addCov("observations_validated_by_tlc", int64(len(obs)))
	return rejected
}

// ---- C17 CleanPath ---------------------------------------------------------------------------------------

const cleanAlphabet = "/.a%E" // E stands for a multi-byte rune (mapped to "é" before calling fox)

func toReal(s string) string   { return strings.ReplaceAll(s, "E", "é") }
func fromReal(s string) string { return strings.ReplaceAll(s, "é", "E") }

func safeClean(s string) (out string, panicked any) {
	defer func() {
		if p := recover(); p != nil {
			panicked = p
		}
	}()
	return fox.CleanPath(s), nil
}

func checkC17(r *Run) {
	pre, suf := pick(r, 4, 5), pick(r, 3, 5)
	gen := fmt.Sprintf("---- MODULE Gen_Clean ----\nGenAlphabet == %s\nGenPrefixLen == %d\nGenSuffixLen == %d\n====\n", tlaCharSet(cleanAlphabet), pre, suf)
	var pairs, nontrivial atomic.Int64
	res := r.runTLC(tlcOpts{
		Module:  "MC_Clean",
		Gen:     map[string]string{"Gen_Clean.tla": gen},
		Timeout: pick(r, 5*time.Minute, 40*time.Minute),
		OnVec: func(b []byte) {
			var v [][2]string
			if err := json.Unmarshal(b, &v); err != nil {
				failTool("bad vector: %v", err)
			}
			for _, p := range v {
				in, want := toReal(p[0]), toReal(p[1])
				got, pan := safeClean(in)
				pairs.Add(1)
				if want != in {
					nontrivial.Add(1)
				}
				if pan != nil || got != want {
					r.violation(fmt.Sprintf("cleanpath input=%q", in), map[string]any{"kind": "vector", "input": in, "prescribed": want, "obtained": got, "panic": fmt.Sprint(pan)})
				}
			}
			if pairs.Load()%5000 < int64(len(v)) && len(v) > 3 {
				r.sample(map[string]any{"input": toReal(v[len(v)/2][0]), "prescribed": toReal(v[len(v)/2][1])})
			}
		},
	})
	res.mustClean("MC_Clean")
	r.addCov("states", res.Distinct)
	r.addCov("transitions", res.Generated)
	r.addCov("traces_validated_against_impl", pairs.Load())
	r.addCov("evaluations", pairs.Load())
	r.addCov("inputs_changed_by_cleaning", nontrivial.Load())
	r.setCov("exhaustive_up_to_length", int64(pre+suf))
	// D2: long random inputs crossing the 128-byte stack buffer, validated by TLC
	rng := rand.New(rand.NewSource(r.Seed))
	n := pick(r, 1500, 20000)
	elems := []string{"a", "ab", ".", "..", "", "a.b", "...", "%2F", "E", "aE", ".a", "a."}
	var obs []map[string]any
	var ins []string
	for i := 0; i < n; i++ {
		var sb strings.Builder
		target := 90 + rng.Intn(140)
		if rng.Intn(3) > 0 {
			sb.WriteByte('/')
		}
		for sb.Len() < target {
			sb.WriteString(elems[rng.Intn(len(elems))])
			sb.WriteByte('/')
			if rng.Intn(6) == 0 {
				sb.WriteString(strings.Repeat("a", rng.Intn(40)))
			}
		}
		in := sb.String()
		if rng.Intn(2) == 0 {
			in = strings.TrimSuffix(in, "/")
		}
		got, pan := safeClean(toReal(in))
		if pan != nil {
			r.violation(fmt.Sprintf("cleanpath input=%q", in), map[string]any{"kind": "vector", "input": toReal(in), "prescribed": "no panic", "obtained": fmt.Sprint(pan)})
			continue
		}
		ins = append(ins, in)
		obs = append(obs, map[string]any{"in": chars(in), "out": chars(fromReal(got))})
	}
	rej := r.runObs("Obs_Clean", obs, pick(r, 5*time.Minute, 30*time.Minute))
	for i, want := range rej {
		var w string
		json.Unmarshal(want, &w)
		r.violation(fmt.Sprintf("cleanpath input=%q", toReal(ins[i-1])), map[string]any{"kind": "trace", "input": toReal(ins[i-1]),
			"prescribed": toReal(w), "obtained": strings.Join(obs[i-1]["out"].([]string), "")})
	}
	r.addCov("traces_validated_against_impl", int64(len(obs)))
	// "a trailing-slash redirect is only ever issued for request paths already in this form"
	runServeDirtyStatic(r, rng)
	runServeD2(r, rng, "")
	r.assumption("multi-byte runes are opaque atoms for CleanPath (one placeholder character in the specification)")
}

// ---- C10 pattern grammar -------------------------------------------------------------------------------------

const patternAlphabet = "/a.{}*-1"

type patInst struct {
	H string      `json:"h"`
	P string      `json:"p"`
	V []string    `json:"v"`
	B [][2]string `json:"b"`
	X bool        `json:"x"`
}

type patEntry struct {
	S    string    `json:"s"`
	OK   []bool    `json:"ok"`
	Inst []patInst `json:"inst"`
}

type patVec struct {
	Pre string     `json:"pre"`
	Acc []patEntry `json:"acc"`
}

var patLimits = [][2]int{{65535, 65535}, {1, 65535}, {65535, 1}, {0, 65535}, {65535, 0}} // a limit of zero is a limit

func routerWithLimits(l [2]int) *fox.Router {
	var opts []fox.GlobalOption
	if l[0] < 65535 {
		opts = append(opts, fox.WithMaxRouteParams(uint16(l[0])))
	}
	if l[1] < 65535 {
		opts = append(opts, fox.WithMaxRouteParamKeyBytes(uint16(l[1])))
	}
	r, err := fox.New(opts...)
	if err != nil {
		failTool("fox.New: %v", err)
	}
	return r
}

// verdict registers the pattern on a fresh router and classifies what happened.
func patternVerdict(limits [2]int, pat string) (ok bool, note string) {
	defer func() {
		if p := recover(); p != nil {
			ok, note = false, "panic: "+fmt.Sprint(p)
		}
	}()
	r := routerWithLimits(limits)
	_, err := r.Handle("GET", pat, routeHandler(pat))
	_, err2 := r.NewRoute(pat, routeHandler(pat))
	if (err == nil) != (err2 == nil) {
		return err == nil, fmt.Sprintf("Handle and NewRoute disagree: %v / %v", err, err2)
	}
	if err != nil {
		if !errors.Is(err, fox.ErrInvalidRoute) {
			return false, "rejected with an error that is not ErrInvalidRoute: " + err.Error()
		}
		// Delete validates the pattern as well
		if _, derr := r.Delete("GET", pat); !errors.Is(derr, fox.ErrInvalidRoute) {
			return false, "Delete of a malformed pattern: " + fmt.Sprint(derr)
		}
		return false, ""
	}
	if _, derr := r.Delete("GET", pat); derr != nil {
		return true, "Delete of the accepted pattern failed: " + derr.Error()
	}
	return true, ""
}

func substitute(pat string, vals []string) string {
	var sb strings.Builder
	k := 0
	for i := 0; i < len(pat); {
		switch {
		case pat[i] == '{':
			j := strings.IndexByte(pat[i:], '}') + i
			sb.WriteString(vals[k])
			k++
			i = j + 1
		case pat[i] == '*' && i+1 < len(pat) && pat[i+1] == '{':
			j := strings.IndexByte(pat[i:], '}') + i
			sb.WriteString(vals[k])
			k++
			i = j + 1
		default:
			sb.WriteByte(pat[i])
			i++
		}
	}
	return sb.String()
}

func tlaLimits(ls [][2]int) string {
	var parts []string
	for _, l := range ls {
		parts = append(parts, fmt.Sprintf("<<%d, %d>>", l[0], l[1]))
	}
	return "<< " + strings.Join(parts, ", ") + " >>"
}

func checkC10(r *Run) {
	pre, suf := pick(r, 3, 4), pick(r, 3, 4)
	gen := fmt.Sprintf(`---- MODULE Gen_Pattern ----
GenAlphabet == %s
GenPrefixLen == %d
GenSuffixLen == %d
GenLimits == %s
GenParamValues == { <<"a">>, <<"a","b">>, <<"A","b">>, <<"{","a">> }
GenCatchValues == { <<"a","/","b">> }
====
`, tlaCharSet(patternAlphabet), pre, suf, tlaLimits(patLimits))
	var strs, accepted, insts atomic.Int64
	handle := func(v patVec) {
		acc := map[string]patEntry{}
		for _, e := range v.Acc {
			acc[e.S] = e
		}
		visit := func(s string) {
			strs.Add(1)
			e, listed := acc[s]
			for li, lim := range patLimits {
				want := listed && e.OK[li]
				got, note := patternVerdict(lim, s)
				if got != want || note != "" {
					r.violation(fmt.Sprintf("pattern %q maxParams=%d maxKey=%d", s, lim[0], lim[1]), map[string]any{"kind": "vector", "pattern": s, "limits": lim,
						"prescribed": map[string]any{"accepted": want}, "obtained": map[string]any{"accepted": got, "note": note}})
				}
			}
			if !listed || !e.OK[0] {
				return
			}
			accepted.Add(1)
			rt := routerWithLimits(patLimits[0])
			if _, err := rt.Handle("GET", s, routeHandler(s)); err != nil {
				return // already reported above
			}
			for _, in := range e.Inst {
				insts.Add(1)
				got := obtainLookup(rt, "GET", in.H, in.P)
				ok := got.Route == s && !got.Tsr && len(got.Params) == len(in.V)
				if ok {
					vals := make([]string, len(got.Params))
					for i, kv := range got.Params {
						vals[i] = kv[1]
					}
					ok = substitute(s, vals) == in.H+in.P
					if ok && in.X {
						ok = sameParams(got.Params, in.B)
					}
					for i := range got.Params {
						if i < len(in.B) && got.Params[i][0] != in.B[i][0] {
							ok = false
						}
					}
				}
				if !ok {
					r.violation(fmt.Sprintf("pattern %q request host=%q path=%q", s, in.H, in.P), map[string]any{"kind": "vector", "pattern": s, "host": in.H, "path": in.P,
						"prescribed": outcome{Route: s, Params: in.B}, "exact_params_required": in.X, "obtained": got})
				}
				// the same through the entry points that only look (Reverse, the iterator's Reverse)
				if rv := obtainReverse(rt, "GET", in.H, in.P); rv.Route != s || rv.Tsr {
					r.violation(fmt.Sprintf("pattern %q request host=%q path=%q entry=Reverse", s, in.H, in.P), map[string]any{"kind": "vector", "pattern": s, "host": in.H, "path": in.P,
						"prescribed": outcome{Route: s}, "obtained": rv})
				}
				viaIter := ""
				for _, rte := range rt.Iter().Reverse(slices.Values([]string{"GET"}), in.H, in.P) {
					viaIter = rte.Pattern()
				}
				if viaIter != s {
					r.violation(fmt.Sprintf("pattern %q request host=%q path=%q entry=Iter.Reverse", s, in.H, in.P), map[string]any{"kind": "vector", "pattern": s, "host": in.H, "path": in.P,
						"prescribed": outcome{Route: s}, "obtained": viaIter})
				}
				// the same through ServeHTTP
				sg, _, _ := obtainServe(rt, "GET", in.H, in.P)
				if sg.Route != s {
					r.violation(fmt.Sprintf("pattern %q request host=%q path=%q entry=ServeHTTP", s, in.H, in.P), map[string]any{"kind": "vector", "pattern": s, "host": in.H, "path": in.P,
						"prescribed": outcome{Route: s, Params: in.B}, "obtained": sg})
				}
			}
		}
		if v.Pre == "short" {
			for n := 0; n < pre; n++ {
				allStrings(patternAlphabet, n, visit)
			}
		} else {
			for n := 0; n <= suf; n++ {
				allStrings(patternAlphabet, n, func(x string) { visit(v.Pre + x) })
			}
		}
		if len(v.Acc) > 0 && accepted.Load() < 400 {
			e := v.Acc[len(v.Acc)/2]
			r.sample(map[string]any{"pattern": e.S, "accepted_under_limits": e.OK, "instantiations": len(e.Inst)})
		}
	}
	ch := make(chan patVec, 64)
	var wg sync.WaitGroup
	for k := 0; k < 12; k++ {
		wg.Add(1)
		go func() {
			defer wg.Done()
			for v := range ch {
				handle(v)
			}
		}()
	}
	res := r.runTLC(tlcOpts{
		Module:  "MC_Pattern",
		Gen:     map[string]string{"Gen_Pattern.tla": gen},
		Timeout: pick(r, 5*time.Minute, 45*time.Minute),
		OnVec: func(b []byte) {
			var v patVec
			if err := json.Unmarshal(b, &v); err != nil {
				failTool("bad vector: %v", err)
			}
			ch <- v
		},
	})
	close(ch)
	wg.Wait()
	res.mustClean("MC_Pattern")
	r.addCov("states", res.Distinct)
	r.addCov("transitions", res.Generated)
	r.addCov("strings_enumerated", strs.Load())
	r.addCov("patterns_accepted", accepted.Load())
	r.addCov("instantiations_routed", insts.Load())
	r.addCov("traces_validated_against_impl", strs.Load())
	r.addCov("evaluations", strs.Load()*3+insts.Load()*2)
	r.setCov("exhaustive_up_to_length", int64(pre+suf))
	want := int64(0)
	p := int64(1)
	for n := 0; n <= pre+suf; n++ {
		want += p
		p *= int64(len(patternAlphabet))
	}
	if strs.Load() != want {
		failTool("enumerated %d strings, expected %d", strs.Load(), want)
	}
	// D2: long random patterns around the 63/255 limits and many parameters, arbitrary bytes for crash-freedom
	rng := rand.New(rand.NewSource(r.Seed))
	var obs []map[string]any
	var pats []string
	n := pick(r, 600, 6000)
	for i := 0; i < n; i++ {
		pat := randomLongPattern(rng)
		if i%2 == 1 {
			pat = singleFaultPattern(rng)
		}
		lim := patLimits[rng.Intn(len(patLimits))]
		if rng.Intn(3) == 0 {
			lim = [2]int{1 + rng.Intn(4), 1 + rng.Intn(6)}
		}
		got, note := patternVerdict(lim, pat)
		if note != "" {
			r.violation(fmt.Sprintf("pattern %q maxParams=%d maxKey=%d", pat, lim[0], lim[1]), map[string]any{"kind": "trace", "pattern": pat, "limits": lim, "prescribed": "consistent verdict, no panic", "obtained": note})
			continue
		}
		pats = append(pats, pat)
		obs = append(obs, map[string]any{"s": chars(pat), "maxp": lim[0], "maxk": lim[1], "ok": got})
	}
	rej := r.runObs("Obs_Pattern", obs, pick(r, 5*time.Minute, 30*time.Minute))
	keys := make([]int, 0, len(rej))
	for i := range rej {
		keys = append(keys, i)
	}
	sort.Ints(keys)
	for _, i := range keys {
		o := obs[i-1]
		r.violation(fmt.Sprintf("pattern %q maxParams=%v maxKey=%v", pats[i-1], o["maxp"], o["maxk"]), map[string]any{"kind": "trace", "pattern": pats[i-1],
			"prescribed": map[string]any{"accepted": !o["ok"].(bool)}, "obtained": map[string]any{"accepted": o["ok"]}})
	}
	// "every accepted pattern is routable" for the long patterns too: registered alone on a default router, the plain
	// substitution of its wildcards is routed to it by every entry point, and the values reported reproduce the request
	routed := 0
	for _, pat := range pats {
		rt, err := fox.New()
		if err != nil {
			failTool("fox.New: %v", err)
		}
		if _, err := rt.Handle("GET", pat, routeHandler(pat)); err != nil {
			continue
		}
		var vals []string
		rest := pat
		for k := 0; ; k++ {
			i := strings.IndexByte(rest, '{')
			if i < 0 {
				break
			}
			if i > 0 && rest[i-1] == '*' {
				vals = append(vals, fmt.Sprintf("w%d/z", k))
			} else {
				vals = append(vals, fmt.Sprintf("v%d", k))
			}
			rest = rest[i+1:]
		}
		target := substitute(pat, vals)
		host, path := "", target
		if i := strings.IndexByte(target, '/'); i > 0 {
			host, path = target[:i], target[i:]
		}
		routed++
		bad := func(entry string, got any) {
			r.violation(fmt.Sprintf("pattern %q request host=%q path=%q entry=%s", pat, host, path, entry), map[string]any{"kind": "vector", "pattern": pat, "host": host, "path": path,
				"prescribed": outcome{Route: pat}, "obtained": got})
		}
		if got := obtainLookup(rt, "GET", host, path); got.Route != pat || got.Tsr || len(got.Params) != len(vals) {
			bad("Lookup", got)
		} else {
			gv := make([]string, len(got.Params))
			for i, kv := range got.Params {
				gv[i] = kv[1]
			}
			if substitute(pat, gv) != target {
				bad("Lookup (parameter values)", got)
			}
		}
		if rv := obtainReverse(rt, "GET", host, path); rv.Route != pat || rv.Tsr {
			bad("Reverse", rv)
		}
		if got := obtainIterReverse(rt.Iter(), "GET", host, path); len(got) != 1 || got[0] != "GET "+pat {
			bad("Iter.Reverse", got)
		}
		if sg, _, _ := obtainServe(rt, "GET", host, path); sg.Route != pat {
			bad("ServeHTTP", sg)
		}
	}
	r.addCov("long_patterns_routed", int64(routed))
	// arbitrary bytes: registration must never panic
	for i := 0; i < pick(r, 20000, 300000); i++ {
		b := make([]byte, rng.Intn(12))
		for k := range b {
			if rng.Intn(3) == 0 {
				b[k] = byte(rng.Intn(256))
			} else {
				b[k] = "/{}*.-a1"[rng.Intn(8)]
			}
		}
		if _, note := patternVerdict(patLimits[0], string(b)); strings.HasPrefix(note, "panic") {
			r.violation(fmt.Sprintf("pattern bytes %q", b), map[string]any{"kind": "vector", "pattern": string(b), "prescribed": "no panic", "obtained": note})
		}
	}
	r.addCov("traces_validated_against_impl", int64(len(obs)))
}

func randomLongPattern(rng *rand.Rand) string {
	var sb strings.Builder
	label := func() string {
		n := []int{1, 2, 10, 62, 63, 64, 65}[rng.Intn(7)]
		var b strings.Builder
		for i := 0; i < n; i++ {
			b.WriteByte("ab1-_"[rng.Intn(5)])
		}
		s := b.String()
		if rng.Intn(4) > 0 {
			s = strings.Trim(s, "-")
			if s == "" {
				s = "a"
			}
		}
		if rng.Intn(4) == 0 {
			s += "{" + strings.Repeat("k", 1+rng.Intn(4)) + "}"
		}
		return s
	}
	if rng.Intn(2) == 0 {
		// hostname: aim around 255 bytes
		target := []int{5, 100, 250, 254, 255, 256, 257, 300}[rng.Intn(8)]
		for sb.Len() < target {
			if sb.Len() > 0 {
				sb.WriteByte('.')
			}
			l := label()
			if sb.Len()+len(l) > target && target-sb.Len() > 0 && rng.Intn(2) == 0 {
				l = strings.Repeat("a", target-sb.Len())
			}
			sb.WriteString(l)
		}
	}
	segs := 1 + rng.Intn(6)
	for i := 0; i < segs; i++ {
		sb.WriteByte('/')
		switch rng.Intn(6) {
		case 0:
			sb.WriteString("{" + strings.Repeat("p", 1+rng.Intn(5)) + "}")
		case 1:
			sb.WriteString("x{" + strings.Repeat("q", 1+rng.Intn(3)) + "}")
		case 2:
			sb.WriteString("*{" + strings.Repeat("c", 1+rng.Intn(3)) + "}")
		case 3:
			sb.WriteString("seg" + strings.Repeat("z", rng.Intn(30)))
		case 4:
			sb.WriteString([]string{"*", "{", "}", "{}", "*{}", "a{b", "*a}", "{a}{b}", "{a}b", "**{a}", "{a*}", "{a/b}"}[rng.Intn(12)])
		}
	}
	if rng.Intn(3) == 0 {
		sb.WriteByte('/')
	}
	return sb.String()
}

// singleFaultPattern builds a short pattern that is valid by construction and then, three times out of four, replaces
// or inserts one piece taken from a list of malformed (and a few unusual but well-formed) pieces at a random position
// of the path or of the hostname, so that every kind of fault is met after every kind of earlier piece.
var patGoodSegs = []string{"a", "b1", "ab", "{p}", "{q}", "x{q}", "y{r}", "*{c}", "z*{d}", "a.b", "a-b"}
var patFaultSegs = []string{"*", "{", "}", "{}", "*{}", "x{}", "x*{}", "a{b", "*a}", "{a}{b}", "{a}b", "**{a}", "{a*}", "{a/b}", "{a}*{b}", "*{a}{b}", "a*{b}c",
	"*{a}*{b}", "{a}}", "{{a}", "*{a", "*{*}", "{p}", "*{c}", "{ }", "*{a}/"}
var patGoodLabels = []string{"a", "b1", "ab", "{h}", "a{g}", "x-y", "1a"}
var patFaultLabels = []string{"", "{}", "a{", "}", "*{h}", "-a", "a-", "{h}{g}", "{h}a", "a..b", "{h.g}", "*", "a{}", "{h}-", "A"}

func singleFaultPattern(rng *rand.Rand) string {
	var labels, segs []string
	if rng.Intn(3) == 0 {
		for i, n := 0, 1+rng.Intn(3); i < n; i++ {
			labels = append(labels, patGoodLabels[rng.Intn(len(patGoodLabels))])
		}
	}
	prevCatch := false
	for i, n := 0, 1+rng.Intn(4); i < n; i++ {
		sg := patGoodSegs[rng.Intn(len(patGoodSegs))]
		for prevCatch && strings.Contains(sg, "*") {
			sg = patGoodSegs[rng.Intn(len(patGoodSegs))]
		}
		prevCatch = strings.Contains(sg, "*")
		segs = append(segs, sg)
	}
	if rng.Intn(4) > 0 {
		if len(labels) > 0 && rng.Intn(3) == 0 {
			f := patFaultLabels[rng.Intn(len(patFaultLabels))]
			i := rng.Intn(len(labels))
			if rng.Intn(2) == 0 {
				labels[i] = f
			} else {
				labels = slices.Insert(labels, i, f)
			}
		} else {
			f := patFaultSegs[rng.Intn(len(patFaultSegs))]
			i := rng.Intn(len(segs) + 1)
			if i < len(segs) && rng.Intn(2) == 0 {
				segs[i] = f
			} else {
				segs = slices.Insert(segs, i, f)
			}
		}
	}
	p := strings.Join(labels, ".") + "/" + strings.Join(segs, "/")
	if rng.Intn(3) == 0 {
		p += "/"
	}
	return p
}

func init() {
	register("C10", checkC10)
	register("C17", checkC17)
}
