package main

import (
	"bufio"
	"context"
	"crypto/sha1"
	"encoding/hex"
	"encoding/json"
	"errors"
	"fmt"
	"io"
	"os"
	"os/exec"
	"path/filepath"
	"regexp"
	"runtime"
	"sort"
	"strconv"
	"strings"
	"sync"
	"syscall"
	"time"
)

const verifDir = "/verif"

// The harness writes its own output to a private duplicate of the original stdout; file descriptors 1 and 2
// are then pointed at /dev/null so that fox's default loggers (which captured os.Stdout/os.Stderr at package
// initialisation) cannot interleave with verdict lines.
var out io.Writer = os.Stdout

func isolateStdout() {
	fd, err := syscall.Dup(1)
	if err != nil {
		return
	}
	keep := os.NewFile(uintptr(fd), "verdicts")
	devnull, err := os.OpenFile(os.DevNull, os.O_WRONLY, 0)
	if err != nil {
		return
	}
	if os.Getenv("FOXCHECK_KEEP_STDERR") == "" {
		// stderr (fox's default logger, but also a crash of the harness itself) goes to a log file
		if lf, err := os.OpenFile(filepath.Join(verifDir, ".build", "stderr.log"), os.O_CREATE|os.O_WRONLY|os.O_TRUNC, 0o644); err == nil {
			syscall.Dup2(int(lf.Fd()), 2)
		} else {
			syscall.Dup2(int(devnull.Fd()), 2)
		}
	}
	syscall.Dup2(int(devnull.Fd()), 1)
	out = keep
}

func outf(format string, a ...any) { fmt.Fprintf(out, format, a...) }
func outln(a ...any)               { fmt.Fprintln(out, a...) }

// exit codes
const (
	exitOK        = 0
	exitViolation = 1
	exitTool      = 2
)

// toolFailure is raised (panic) for anything that is not a verdict about fox: TLC errors, model errors,
// time-outs, I/O problems. It always ends in exit 2.
type toolFailure struct{ msg string }

func failTool(format string, a ...any) { panic(toolFailure{fmt.Sprintf(format, a...)}) }

// Run is the state of one check run.
type Run struct {
	ID      string
	Tier    string
	Seed    int64
	Start   time.Time
	Scratch string

	mu         sync.Mutex
	violations []string // replay paths
	known      map[string]int
	knownSeen  map[string]string
	cov        map[string]any
	samples    []any
	assume     []string
	level      string
	capture    bool // self-test: record violations instead of reporting them
	captured   []string
}

func newRun(id, tier string, seed int64) *Run {
	sc, err := os.MkdirTemp("", "foxverif-"+id+"-")
	if err != nil {
		failTool("mkdtemp: %v", err)
	}
	return &Run{ID: id, Tier: tier, Seed: seed, Start: time.Now(), Scratch: sc,
		cov: map[string]any{}, known: map[string]int{}, knownSeen: map[string]string{}, level: "model_checking",
		assume: []string{"the model is checked for the small constants recorded in coverage; the code is tested against it, not proved"}}
}

func (r *Run) cleanup() { os.RemoveAll(r.Scratch) }

func (r *Run) quick() bool { return r.Tier != "thorough" }

// only reports whether the named family of a check is to run: all of them, unless the development aid
// FOXCHECK_ONLY names one (such a partial run writes no evidence).
func only(family string) bool {
	v := os.Getenv("FOXCHECK_ONLY")
	return v == "" || v == family
}

// pick returns q for the quick tier and t for the thorough tier.
func pick[T any](r *Run, q, t T) T {
	if r.quick() {
		return q
	}
	return t
}

func (r *Run) addCov(key string, n int64) {
	r.mu.Lock()
	defer r.mu.Unlock()
	if v, ok := r.cov[key].(int64); ok {
		r.cov[key] = v + n
	} else {
		r.cov[key] = n
	}
}

func (r *Run) setCov(key string, v any) {
	r.mu.Lock()
	defer r.mu.Unlock()
	r.cov[key] = v
}

func (r *Run) getCov(key string) int64 {
	r.mu.Lock()
	defer r.mu.Unlock()
	v, _ := r.cov[key].(int64)
	return v
}

func (r *Run) sample(s any) {
	r.mu.Lock()
	defer r.mu.Unlock()
	if len(r.samples) < 6 {
		r.samples = append(r.samples, s)
	}
}

func (r *Run) assumption(s string) {
	r.mu.Lock()
	defer r.mu.Unlock()
	for _, a := range r.assume {
		if a == s {
			return
		}
	}
	r.assume = append(r.assume, s)
}

// ---- known findings -------------------------------------------------------------------------

type knownFinding struct {
	Status    string `json:"status"` // "open" or "fixed"
	Property  string `json:"property"`
	Key       string `json:"key"` // signature key matched against the violation key
	What      string `json:"what"`
	FixCommit string `json:"commit,omitempty"`
}

func loadKnown() []knownFinding {
	f, err := os.Open(filepath.Join(verifDir, "known_findings.jsonl"))
	if err != nil {
		return nil
	}
	defer f.Close()
	var out []knownFinding
	sc := bufio.NewScanner(f)
	sc.Buffer(make([]byte, 1<<20), 1<<20)
	for sc.Scan() {
		line := strings.TrimSpace(sc.Text())
		if line == "" || strings.HasPrefix(line, "#") {
			continue
		}
		var k knownFinding
		if json.Unmarshal([]byte(line), &k) == nil {
			out = append(out, k)
		}
	}
	return out
}

// violation records a confirmed disagreement between the real code and the specification.
// key identifies the failing input/call site/history (used to match open known findings);
// replay is everything needed to re-execute it.
func (r *Run) violation(key string, replay map[string]any) {
	if r.capture {
		r.mu.Lock()
		r.captured = append(r.captured, key)
		r.mu.Unlock()
		return
	}
	for _, k := range loadKnown() {
		if k.Status == "open" && k.Property == r.ID && k.Key == key {
			r.mu.Lock()
			r.known[key]++
			r.knownSeen[key] = k.What
			r.mu.Unlock()
			return
		}
	}
	r.mu.Lock()
	defer r.mu.Unlock()
	if len(r.violations) >= 20 {
		r.violations = append(r.violations, "")
		return
	}
	replay["property"] = r.ID
	replay["tier"] = r.Tier
	replay["seed"] = r.Seed
	replay["key"] = key
	replay["fox_commit"] = foxCommit()
	b, _ := json.MarshalIndent(replay, "", " ")
	h := sha1.Sum(b)
	dir := filepath.Join(verifDir, "evidence", "replays")
	os.MkdirAll(dir, 0o755)
	p := filepath.Join(dir, r.ID+"-"+hex.EncodeToString(h[:6])+".json")
	os.WriteFile(p, b, 0o644)
	r.violations = append(r.violations, p)
	outf("VIOLATION property=%s replay=%s\n", r.ID, p)
	outf("  key: %s\n", key)
	if pr, ok := replay["prescribed"]; ok {
		outf("  prescribed: %v\n  obtained:   %v\n", jsonStr(pr), jsonStr(replay["obtained"]))
	}
}

// guard runs f; a panic raised by the code under test (anything that is not a harness toolFailure) is a
// violation: no property allows fox to panic on the inputs the replays use.
func (r *Run) guard(what string, detail func() map[string]any, f func()) {
	defer func() {
		if p := recover(); p != nil {
			if _, ok := p.(toolFailure); ok {
				panic(p)
			}
			buf := make([]byte, 4096)
			buf = buf[:runtime.Stack(buf, false)]
			d := map[string]any{}
			if detail != nil {
				d = detail()
			}
			d["prescribed"] = "no panic"
			d["obtained"] = fmt.Sprint(p)
			d["stack"] = string(buf)
			r.violation("panic during "+what+": "+fmt.Sprint(p), d)
		}
	}()
	f()
}

// tooManyViolations lets long replays stop early once the verdict is settled.
func (r *Run) tooManyViolations() bool {
	r.mu.Lock()
	defer r.mu.Unlock()
	return len(r.violations) >= 20
}

func jsonStr(v any) string {
	b, _ := json.Marshal(v)
	if len(b) > 600 {
		return string(b[:600]) + "..."
	}
	return string(b)
}

func foxCommit() string {
	out, err := exec.Command("git", "-C", "/repo", "rev-parse", "--short", "HEAD").Output()
	if err != nil {
		return "unknown"
	}
	s := strings.TrimSpace(string(out))
	if st, _ := exec.Command("git", "-C", "/repo", "status", "--porcelain", "--untracked-files=no").Output(); len(strings.TrimSpace(string(st))) > 0 {
		s += "+dirty"
	}
	return s
}

// finish writes the evidence file and returns the exit code.
func (r *Run) finish() int {
	r.mu.Lock()
	defer r.mu.Unlock()
	keys := make([]string, 0, len(r.known))
	for k := range r.known {
		keys = append(keys, k)
	}
	sort.Strings(keys)
	for _, k := range keys {
		outf("KNOWN-FINDING: property=%s %s (%s; seen %d times)\n", r.ID, r.knownSeen[k], k, r.known[k])
	}
	cov := map[string]any{}
	for k, v := range r.cov {
		cov[k] = v
	}
	if len(r.samples) == 0 {
		r.samples = append(r.samples, "no sample recorded")
	}
	cov["samples"] = r.samples
	ev := map[string]any{
		"property_id": r.ID,
		"tier":        pick(r, "quick", "thorough"),
		"seed":        r.Seed,
		"level":       r.level,
		"coverage":    cov,
		"assumptions": r.assume,
		"wall_s":      time.Since(r.Start).Seconds(),
		"violations":  len(r.violations),
		"fox_commit":  foxCommit(),
	}
	b, _ := json.MarshalIndent(ev, "", " ")
	os.MkdirAll(filepath.Join(verifDir, "evidence"), 0o755)
	if os.Getenv("FOXCHECK_NO_EVIDENCE") != "" {
		// bin/mutrun: a run against a deliberately changed tree must not replace the evidence of the unchanged one
	} else if os.Getenv("FOXCHECK_ONLY") != "" {
		// development aid: a partial run of one family never replaces the evidence of a full run
		delete(cov, "samples")
		cb, _ := json.Marshal(cov)
		outf("partial run (%s), no evidence written: %s\n", os.Getenv("FOXCHECK_ONLY"), cb)
	} else if err := os.WriteFile(filepath.Join(verifDir, "evidence", r.ID+".json"), b, 0o644); err != nil {
		outln("cannot write evidence:", err)
		return exitTool
	}
	if len(r.violations) > 0 {
		return exitViolation
	}
	outf("OK property=%s tier=%s seed=%d wall=%.1fs %s\n", r.ID, r.Tier, r.Seed, time.Since(r.Start).Seconds(), covSummary(cov))
	return exitOK
}

func covSummary(cov map[string]any) string {
	var parts []string
	for _, k := range []string{"states", "transitions", "traces_validated_against_impl", "evaluations", "distinct_nontrivial"} {
		if v, ok := cov[k]; ok {
			parts = append(parts, fmt.Sprintf("%s=%v", k, v))
		}
	}
	return strings.Join(parts, " ")
}

// ---- TLC runner ----------------------------------------------------------------------------

type tlcOpts struct {
	Module   string            // module name, e.g. "MC_Match"
	Cfg      string            // cfg file name in spec/ (default Module+".cfg")
	Gen      map[string]string // generated modules: file name -> content
	Files    map[string]string // extra data files copied into the working dir
	Workers  int
	Timeout  time.Duration
	Env      []string
	Args     []string // extra TLC args (e.g. -simulate ...)
	DFS      bool     // depth-first state queue (trace validation with silent steps)
	OnVec    func(payload []byte)
	Coverage bool
	Tag      string // sub-directory tag so several TLC runs of one check do not collide
	// AllowDeadlock etc. are in the cfg
}

type tlcResult struct {
	Generated int64
	Distinct  int64
	Depth     int64
	Output    string // non-VEC output (tail-limited)
	ExitCode  int
	Deadlock  bool
	InvViol   string // name of violated invariant / property, if any
	Error     bool   // TLC reported an error of any kind
	Cover     map[string]int64
	WallS     float64
}

var (
	reStates   = regexp.MustCompile(`(\d+) states generated, (\d+) distinct states found`)
	reDepth    = regexp.MustCompile(`depth of the complete state graph search is (\d+)`)
	reInv      = regexp.MustCompile(`Invariant (\S+) is violated`)
	reProp     = regexp.MustCompile(`(Action property|Temporal properties|property) (\S+)? ?(is|were) violated`)
	reCoverage = regexp.MustCompile(`^<(\w+) line \d+, col \d+ to line \d+, col \d+ of module (\w+)>: (\d+):(\d+)`)
)

// specDir is /verif/spec; FOXCHECK_SPEC_DIR (development aid) points the harness at a scratch copy of the specification.
func specDir() string {
	if d := os.Getenv("FOXCHECK_SPEC_DIR"); d != "" {
		return d
	}
	return filepath.Join(verifDir, "spec")
}

// runTLC copies the specification into a private working directory, adds generated modules, and runs TLC.
func (r *Run) runTLC(o tlcOpts) tlcResult {
	t0 := time.Now()
	wd := filepath.Join(r.Scratch, "tlc-"+o.Module+o.Tag)
	os.RemoveAll(wd)
	if err := os.MkdirAll(wd, 0o755); err != nil {
		failTool("mkdir: %v", err)
	}
	ents, err := os.ReadDir(specDir())
	if err != nil {
		failTool("spec dir: %v", err)
	}
	for _, e := range ents {
		if e.IsDir() {
			continue
		}
		n := e.Name()
		if strings.HasSuffix(n, ".tla") || strings.HasSuffix(n, ".cfg") {
			b, _ := os.ReadFile(filepath.Join(specDir(), n))
			os.WriteFile(filepath.Join(wd, n), b, 0o644)
		}
	}
	for n, c := range o.Gen {
		os.WriteFile(filepath.Join(wd, n), []byte(c), 0o644)
	}
	for n, c := range o.Files {
		os.WriteFile(filepath.Join(wd, n), []byte(c), 0o644)
	}
	cfg := o.Cfg
	if cfg == "" {
		cfg = o.Module + ".cfg"
	}
	workers := o.Workers
	if workers <= 0 {
		workers = runtime.NumCPU()
	}
	to := o.Timeout
	if to <= 0 {
		to = 10 * time.Minute
	}
	args := []string{"-workers", strconv.Itoa(workers), "-metadir", filepath.Join(wd, "md"), "-config", cfg}
	if o.Coverage {
		args = append(args, "-coverage", "1")
	}
	args = append(args, o.Args...)
	args = append(args, o.Module+".tla")
	ctx, cancel := context.WithTimeout(context.Background(), to)
	defer cancel()
	cmd := exec.CommandContext(ctx, "tlc", args...)
	cmd.Dir = wd
	cmd.Env = append(os.Environ(), o.Env...)
	jopts := "-Xss256m"
	if o.DFS {
		jopts += " -Dtlc2.tool.queue.IStateQueue=StateDeque"
	}
	cmd.Env = append(cmd.Env, "JAVA_TOOL_OPTIONS="+jopts)
	cmd.WaitDelay = 5 * time.Second
	stdout, err := cmd.StdoutPipe()
	if err != nil {
		failTool("pipe: %v", err)
	}
	cmd.Stderr = cmd.Stdout
	if err := cmd.Start(); err != nil {
		failTool("cannot start tlc: %v", err)
	}
	res := tlcResult{Cover: map[string]int64{}}
	var other strings.Builder
	rd := bufio.NewReaderSize(stdout, 1<<20)
	for {
		line, err := rd.ReadString('\n')
		if len(line) > 0 {
			line = strings.TrimRight(line, "\r\n")
			if strings.HasPrefix(line, "\"VEC") {
				if o.OnVec != nil {
					s, uerr := unquoteTLA(line)
					if uerr != nil {
						failTool("cannot unquote TLC output line: %v: %.200s", uerr, line)
					}
					o.OnVec([]byte(s[3:]))
				}
			} else {
				if other.Len() < 1<<20 {
					other.WriteString(line)
					other.WriteByte('\n')
				}
				if m := reStates.FindStringSubmatch(line); m != nil {
					res.Generated, _ = strconv.ParseInt(m[1], 10, 64)
					res.Distinct, _ = strconv.ParseInt(m[2], 10, 64)
				}
				if m := reDepth.FindStringSubmatch(line); m != nil {
					res.Depth, _ = strconv.ParseInt(m[1], 10, 64)
				}
				if m := reInv.FindStringSubmatch(line); m != nil {
					res.InvViol = m[1]
				}
				if strings.Contains(line, "is violated") || strings.Contains(line, "were violated") {
					if res.InvViol == "" {
						res.InvViol = line
					}
				}
				if strings.Contains(line, "Deadlock reached") {
					res.Deadlock = true
				}
				if strings.HasPrefix(line, "Error:") {
					res.Error = true
				}
				if m := reCoverage.FindStringSubmatch(line); m != nil {
					n, _ := strconv.ParseInt(m[4], 10, 64)
					res.Cover[m[1]] += n
				}
			}
		}
		if err != nil {
			if !errors.Is(err, io.EOF) {
				failTool("reading tlc output: %v", err)
			}
			break
		}
	}
	werr := cmd.Wait()
	if ctx.Err() != nil {
		failTool("tlc %s timed out after %v", o.Module, to)
	}
	if werr != nil {
		var ee *exec.ExitError
		if errors.As(werr, &ee) {
			res.ExitCode = ee.ExitCode()
		} else {
			failTool("tlc: %v", werr)
		}
	}
	res.Output = other.String()
	res.WallS = time.Since(t0).Seconds()
	return res
}

// mustClean fails the run (exit 2) unless TLC finished without any error: a model error is a bug of the
// specification, never a verdict about fox.
func (res tlcResult) mustClean(what string) {
	if res.ExitCode != 0 || res.Error || res.Deadlock || res.InvViol != "" {
		failTool("%s: TLC did not finish cleanly (exit %d, inv=%q, deadlock=%v):\n%s", what, res.ExitCode, res.InvViol, res.Deadlock, tail(res.Output, 60))
	}
}

func tail(s string, n int) string {
	lines := strings.Split(strings.TrimRight(s, "\n"), "\n")
	if len(lines) > n {
		lines = lines[len(lines)-n:]
	}
	return strings.Join(lines, "\n")
}

// unquoteTLA undoes TLC's string printing ("..." with \" and \\ escapes).
func unquoteTLA(s string) (string, error) {
	if len(s) < 2 || s[0] != '"' || s[len(s)-1] != '"' {
		return "", fmt.Errorf("not a quoted string")
	}
	s = s[1 : len(s)-1]
	if !strings.Contains(s, `\`) {
		return s, nil
	}
	var b strings.Builder
	b.Grow(len(s))
	for i := 0; i < len(s); i++ {
		if s[i] == '\\' && i+1 < len(s) {
			i++
			switch s[i] {
			case 'n':
				b.WriteByte('\n')
			case 't':
				b.WriteByte('\t')
			case 'r':
				b.WriteByte('\r')
			case 'f':
				b.WriteByte('\f')
			default:
				b.WriteByte(s[i])
			}
			continue
		}
		b.WriteByte(s[i])
	}
	return b.String(), nil
}

// ---- TLA+ value writers -------------------------------------------------------------------------

// tlaChars renders a Go string as a sequence of one-character strings (bytes >= 0x80 are written as
// their own one-"character" strings byte by byte using an escape-free placeholder alphabet is NOT done:
// callers keep generated text ASCII unless stated).
func tlaChars(s string) string {
	var b strings.Builder
	b.WriteString("<<")
	for i, c := range []byte(s) {
		if i > 0 {
			b.WriteByte(',')
		}
		b.WriteByte('"')
		if c == '"' || c == '\\' {
			b.WriteByte('\\')
		}
		b.WriteByte(c)
		b.WriteByte('"')
	}
	b.WriteString(">>")
	return b.String()
}

func tlaSeqOfChars(ss []string) string {
	parts := make([]string, len(ss))
	for i, s := range ss {
		parts[i] = tlaChars(s)
	}
	return "<<" + strings.Join(parts, ",\n  ") + ">>"
}

func tlaStr(s string) string {
	return "\"" + strings.ReplaceAll(strings.ReplaceAll(s, `\`, `\\`), `"`, `\"`) + "\""
}

func tlaSeqOfStr(ss []string) string {
	parts := make([]string, len(ss))
	for i, s := range ss {
		parts[i] = tlaStr(s)
	}
	return "<<" + strings.Join(parts, ", ") + ">>"
}

func tlaIntSet(xs []int) string {
	parts := make([]string, len(xs))
	for i, x := range xs {
		parts[i] = strconv.Itoa(x)
	}
	return "{" + strings.Join(parts, ",") + "}"
}

func tlaIntSeq(xs []int) string {
	parts := make([]string, len(xs))
	for i, x := range xs {
		parts[i] = strconv.Itoa(x)
	}
	return "<<" + strings.Join(parts, ",") + ">>"
}

func tlaBool(b bool) string {
	if b {
		return "TRUE"
	}
	return "FALSE"
}

// chars explodes a string into one-character strings for JSON traces read by TLC.
func chars(s string) []string {
	out := make([]string, len(s))
	for i := 0; i < len(s); i++ {
		out[i] = s[i : i+1]
	}
	return out
}

// parallel runs f(i) for i in [0,n) on all cores.
func parallel(n int, f func(i int)) {
	w := runtime.NumCPU()
	if w > n {
		w = n
	}
	if w < 1 {
		w = 1
	}
	var wg sync.WaitGroup
	ch := make(chan int, 4*w)
	for k := 0; k < w; k++ {
		wg.Add(1)
		go func() {
			defer wg.Done()
			for i := range ch {
				f(i)
			}
		}()
	}
	for i := 0; i < n; i++ {
		ch <- i
	}
	close(ch)
	wg.Wait()
}
