package main

import (
	"encoding/json"
	"fmt"
	"math/rand"
	"net/http"
	"net/url"
	"runtime/debug"
	"sort"
	"strings"
	"testing"
	"time"

	"github.com/tigerwill90/fox"
)

// C16 - routing a matching request allocates nothing.
//
// The specification cannot express allocation. It contributes the scenarios: MC_Match enumerates tables and
// requests and prescribes which requests are served by a route (directly, or through an ignored trailing
// slash), including deep backtracking, infix catch-alls and hostnames. The number of allocations is measured
// by the Go runtime (testing.AllocsPerRun) around ServeHTTP with an allocation-free handler and writer.

type nullWriter struct{ h http.Header }

func (w *nullWriter) Header() http.Header         { return w.h }
func (w *nullWriter) Write(b []byte) (int, error) { return len(b), nil }
func (w *nullWriter) WriteHeader(int)             {}

func checkC16(r *Run) {
	r.level = "exploration"
	rng := rand.New(rand.NewSource(r.Seed))
	g := newMatchGen(rng, pick(r, 14, 24), pick(r, 6, 10), 3, 4, pick(r, 60, 120), true)
	g.Hosts = append(g.Hosts[:min(len(g.Hosts), 12)], "a.b.")
	// deep patterns and many parameters as extra single-route and multi-route tables
	deep := [][]string{
		{"/a/{p1}/{p2}/{p3}/{p4}/{p5}/{p6}/{p7}/{p8}"},
		{"/a/{x}/b/{y}/c/*{w}", "/a/{x}/b/{y}/c/d", "/a/{x}/b/c", "/a/*{w}/z"},
		{"{h}.{g}.b/a/{x}/*{w}/end", "a.{g}.b/a/{x}/b", "/a/{x}/b"},
		{"/*{w}/a/{x}/*{y}/b", "/a/a/a/a/a/a", "/a/a/a/{x}"},
		// ladders: a static child next to a parameter and a catch-all on every level, so that the walk remembers two
		// alternatives per level (more than the recorded depth of the tree) before it reaches the end
		{"/a/b/c/d", "/a/b/c/{p}", "/a/b/c/*{w}", "/a/b/{p}", "/a/b/*{w}", "/a/{p}", "/a/*{w}", "/{p}", "/*{w}"},
		{"/a/b/c/d/e/f", "/a/b/c/d/e/{p}", "/a/b/c/d/{p}", "/a/b/c/d/*{w}", "/a/b/c/{p}", "/a/b/{p}", "/a/b/*{w}", "/a/{p}", "/{p}"},
		{"a.b.c/a/b", "a.b.{h}/a/b", "a.{g}.c/a/b", "{h}.b.c/a/b", "a.b.c/a/{p}", "a.b.c/{p}/b", "a.b.c/*{w}"},
	}
	seen := map[string]int{}
	for i, p := range g.Pool {
		seen[p] = i + 1
	}
	for _, t := range deep {
		var ids []int
		for _, p := range t {
			var id int
			g.Pool, id = uniqueAppend(g.Pool, seen, p)
			ids = append(ids, id)
		}
		sort.Ints(ids)
		g.Extra = append(g.Extra, ids)
	}
	g.Paths = append(g.Paths, "/a/1/2/3/4/5/6/7/8", "/a/x/b/y/c/d", "/a/x/b/y/c/d/e/f", "/a/q/r/s/z", "/a/a/a/a/a/a", "/a/a/a/b", "/q/a/x/r/s/b", "/a/x/b", "/a/x/r/s/end",
		"/a/b/c/d", "/a/b/c/x", "/a/b/c/x/y", "/a/b/x", "/a/b/x/y", "/a/x", "/a/x/y", "/x", "/x/y", "/a/b/c/d/e/f", "/a/b/c/d/e/x", "/a/b/c/d/x", "/a/b/c/d/x/y", "/a/b", "/a/x/b", "/x/b")
	g.Hosts = append(g.Hosts, "a.b.c", "a.b.x", "a.x.c", "x.b.c")
	var vecs []matchVec
	res := r.runTLC(tlcOpts{Module: "MC_Match", Gen: map[string]string{"Gen_Match.tla": g.tla(false)}, Timeout: pick(r, 5*time.Minute, 30*time.Minute),
		OnVec: func(b []byte) {
			var v matchVec
			if err := json.Unmarshal(b, &v); err != nil {
				failTool("bad vector: %v", err)
			}
			vecs = append(vecs, v)
		}})
	res.mustClean("MC_Match")
	r.addCov("states", res.Distinct)
	r.addCov("transitions", res.Generated)
	maxTables := pick(r, 700, 20000)
	if len(vecs) > maxTables {
		rng.Shuffle(len(vecs), func(i, j int) { vecs[i], vecs[j] = vecs[j], vecs[i] })
		vecs = vecs[:maxTables]
	}
	old := debug.SetGCPercent(-1) // a collection would drain the per-tree context pool mid-measurement
	defer debug.SetGCPercent(old)
	w := &nullWriter{h: http.Header{}}
	h := func(c fox.Context) {}
	var scenarios, tsrScen, hostScen, paramScen int64
	kinds := map[string]bool{}
	for ti, v := range vecs {
		pats := make([]string, len(v.T))
		for i, id := range v.T {
			pats[i] = g.Pool[id-1]
		}
		rt, err := fox.New(fox.WithIgnoreTrailingSlash(true))
		if err != nil {
			failTool("fox.New: %v", err)
		}
		ok := true
		for _, p := range pats {
			if _, err := rt.Handle("GET", p, h); err != nil {
				ok = false
			}
		}
		if !ok {
			continue
		}
		for _, pr := range v.Pr {
			hi, pi, presc := decodeProbe(pr, g)
			path := g.Paths[pi-1]
			if !presc.matched() || (presc.Tsr && path == "/") {
				continue
			}
			host := g.Hosts[hi-1]
			req, _ := newRequest("GET", host, path, "")
			for k := 0; k < 3; k++ { // warm-up: the context pool and its slices reach their steady size
				rt.ServeHTTP(w, req)
			}
			allocs := testing.AllocsPerRun(10, func() { rt.ServeHTTP(w, req) })
			scenarios++
			kind := fmt.Sprintf("tsr=%v host=%v params=%d catchall=%v routes=%d", presc.Tsr, strings.IndexByte(presc.Route, '/') > 0, len(presc.Params), strings.Contains(presc.Route, "*"), len(pats))
			kinds[kind] = true
			if presc.Tsr {
				tsrScen++
			}
			if strings.IndexByte(presc.Route, '/') > 0 {
				hostScen++
			}
			if len(presc.Params) > 0 {
				paramScen++
			}
			if allocs != 0 {
				sorted := append([]string(nil), pats...)
				sort.Strings(sorted)
				r.violation(fmt.Sprintf("alloc table=%s host=%q path=%q", strings.Join(sorted, " "), host, path), map[string]any{"kind": "vector", "table": pats, "host": host, "path": path,
					"served_by": presc, "prescribed": "0 allocations per request", "obtained": allocs})
			}
			if scenarios == 1000 {
				r.sample(map[string]any{"table": pats, "host": host, "path": path, "served_by": presc, "allocs_per_run": allocs})
			}
		}
		if ti%500 == 0 {
			debug.SetGCPercent(old)
			debug.SetGCPercent(-1)
		}
	}
	// scenarios the small alphabet of the model cannot spell: percent-encoded request paths (routed on the raw path) and
	// nodes with more children than any inline buffer (40 hostnames with distinct first characters next to a host-less
	// route; 40 static siblings next to a "/" leaf served through an ignored trailing slash)
	{
		rt, err := fox.New(fox.WithIgnoreTrailingSlash(true))
		if err != nil {
			failTool("fox.New: %v", err)
		}
		routes := []string{"/s/{x}/{y}", "/f/*{w}/end", "h.example/s/{x}", "/plain/route", "/wide/", "/tail/{x}/", "/f2/*{w}/rev/{id}/", "{n}.0.0.7/ip/{x}", "/dot/{x}/b/"}
		first := "abcdefghijklmnopqrstuvwxyz0123456789"
		for i := 0; i < len(first); i++ {
			routes = append(routes, fmt.Sprintf("%ctenant.example/t/{id}", first[i]), fmt.Sprintf("/wide/%c", first[i]), fmt.Sprintf("/wide%c", first[i]))
		}
		for _, p := range routes {
			if _, err := rt.Handle("GET", p, h); err != nil {
				failTool("extra scenario route %s: %v", p, err)
			}
		}
		type extra struct{ host, target string }
		for _, ex := range []extra{
			{"", "/s/a%2Fb/1"}, {"", "/s/x%20y/%C3%A9"}, {"", "/f/x%20y/z%2Fz/end"}, {"h.example", "/s/a%2Fb"}, {"", "/s/plain/1"},
			{"unknown.example", "/plain/route"}, {"", "/plain/route"}, {"qtenant.example", "/t/7"}, {"9tenant.example", "/t/7"}, {"zz.example", "/s/a/b"},
			{"", "/f2/a/b/rev/7"}, {"", "/f2/a/rev/7/"}, {"10.0.0.7", "/plain/route"}, {"web-0.cluster9", "/s/a/b"}, {"10.0.0.7", "/ip/1"}, {"[::1]", "/plain/route"},
			{"", "/wide"}, {"", "/wide/"}, {"", "/wide/q"}, {"", "/wideq"}, {"", "/tail/x"}, {"unknown.example", "/tail/x"},
			// dot segments captured by a wildcard, served through an ignored trailing slash (nothing is cleaned on that way)
			{"", "/dot/./b"}, {"", "/dot/../b"}, {"", "/f/x/./y/end/"}, {"", "/tail/.."}, {"", "/dot/x/b"},
		} {
			u, err := url.ParseRequestURI(ex.target)
			if err != nil {
				failTool("extra scenario %s: %v", ex.target, err)
			}
			req, cp := newRequest("GET", ex.host, u.Path, "")
			req.URL.RawPath = u.RawPath
			rt.ServeHTTP(w, req)
			_ = cp
			for k := 0; k < 3; k++ {
				rt.ServeHTTP(w, req)
			}
			allocs := testing.AllocsPerRun(10, func() { rt.ServeHTTP(w, req) })
			scenarios++
			kinds["extra: "+ex.host+" "+ex.target] = true
			if allocs != 0 {
				r.violation(fmt.Sprintf("alloc extra scenario host=%q target=%q", ex.host, ex.target), map[string]any{"kind": "vector", "routes": "parameters, infix catch-all, 36 hostnames, 36+36 static siblings", "host": ex.host, "target": ex.target,
					"prescribed": "0 allocations per request", "obtained": allocs})
			}
		}
	}
	// routing by hand (Lookup, then Close) on the current tree and on views of a tree that has been replaced since:
	// every view keeps recycling its contexts
	{
		rt, err := fox.New(fox.WithIgnoreTrailingSlash(true))
		if err != nil {
			failTool("fox.New: %v", err)
		}
		for _, p := range []string{"/s/{x}/{y}", "/f/*{w}/end", "/plain/route", "h.example/s/{x}"} {
			rt.MustHandle("GET", p, h)
		}
		old := rt.Txn(false)
		defer old.Abort()
		wtx := rt.Txn(true)
		wtx.Handle("GET", "/later/{z}", h)
		snap := wtx.Snapshot()
		wtx.Commit()
		rt.MustHandle("GET", "/later2", h)
		cur := rt.Txn(false)
		defer cur.Abort()
		type looker interface {
			Lookup(w fox.ResponseWriter, r *http.Request) (*fox.Route, fox.ContextCloser, bool)
		}
		views := []struct {
			name string
			v    looker
		}{{"Router", rt}, {"read-only transaction of the current tree", cur}, {"read-only transaction opened before two commits", old}, {"snapshot of a committed write transaction", snap}}
		for _, target := range [][2]string{{"", "/s/a/b"}, {"", "/plain/route"}, {"h.example", "/s/a"}, {"", "/f/a/b/end/"}} {
			inner, _ := newRequest("GET", target[0], target[1], "")
			for _, vw := range views {
				allocs := -1.0
				rt.MustHandle("GET", "/measure", func(c fox.Context) {
					run := func() {
						if rte, cc, _ := vw.v.Lookup(c.Writer(), inner); rte != nil {
							cc.Close()
						}
					}
					for k := 0; k < 4; k++ {
						run()
					}
					allocs = testing.AllocsPerRun(10, run)
				})
				mreq, _ := newRequest("GET", "", "/measure", "")
				rt.ServeHTTP(w, mreq)
				rt.Delete("GET", "/measure")
				scenarios++
				kinds["lookup-close: "+vw.name] = true
				if allocs != 0 {
					r.violation(fmt.Sprintf("alloc Lookup+Close view=%q host=%q target=%q", vw.name, target[0], target[1]), map[string]any{"kind": "vector", "view": vw.name, "host": target[0], "target": target[1],
						"prescribed": "0 allocations per Lookup and Close", "obtained": allocs})
				}
			}
		}
	}
	if scenarios == 0 {
		failTool("no scenario measured")
	}
	r.setCov("evaluations", scenarios)
	r.setCov("distinct_nontrivial", int64(len(kinds)))
	r.setCov("rule", "scenario = (table, host, path) from MC_Match whose prescribed reply is served by a route; distinct_nontrivial counts distinct scenario kinds (trailing-slash or not, hostname or not, number of parameters, catch-all or not, table size), each measured by testing.AllocsPerRun after warm-up")
	r.setCov("scenarios_through_ignored_trailing_slash", tsrScen)
	r.setCov("scenarios_with_hostname_route", hostScen)
	r.setCov("scenarios_with_parameters", paramScen)
	r.setCov("traces_validated_against_impl", scenarios)
	r.assumption("allocation counts are measured by the Go runtime, not decided by the model; GC is paused during measurement so the per-tree sync.Pool is not drained")
}

func init() { register("C16", checkC16) }
