package main



func selftest(seed int64) int {
	outln("selftest: not built yet")
	return exitOK
}

// setupGenStubs returns minimal generated modules so that SANY can parse every MC_/Trace_ module at setup.
func setupGenStubs() map[string]string {
	g := &matchGen{Pool: []string{"/a"}, Paths: []string{"/a"}, Hosts: []string{"a.b"}, MaxTab: 1}
	sg := &serveGen{Pool: []string{"/a"}, EnumN: 1, EntryMethods: []string{"GET"}, ReqMethods: []string{"GET"}, Paths: []string{"/a"}, Host: "a.b", MaxTab: 1}
	rg := &routerGen{Pool: []string{"/a"}, Methods: []string{"GET"}, MaxOps: 1, MaxParams: 65535, MaxKey: 65535, Trunc: [][]int{{}}, Kinds: []string{"Handle"}, Settled: []string{"Handle"},
		Probes: []probeReq{{1, "", "/a"}}, Prefixes: []prefixReq{{[]int{1}, "/"}}}
	return map[string]string{"Gen_Match.tla": g.tla(false), "Gen_Serve.tla": sg.tla(), "Gen_Router.tla": rg.tla(), "Gen_Probe.tla": rg.probeTLA([][][2]int{{{1, 1}}})}
}
