package main



func selftest(seed int64) int {
	outln("selftest: not built yet")
	return exitOK
}

// setupGenStubs returns minimal generated modules so that SANY can parse every MC_/Trace_ module at setup.
func setupGenStubs() map[string]string {
	g := &matchGen{Pool: []string{"/a"}, Paths: []string{"/a"}, Hosts: []string{"a.b"}, MaxTab: 1}
	sg := &serveGen{Pool: []string{"/a"}, EnumN: 1, EntryMethods: []string{"GET"}, ReqMethods: []string{"GET"}, Paths: []string{"/a"}, Host: "a.b", MaxTab: 1}
	rg := &routerGen{Pool: []string{"/a"}, Methods: []string{"GET"}, MaxOps: 1, MaxParams: 65535, MaxKey: 65535, Trunc: [][]int{{}}, Kinds: []string{"Handle"}, Settled: []string{"Handle"},
		Probes: []probeReq{{1, "", "/a"}}, Prefixes: []prefixReq{{[]int{1}, "/"}}}
	extra := map[string]string{
		"Gen_Clean.tla":      "---- MODULE Gen_Clean ----\nGenAlphabet == {\"/\"}\nGenPrefixLen == 1\nGenSuffixLen == 1\n====\n",
		"Gen_Pattern.tla":    "---- MODULE Gen_Pattern ----\nGenAlphabet == {\"/\"}\nGenPrefixLen == 1\nGenSuffixLen == 1\nGenLimits == << <<1, 1>> >>\nGenParamValues == { <<\"a\">> }\nGenCatchValues == { <<\"a\">> }\n====\n",
		"Gen_Writer.tla":     "---- MODULE Gen_Writer ----\nGenCaps == {}\nGenCodes == {200}\nGenWriteSizes == { <<1,1>> }\nGenReadFroms == { <<1,1,1>> }\nGenMaxCalls == 1\nGenHelperCodes == {}\n====\n",
		"Gen_Middleware.tla": "---- MODULE Gen_Middleware ----\nGenScopes == << {\"route\"} >>\nGenMaxGlobal == 1\n====\n",
		"Gen_Options.tla":    "---- MODULE Gen_Options ----\nGenGlobalOpts == { <<\"ign\", TRUE>> }\nGenRouteOpts == { <<\"ign\", TRUE>> }\nGenMaxGlobal == 1\nGenMaxRoute == 1\nGenAnnKeys == {\"k1\"}\nGenAnnKeySeq == <<\"k1\">>\nGenBadKeys == {}\nGenPatterns == << <<\"/\">> >>\n====\n",
		"Gen_Logger.tla":     "---- MODULE Gen_Logger ----\nGenDid == { <<\"nothing\">> }\n====\n",
		"Gen_Recovery.tla":   "---- MODULE Gen_Recovery ----\nGenHeaderNames == << <<\"A\">> >>\nGenSensitive == { <<\"A\">> }\n====\n",
		"Gen_Conc.tla":       "---- MODULE Gen_Conc ----\nGenKeys == {1}\nGenWriters == {1}\nGenReaders == {1}\nGenProg == << [single |-> TRUE, ops |-> << <<\"Handle\", 1>> >>, end |-> \"commit\"] >>\nGenReadCalls == { <<\"len\">> }\nGenMaxReads == 1\nGenBroken == \"none\"\n====\n",
		"Gen_Context.tla":    "---- MODULE Gen_Context ----\nGenMaxLen == 1\n====\n",
		"Gen_ClientIP.tla":   "---- MODULE Gen_ClientIP ----\nGenMaxLines == 1\nGenMaxEntries == 1\nGenMaxPrefix == 1\nGenWithEmpty == TRUE\n====\n",
		"Gen_ObsServe.tla":   "---- MODULE Gen_ObsServe ----\nGenTable == << [m |-> \"GET\", pat |-> <<\"/\">>, opt |-> \"none\"] >>\nGenCfg == [noMethod |-> FALSE, autoOptions |-> FALSE]\nGenHost == <<\"a\">>\n====\n",
		"Gen_ObsMatch.tla":   "---- MODULE Gen_ObsMatch ----\nGenPool == << <<\"/\">> >>\nGenTables == << {1} >>\n====\n",
		"trace.ndjson":       "",
		"obs.ndjson":         "",
	}
	m := map[string]string{"Gen_Match.tla": g.tla(false), "Gen_Serve.tla": sg.tla(), "Gen_Router.tla": rg.tla(), "Gen_Probe.tla": rg.probeTLA([][][2]int{{{1, 1}}})}
	for k, v := range extra {
		m[k] = v
	}
	return m
}
