package main

import (
	"fmt"
	"math/rand"
	"os"
	"os/exec"
	"time"

	"github.com/tigerwill90/fox"
)

// selftest demonstrates that the machinery is bound to the code and that the model's properties can fail:
//   - a TLC vector replayed against a deliberately falsified prescription is reported;
//   - observations recorded from the real code are accepted, the same observations with one field altered are
//     rejected, for the function-like trace specifications and for the recorded router history;
//   - (hook build) the wrong protocol variants are refuted, and stress traces are bound to their hook events.
func selftest(seed int64) int {
	if !hooksCompiled {
		if bin := os.Getenv("FOXCHECK_VERIF_BIN"); bin != "" {
			cmd := exec.Command(bin, "--selftest")
			cmd.Stdout, cmd.Stderr = out, out
			if err := cmd.Run(); err != nil {
				return exitTool
			}
			return exitOK
		}
	}
	r := newRun("selftest", "quick", seed)
	defer r.cleanup()
	r.capture = true
	failed := 0
	report := func(name string, ok bool, detail string) {
		mark := "ok  "
		if !ok {
			mark = "FAIL"
			failed++
		}
		outf("%s %s %s\n", mark, name, detail)
	}
	func() {
		defer func() {
			if p := recover(); p != nil {
				report("self-test aborted", false, fmt.Sprint(p))
			}
		}()
		// D1: a falsified prescription must be reported by the matcher replay
		g := &matchGen{Pool: []string{"/a/{x}", "/a/b/"}, Paths: []string{"/a/b", "/a/c"}, Hosts: []string{"a.b"}, MaxTab: 2}
		m := &matchReplayer{r: r, g: g, aspect: "all", method: "GET"}
		good := matchVec{T: []int{1, 2}, Pr: [][]any{{1.0, 1.0, 1.0, 0.0, []any{[]any{"x", "b"}}}, {1.0, 2.0, 1.0, 0.0, []any{[]any{"x", "c"}}}}}
		before := len(r.captured)
		m.replay(good, rand.New(rand.NewSource(1)))
		report("a correct matcher vector replays without disagreement", len(r.captured) == before, "")
		bad := matchVec{T: []int{1, 2}, Pr: [][]any{{1.0, 1.0, 2.0, 1.0, []any{}}}}
		m.replay(bad, rand.New(rand.NewSource(1)))
		report("a falsified prescription is reported by the replay", len(r.captured) > before, "")
		// D2: Obs_Clean accepts real observations and rejects an altered one
		obs := []map[string]any{}
		for _, in := range []string{"/a/../b/", "a//b/.", "/x/./y"} {
			obs = append(obs, map[string]any{"in": chars(in), "out": chars(fox.CleanPath(in))})
		}
		rej := r.runObs("Obs_Clean", obs, 2*time.Minute)
		report("Obs_Clean accepts what the real CleanPath returned", len(rej) == 0, "")
		obs[1]["out"] = chars("/a/b/x")
		rej = r.runObs("Obs_Clean", obs, 2*time.Minute)
		report("Obs_Clean rejects an altered observation", len(rej) == 1, fmt.Sprint(rej))
		// the node-level walk of FoxLookup agrees with FoxMatch; with any one repair switched off TLC finds the defect
		lg := newLookupGen(r, rand.New(rand.NewSource(1)), 0, 3, 4)
		res := r.runTLC(tlcOpts{Module: "MC_Lookup", Gen: map[string]string{"Gen_Lookup.tla": lg.tla()}, Timeout: 10 * time.Minute})
		report("MC_Lookup: the modelled walk agrees with the reference matcher", res.ExitCode == 0 && !res.Error, fmt.Sprintf("%d tables", res.Distinct/2))
		func() {
			defer func() {
				if p := recover(); p != nil {
					report("MC_Lookup: every repair is necessary in the model", false, fmt.Sprint(p))
				}
			}()
			lgh := newLookupHostGen(r, rand.New(rand.NewSource(1)), 0, 3, 3)
			lookupNegativeRuns(r, lg, lgh)
			report("MC_Lookup: every repair is necessary in the model", r.getCov("lookup_model_defects_reproduced") == int64(len(lookupFixes))+1 /* F1 is reproduced in both modes */, "")
		}()
		selftestHooks(r, report)
	}()
	if failed > 0 {
		outf("selftest: %d failures\n", failed)
		return exitTool
	}
	outln("selftest ok")
	return exitOK
}

// setupGenStubs returns minimal generated modules so that SANY can parse every MC_/Trace_ module at setup.
func setupGenStubs() map[string]string {
	g := &matchGen{Pool: []string{"/a"}, Paths: []string{"/a"}, Hosts: []string{"a.b"}, MaxTab: 1}
	sg := &serveGen{Pool: []string{"/a"}, EnumN: 1, EntryMethods: []string{"GET"}, ReqMethods: []string{"GET"}, Paths: []string{"/a"}, Host: "a.b", MaxTab: 1}
	rg := &routerGen{Pool: []string{"/a"}, Methods: []string{"GET"}, MaxOps: 1, MaxParams: 65535, MaxKey: 65535, Trunc: [][]int{{}}, Kinds: []string{"Handle"}, Settled: []string{"Handle"},
		Probes: []probeReq{{1, "", "/a"}}, Prefixes: []prefixReq{{[]int{1}, "/"}}}
	extra := map[string]string{
		"Gen_Clean.tla":      "---- MODULE Gen_Clean ----\nGenAlphabet == {\"/\"}\nGenPrefixLen == 1\nGenSuffixLen == 1\n====\n",
		"Gen_Pattern.tla":    "---- MODULE Gen_Pattern ----\nGenAlphabet == {\"/\"}\nGenPrefixLen == 1\nGenSuffixLen == 1\nGenLimits == << <<1, 1>> >>\nGenParamValues == { <<\"a\">> }\nGenCatchValues == { <<\"a\">> }\n====\n",
		"Gen_Writer.tla":     "---- MODULE Gen_Writer ----\nGenCaps == {}\nGenCodes == {200}\nGenWriteSizes == { <<1,1>> }\nGenReadFroms == { <<1,1,1>> }\nGenMaxCalls == 1\nGenHelperCodes == {}\nGenRedirectCodes == {}\n====\n",
		"Gen_Middleware.tla": "---- MODULE Gen_Middleware ----\nGenScopes == << {\"route\"} >>\nGenMaxGlobal == 1\n====\n",
		"Gen_Options.tla":    "---- MODULE Gen_Options ----\nGenGlobalOpts == { <<\"ign\", TRUE>> }\nGenRouteOpts == { <<\"ign\", TRUE>> }\nGenMaxGlobal == 1\nGenMaxRoute == 1\nGenAnnKeys == {\"k1\"}\nGenAnnKeySeq == <<\"k1\">>\nGenBadKeys == {}\nGenPatterns == << <<\"/\">> >>\n====\n",
		"Gen_Logger.tla":     "---- MODULE Gen_Logger ----\nGenDid == { <<\"nothing\">> }\n====\n",
		"Gen_Recovery.tla":   "---- MODULE Gen_Recovery ----\nGenHeaderNames == << <<\"A\">> >>\nGenSensitive == { <<\"A\">> }\n====\n",
		"Gen_Conc.tla":       "---- MODULE Gen_Conc ----\nGenKeys == {1}\nGenWriters == {1}\nGenReaders == {1}\nGenProg == << [single |-> TRUE, ops |-> << <<\"Handle\", 1>> >>, end |-> \"commit\"] >>\nGenReadCalls == { <<\"len\">> }\nGenMaxReads == 1\nGenBroken == \"none\"\n====\n",
		"Gen_Context.tla":    "---- MODULE Gen_Context ----\nGenMaxLen == 1\n====\n",
		"Gen_ClientIP.tla":   "---- MODULE Gen_ClientIP ----\nGenMaxLines == 1\nGenMaxEntries == 1\nGenMaxPrefix == 1\nGenWithEmpty == TRUE\n====\n",
		"Gen_ObsServe.tla":   "---- MODULE Gen_ObsServe ----\nGenTable == << [m |-> \"GET\", pat |-> <<\"/\">>, opt |-> \"none\"] >>\nGenCfg == [noMethod |-> FALSE, autoOptions |-> FALSE]\nGenHost == <<\"a\">>\n====\n",
		"Gen_ObsMatch.tla":   "---- MODULE Gen_ObsMatch ----\nGenPool == << <<\"/\">> >>\nGenTables == << {1} >>\n====\n",
		"Gen_Radix.tla":      "---- MODULE Gen_Radix ----\nGenPool == << <<\"/\">> >>\nGenMaxRoutes == 1\n====\n",
		"Gen_Lookup.tla":     "---- MODULE Gen_Lookup ----\nGenPool == << <<\"/\">> >>\nGenPaths == << <<\"/\">> >>\nGenHosts == << <<\"a\">> >>\nGenMaxTab == 1\nGenEnumN == 1\nGenExtraTables == {}\nGenFixes == {}\nGenCollect == FALSE\n====\n",
		"Gen_Cow.tla":        "---- MODULE Gen_Cow ----\nGenPool == << <<\"/\">> >>\nGenMaxRoutes == 1\nGenMaxSnaps == 1\nGenMaxHist == 1\nGenVariant == \"none\"\nGenKinds == {\"Insert\"}\n====\n",
		"Gen_Roots.tla":      "---- MODULE Gen_Roots ----\nGenCommon == <<\"GET\">>\nGenCustom == {\"FOO\"}\nGenMaxCnt == 1\nGenVariant == \"none\"\n====\n",
		"trace.ndjson":       "",
		"obs.ndjson":         "",
	}
	m := map[string]string{"Gen_Match.tla": g.tla(false), "Gen_Serve.tla": sg.tla(), "Gen_Router.tla": rg.tla(), "Gen_Probe.tla": rg.probeTLA([][][2]int{{{1, 1}}})}
	for k, v := range extra {
		m[k] = v
	}
	return m
}
