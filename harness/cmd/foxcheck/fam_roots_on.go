//go:build verif

package main

import (
	"encoding/json"
	"fmt"
	"maps"
	"math/rand"
	"slices"
	"strings"
	"time"

	"github.com/tigerwill90/fox"
)

// Conformance of the roots-slice model (FoxRoots / MC_Roots), as for FoxCow: TLC explores the whole state space of
// the roots slice under inserts, deletes and Truncate over a standard and two custom methods with one snapshot, and
// emits every transition with the history into its source state. Each history is replayed on a real router; after
// the last call every snapshot handle is read back through the public API (methods in order and their route counts
// must be the model's: a verdict for C03; a panic while reading is a violation too), and the roots slices copied out
// through fox.VerifRootsOf* are compared with the model's in content and in sharing (notes).

type rootsGen struct {
	Common  []string
	Custom  []string
	MaxCnt  int
	Variant string
}

func (g *rootsGen) tla() string {
	var cs []string
	for _, c := range g.Custom {
		cs = append(cs, tlaStr(c))
	}
	return fmt.Sprintf("---- MODULE Gen_Roots ----\nGenCommon == %s\nGenCustom == {%s}\nGenMaxCnt == %d\nGenVariant == %s\n====\n",
		tlaSeqOfStr(g.Common), strings.Join(cs, ", "), g.MaxCnt, tlaStr(g.Variant))
}

type rootsOp struct {
	Name string   `json:"name"`
	M    string   `json:"m"`
	Ms   []string `json:"ms"`
}

type rootsEdge struct {
	Hist []rootsOp `json:"hist"`
	Rs   [][]struct {
		M string `json:"m"`
		T int    `json:"t"`
	} `json:"rs"`
	Cnt    []int `json:"cnt"`
	Pub    int   `json:"pub"`
	Snaps  []int `json:"snaps"`
	TxRoot int   `json:"txroot"`
}

// listing: the methods that have routes, in slice order, with their route counts, as "GET=1 FOO=1"
func (e *rootsEdge) listing(s int) string {
	var out []string
	for _, en := range e.Rs[s-1] {
		if en.T != 0 && e.Cnt[en.T-1] > 0 {
			out = append(out, fmt.Sprintf("%s=%d", en.M, e.Cnt[en.T-1]))
		}
	}
	return strings.Join(out, " ")
}

func iterListing(it fox.Iter) string {
	var out []string
	for m := range it.Methods() {
		n := 0
		for _, p := range rootsRoutes {
			for range it.Routes(slices.Values([]string{m}), p) {
				n++
			}
		}
		out = append(out, fmt.Sprintf("%s=%d", m, n))
	}
	return strings.Join(out, " ")
}

var rootsRoutes = []string{"/a", "/b", "/c"}

func runRootsModel(r *Run, g *rootsGen) {
	var edges []rootsEdge
	res := r.runTLC(tlcOpts{Module: "MC_Roots", Cfg: "MC_RootsEmit.cfg", Gen: map[string]string{"Gen_Roots.tla": g.tla()}, Timeout: pick(r, 10*time.Minute, 60*time.Minute),
		OnVec: func(b []byte) {
			var e rootsEdge
			if err := json.Unmarshal(b, &e); err != nil {
				failTool("bad roots edge: %v: %.200s", err, b)
			}
			edges = append(edges, e)
		}})
	res.mustClean("MC_Roots")
	r.addCov("roots_model_states", res.Distinct)
	r.addCov("roots_model_edges", int64(len(edges)))
	if len(edges) == 0 {
		failTool("MC_Roots emitted no transition")
	}
	parallel(len(edges), func(i int) {
		if r.tooManyViolations() {
			return
		}
		e := &edges[i]
		erng := rand.New(rand.NewSource(r.Seed*7919 + int64(i)))
		detail := func() map[string]any {
			var hs []string
			for _, o := range e.Hist {
				s := o.Name
				if o.M != "" {
					s += " " + o.M
				}
				if o.Name == "TxTruncate" {
					s += fmt.Sprintf(" %v", o.Ms)
				}
				hs = append(hs, s)
			}
			return map[string]any{"family": "roots", "history": hs}
		}
		r.guard("roots replay", detail, func() {
			rt, err := fox.New()
			if err != nil {
				failTool("fox.New: %v", err)
			}
			c := &cowReal{rt: rt}
			defer c.close()
			have, pubHave := map[string]int{}, map[string]int{} // routes per method in the transaction / published
			for k, o := range e.Hist {
				var err error
				switch o.Name {
				case "TxInsert": // the k-th route of a method is rootsRoutes[k-1]
					_, err = c.txn.Handle(o.M, rootsRoutes[have[o.M]], routeHandler(o.M))
					have[o.M]++
				case "TxDelete":
					have[o.M]--
					_, err = c.txn.Delete(o.M, rootsRoutes[have[o.M]])
				case "TxTruncate":
					if len(o.Ms) == 0 {
						clear(have)
					}
					for _, m := range o.Ms {
						delete(have, m)
					}
					err = c.txn.Truncate(o.Ms...)
				case "Begin":
					have = maps.Clone(pubHave)
					c.apply(cowOp{Name: o.Name, P: 1}, nil, erng)
				case "Commit":
					pubHave = maps.Clone(have)
					c.apply(cowOp{Name: o.Name, P: 1}, nil, erng)
				default:
					c.apply(cowOp{Name: o.Name, P: 1}, nil, erng) // Begin, TxSnapshot, ReaderHold, Forget, Commit, Abort
				}
				if err != nil {
					d := detail()
					d["prescribed"] = "the call succeeds"
					d["obtained"] = err.Error()
					r.violation(fmt.Sprintf("roots: %s %s %v fails after %d calls: %v", o.Name, o.M, o.Ms, k, err), d)
					return
				}
			}
			r.addCov("roots_edges_replayed", 1)
			for i, hd := range c.handles {
				it := hd.it
				if hd.kind != "iter" {
					it = hd.txn.Iter()
				}
				want, got := e.listing(e.Snaps[i]), iterListing(it)
				if want != got {
					d := detail()
					d["prescribed"] = want
					d["obtained"] = got
					r.violation(fmt.Sprintf("roots: snapshot %d (%s) no longer lists the methods and routes it was taken with", i+1, hd.kind), d)
					return
				}
				r.addCov("roots_snapshots_reread", 1)
			}
			// content and sharing of the roots slices
			roots := []int{e.Pub}
			reals := []fox.VerifRoots{fox.VerifRootsOf(rt)}
			for i, hd := range c.handles {
				roots = append(roots, e.Snaps[i])
				if hd.kind == "iter" {
					reals = append(reals, fox.VerifRootsOfIter(hd.it))
				} else {
					reals = append(reals, fox.VerifRootsOfTxn(hd.txn))
				}
			}
			if c.txn != nil {
				roots = append(roots, e.TxRoot)
				reals = append(reals, fox.VerifRootsOfTxn(c.txn))
			}
			s2a, a2s := map[int]uintptr{}, map[uintptr]int{}
			t2a, a2t := map[int]uintptr{}, map[uintptr]int{}
			diff := ""
			for k, s := range roots {
				ms := e.Rs[s-1]
				rv := reals[k]
				if len(ms) != len(rv.Methods) {
					diff = fmt.Sprintf("root %d: %d entries in the model, %d in the router (%v)", k, len(ms), len(rv.Methods), rv.Methods)
					break
				}
				if a, ok := s2a[s]; ok && a != rv.Addr {
					diff = fmt.Sprintf("root %d: one model slice, two real slices", k)
				} else if m, ok := a2s[rv.Addr]; ok && m != s {
					diff = fmt.Sprintf("root %d: one real slice, two model slices", k)
				}
				s2a[s], a2s[rv.Addr] = rv.Addr, s
				for j, en := range ms {
					if en.M != rv.Methods[j] || (en.T == 0) != (rv.Trees[j] == 0) {
						diff = fmt.Sprintf("root %d entry %d: model %s (tree %d), router %q (tree %#x)", k, j, en.M, en.T, rv.Methods[j], rv.Trees[j])
						break
					}
					if en.T == 0 {
						continue
					}
					if a, ok := t2a[en.T]; ok && a != rv.Trees[j] {
						diff = fmt.Sprintf("root %d method %s: one model tree, two real root nodes", k, en.M)
					} else if m, ok := a2t[rv.Trees[j]]; ok && m != en.T {
						diff = fmt.Sprintf("root %d method %s: one real root node, two model trees", k, en.M)
					}
					t2a[en.T], a2t[rv.Trees[j]] = rv.Trees[j], en.T
				}
				if diff != "" {
					break
				}
			}
			if diff != "" {
				r.addCov("roots_differences", 1)
				if r.getCov("roots_differences") <= 3 {
					outf("NOTE roots: the roots slices differ from the model's after %v: %s\n", detail()["history"], diff)
				}
			}
		})
	})
}

func runRoots(r *Run) {
	g := &rootsGen{Common: []string{"GET", "POST", "PUT", "DELETE"}, Custom: []string{"FOO", "BAR"}, MaxCnt: 1, Variant: "none"}
	if r.quick() {
		// one custom method and up to two routes per method; which custom method alternates with the seed
		g.Custom, g.MaxCnt = []string{[]string{"FOO", "BAR"}[int(r.Seed)%2]}, 2
	}
	runRootsModel(r, g)
}

var rootsVariants = []string{"truncateInPlace", "copyOnlyIfCustom", "clearOldTail"}

func rootsNegativeRuns(r *Run) {
	var missed []string
	for _, v := range rootsVariants {
		g := &rootsGen{Common: []string{"GET", "POST", "PUT", "DELETE"}, Custom: []string{"FOO", "BAR"}, MaxCnt: 1, Variant: v}
		res := r.runTLC(tlcOpts{Module: "MC_Roots", Tag: "-variant-" + v, Gen: map[string]string{"Gen_Roots.tla": g.tla()}, Timeout: 20 * time.Minute})
		if res.InvViol != "" {
			r.addCov("roots_wrong_variants_refuted", 1)
		} else {
			missed = append(missed, v)
		}
	}
	if len(missed) > 0 {
		failTool("MC_Roots: the wrong variant(s) %v are not refuted", missed)
	}
}
