package main

import (
	"errors"
	"fmt"
	"math/rand"
	"os"
	"path/filepath"
	"sort"
	"strings"
	"time"

	"encoding/json"

	"github.com/tigerwill90/fox"
)

// D2 for the router family: long random histories recorded from the real router and validated by
// Trace_Router (which replays them against FoxRouter's own actions).

type histEvent map[string]any

type histView interface {
	Route(method, pattern string) *fox.Route
	Len() int
	Iter() fox.Iter
}

type histDriver struct {
	g      *routerGen
	rt     *fox.Router
	rng    *rand.Rand
	events []histEvent
	pidx   map[string]int
	txn    *fox.Txn
	txnW   bool
	snaps  map[int]any // fox.Iter or *fox.Txn
}

func bigPool(rng *rand.Rand, n int) []string {
	seen := map[string]int{}
	var pool []string
	add := func(p string) { pool, _ = uniqueAppend(pool, seen, p) }
	// fan-out above the 50-child switch from linear to binary search
	for _, c := range "abcdefghijklmnopqrstuvwxyzABCDEFGHIJKLMNOPQRSTUVWXYZ0123456789" {
		add("/f/" + string(c))
		if rng.Intn(3) == 0 {
			add("/f/" + string(c) + "/{x}")
		}
	}
	add("/f/{x}")
	add("/f/*{w}")
	add("/f/{y}/z") // conflicts with /f/{x} while it is registered
	for _, p := range []string{"a.b/x", "{h}.b/x", "{g}.b/y", "{h}.b.c/x", "a.b/{x}/y", "ab.{h}/x/*{w}", "/p/{x}/q/{y}", "/p/{z}/r", "/p/a*{w}", "/p/a{x}", "/p/a*{w}/t"} {
		add(p)
	}
	for len(pool) < n {
		add(genPattern(rng, rng.Intn(5) == 0, 4))
	}
	add("/bad/{")
	add("nos")
	add("/bad/*x}")
	return pool
}

func (d *histDriver) log(e histEvent) { d.events = append(d.events, e) }

func (d *histDriver) observe(view string, t, s int, v interface {
	Len() int
	Iter() fox.Iter
}, it *fox.Iter) {
	var set [][3]int
	midx := map[string]int{}
	for i, m := range d.g.Methods {
		midx[m] = i + 1
	}
	iter := it
	n := -1
	if v != nil {
		x := v.Iter()
		iter = &x
		n = v.Len()
	}
	for m, rte := range iter.All() {
		g, _ := rte.Annotation(gTag{}).(int)
		set = append(set, [3]int{midx[m], d.pidx[rte.Pattern()], g})
	}
	if n < 0 {
		n = len(set) // a bare iterator has no Len(): the listing is all there is
	}
	if set == nil {
		set = [][3]int{}
	}
	d.log(histEvent{"name": "Observe", "view": view, "t": t, "s": s, "set": set, "len": n})
}

func (d *histDriver) write(w writer, cur histView, recv string, t int, kind string, m, p int) {
	method, pattern := d.g.Methods[m-1], d.g.Pool[p-1]
	g := 1
	if kind == "Update" || kind == "UpdateRoute" {
		if old := cur.Route(method, pattern); old != nil {
			if og, _ := old.Annotation(gTag{}).(int); og == 1 {
				g = 2
			}
		}
	}
	h := routeHandler(method + " " + pattern)
	opt := fox.WithAnnotation(gTag{}, g)
	var err error
	func() {
		defer func() {
			if x := recover(); x != nil {
				err = fmt.Errorf("panic: %v", x)
			}
		}()
		switch kind {
		case "Handle":
			_, err = w.Handle(method, pattern, h, opt)
		case "Update":
			_, err = w.Update(method, pattern, h, opt)
		case "HandleRoute", "UpdateRoute":
			var rte *fox.Route
			rte, err = d.rt.NewRoute(pattern, h, opt)
			if err == nil {
				if kind == "HandleRoute" {
					err = w.HandleRoute(method, rte)
				} else {
					err = w.UpdateRoute(method, rte)
				}
			}
		case "Delete":
			_, err = w.Delete(method, pattern)
		}
	}()
	ev := histEvent{"name": recv, "kind": kind, "t": t, "m": m, "p": p, "err": errClass(err), "matched": []int{}}
	var ce *fox.RouteConflictError
	if errors.As(err, &ce) {
		var ms []int
		for _, pat := range ce.Matched {
			ms = append(ms, d.pidx[pat])
		}
		sort.Ints(ms)
		ev["matched"] = ms
	}
	d.log(ev)
}

func (d *histDriver) randomKey() (int, int) {
	return 1 + d.rng.Intn(len(d.g.Methods)), 1 + d.rng.Intn(len(d.g.Pool))
}

func (d *histDriver) takeSnap() {
	for s := 1; s <= d.g.Snaps; s++ {
		if _, used := d.snaps[s]; used {
			continue
		}
		switch {
		case d.txn != nil && d.rng.Intn(2) == 0:
			d.snaps[s] = d.txn.Iter()
			d.log(histEvent{"name": "TxnIter", "t": 1, "s": s})
		case d.txn != nil:
			d.snaps[s] = d.txn.Snapshot()
			d.log(histEvent{"name": "TxnSnapshot", "t": 1, "s": s})
		default:
			d.snaps[s] = d.rt.Iter()
			d.log(histEvent{"name": "RouterIter", "s": s})
		}
		return
	}
}

func (d *histDriver) observeSnaps(drop bool) {
	for s, v := range d.snaps {
		switch x := v.(type) {
		case fox.Iter:
			d.observe("snap", 0, s, nil, &x)
		case *fox.Txn:
			d.observe("snap", 0, s, x, nil)
		}
		if drop && d.rng.Intn(2) == 0 {
			delete(d.snaps, s)
			d.log(histEvent{"name": "DropSnap", "s": s})
		}
	}
}

// run produces a history of about n operations; bigTxn makes one transaction of that many writes.
func (d *histDriver) run(n int, bigTxn bool) {
	kinds := []string{"Handle", "Handle", "Handle", "HandleRoute", "Update", "UpdateRoute", "Delete", "Delete"}
	if bigTxn {
		d.txn = d.rt.Txn(true)
		d.txnW = true
		d.log(histEvent{"name": "Begin", "t": 1, "write": true, "managed": false})
		for i := 0; i < n; i++ {
			m, p := d.randomKey()
			d.write(d.txn, d.txn, "TxnWrite", 1, kinds[d.rng.Intn(len(kinds))], m, p)
			if i%(n/6+1) == n/12 {
				d.takeSnap()
			}
			if i%(n/4+1) == n/8 {
				d.observeSnaps(false)
				d.observe("router", 0, 0, d.rt, nil) // still the state before the transaction
			}
		}
		d.observe("txn", 1, 0, d.txn, nil)
		d.observeSnaps(false)
		if d.rng.Intn(3) == 0 {
			d.txn.Abort()
			d.log(histEvent{"name": "Abort", "t": 1})
		} else {
			d.txn.Commit()
			d.log(histEvent{"name": "Commit", "t": 1})
		}
		d.log(histEvent{"name": "Forget", "t": 1})
		d.txn = nil
		d.observe("router", 0, 0, d.rt, nil)
		d.observeSnaps(true)
		return
	}
	for i := 0; i < n; i++ {
		switch x := d.rng.Intn(100); {
		case d.txn == nil && x < 6:
			write := d.rng.Intn(4) > 0
			d.txn = d.rt.Txn(write)
			d.txnW = write
			d.log(histEvent{"name": "Begin", "t": 1, "write": write, "managed": false})
		case d.txn != nil && x < 12:
			if d.rng.Intn(3) == 0 {
				d.txn.Abort()
				d.log(histEvent{"name": "Abort", "t": 1})
			} else {
				d.txn.Commit()
				d.log(histEvent{"name": "Commit", "t": 1})
			}
			d.log(histEvent{"name": "Forget", "t": 1})
			d.txn = nil
		case x < 16:
			d.takeSnap()
		case x < 20:
			d.observeSnaps(true)
		case x < 24:
			if d.txn != nil {
				d.observe("txn", 1, 0, d.txn, nil)
			}
			d.observe("router", 0, 0, d.rt, nil)
		case d.txn != nil && d.txnW && x < 27:
			ms := []int{}
			for mi := range d.g.Methods {
				if d.rng.Intn(3) == 0 {
					ms = append(ms, mi+1)
				}
			}
			err := d.txn.Truncate(d.methodNames(ms)...)
			d.log(histEvent{"name": "TxnTruncate", "t": 1, "ms": ms, "err": errClass(err), "matched": []int{}})
		default:
			m, p := d.randomKey()
			kind := kinds[d.rng.Intn(len(kinds))]
			if d.txn != nil {
				d.write(d.txn, d.txn, "TxnWrite", 1, kind, m, p)
			} else {
				d.write(d.rt, d.rt, "RouterWrite", 0, kind, m, p)
			}
		}
	}
	if d.txn != nil {
		d.txn.Commit()
		d.log(histEvent{"name": "Commit", "t": 1})
		d.log(histEvent{"name": "Forget", "t": 1})
		d.txn = nil
	}
	d.observe("router", 0, 0, d.rt, nil)
	d.observeSnaps(false)
}

func (d *histDriver) methodNames(ms []int) []string {
	out := make([]string, len(ms))
	for i, m := range ms {
		out[i] = d.g.Methods[m-1]
	}
	return out
}

// runRouterD2 records histories and validates each with Trace_Router.
func runRouterD2(r *Run, seedOffset int64) {
	rng := rand.New(rand.NewSource(r.Seed*911 + seedOffset))
	type plan struct {
		pool, ops int
		big       bool
	}
	plans := []plan{{120, 1500, false}, {90, 5000, true}}
	if !r.quick() {
		plans = []plan{{300, 5000, false}, {200, 20000, true}, {150, 3000, false}, {300, 12000, true}}
	}
	for pi, pl := range plans {
		g := &routerGen{Pool: bigPool(rng, pl.pool), Methods: []string{"GET", "POST", "FOO", "BAR"}, Txns: 1, Snaps: 3, MaxOps: 10000000,
			MaxParams: 65535, MaxKey: 65535, Trunc: [][]int{{}}, Kinds: []string{"Handle"}, Settled: []string{"Has"}}
		rt, err := fox.New()
		if err != nil {
			failTool("fox.New: %v", err)
		}
		d := &histDriver{g: g, rt: rt, rng: rng, pidx: map[string]int{}, snaps: map[int]any{}}
		for i, p := range g.Pool {
			d.pidx[p] = i + 1
		}
		crashed := false
		r.guard(fmt.Sprintf("a recorded history (pool of %d patterns, %d operations so far)", len(g.Pool), len(d.events)), func() map[string]any {
			crashed = true
			last := d.events
			if len(last) > 8 {
				last = last[len(last)-8:]
			}
			return map[string]any{"kind": "trace", "last_events": last}
		}, func() { d.run(pl.ops, pl.big) })
		if crashed {
			continue
		}
		var sb strings.Builder
		for _, e := range d.events {
			for _, k := range []string{"t", "s", "m", "p"} {
				if _, ok := e[k]; !ok {
					e[k] = 0
				}
			}
			b, _ := json.Marshal(e)
			sb.Write(b)
			sb.WriteByte('\n')
		}
		res := r.runTLC(tlcOpts{Module: "Trace_Router", Gen: map[string]string{"Gen_Router.tla": g.tla()}, Files: map[string]string{"trace.ndjson": sb.String()},
			Workers: 1, Timeout: pick(r, 6*time.Minute, 40*time.Minute), Tag: fmt.Sprint(pi)})
		rejected := strings.Contains(res.Output, "Accepted") && strings.Contains(strings.ToLower(res.Output), "postcondition")
		if res.InvViol != "" || rejected {
			keep := filepath.Join(verifDir, "evidence", "replays", fmt.Sprintf("%s-history-%d-%d.ndjson", r.ID, r.Seed, pi))
			os.MkdirAll(filepath.Dir(keep), 0o755)
			os.WriteFile(keep, []byte(sb.String()), 0o644)
			consumed := res.Distinct - 1
			line := ""
			if int(consumed) < len(d.events) && consumed >= 0 {
				b, _ := json.Marshal(d.events[consumed])
				line = string(b)
			}
			r.violation(fmt.Sprintf("recorded history rejected at line %d: %.300s", consumed+1, line), map[string]any{"kind": "trace", "trace_file": keep,
				"pool_size": len(g.Pool), "operations": len(d.events), "big_transaction": pl.big,
				"prescribed": "every recorded call result and every recorded view is what FoxRouter prescribes", "obtained": map[string]any{"first_line_not_explained": line, "tlc": tail(res.Output, 12)}})
		} else {
			res.mustClean("Trace_Router")
		}
		r.addCov("recorded_history_events_validated", int64(len(d.events)))
		r.addCov("recorded_histories_validated", 1)
		r.addCov("traces_validated_against_impl", 1)
		if pi == 0 && len(d.events) > 40 {
			r.sample(map[string]any{"recorded_history_excerpt": d.events[30:36], "pool_size": len(g.Pool)})
		}
	}
}
