//go:build verif

package main

import (
	"encoding/json"
	"fmt"
	"math/rand"
	"slices"
	"sort"
	"strconv"
	"strings"
	"sync"
	"time"

	"github.com/tigerwill90/fox"
)

// Structural conformance of the implementation-shaped layer (FoxRadix / MC_Radix).
//
// TLC explores every history of Insert / Update / Remove over a pattern pool and emits every transition with the
// tree the model builds. Each transition is replayed on a real router (one fresh router per edge, reached along a
// shortest history, plus long random walks over the same graph so that deletions and failed calls sit in the middle
// of histories) and after every step
//   - the result class of the call is the one the model prescribes, and
//   - the published radix tree, copied out through fox.VerifDump, is node for node the model's tree.
// The model proves (MC_Radix: Canonicity) that its tree is a function of the registered set. A real tree that differs
// from it is therefore a tree that depends on history. That alone is not a violation of C07, which speaks about
// routing only: on a structural difference the harness compares the router with a fresh one filled in sorted order on
// probes derived from every pattern of the pool, and reports a violation only when the two route differently.

type radixGen struct {
	Pool      []string
	MaxRoutes int
}

func (g *radixGen) tla() string {
	var b strings.Builder
	b.WriteString("---- MODULE Gen_Radix ----\n")
	b.WriteString("GenPool == " + tlaSeqOfChars(g.Pool) + "\n")
	fmt.Fprintf(&b, "GenMaxRoutes == %d\n", g.MaxRoutes)
	b.WriteString("====\n")
	return b.String()
}

type radixNode struct {
	K string      `json:"k"`
	R string      `json:"r"`
	C []radixNode `json:"c"`
	// what newNode precomputes from the children (real dumps only; the model derives it from C)
	real      bool
	childKeys string
	paramIdx  int
	wildIdx   int
}

// derived returns the child-key string and the indexes of the {param} and *{catchall} children as they follow from
// the children themselves.
func (n radixNode) derived() (string, int, int) {
	keys, pi, wi := "", -1, -1
	for i, c := range n.C {
		keys += c.K[:1]
		if strings.HasPrefix(c.K, "{") {
			pi = i
		} else if strings.HasPrefix(c.K, "*") {
			wi = i
		}
	}
	return keys, pi, wi
}

type radixEdge struct {
	From []int `json:"from"`
	Op   struct {
		Name string `json:"name"`
		P    int    `json:"p"`
		Err  string `json:"err"`
	} `json:"op"`
	To   []int     `json:"to"`
	Tree radixNode `json:"tree"`
}

func idSetKey(xs []int) string {
	ys := slices.Clone(xs)
	sort.Ints(ys)
	var b strings.Builder
	for _, x := range ys {
		b.WriteString(strconv.Itoa(x))
		b.WriteByte(',')
	}
	return b.String()
}

func dumpToRadix(v fox.VerifNode) radixNode {
	n := radixNode{K: v.Key, R: v.Route, C: []radixNode{}, real: true, childKeys: v.ChildKeys, paramIdx: v.ParamChild, wildIdx: v.WildcardChild}
	for _, c := range v.Children {
		n.C = append(n.C, dumpToRadix(c))
	}
	return n
}

// radixEqual compares a real tree (a) with a model tree (b), including the indexes the real node precomputed.
func radixEqual(a, b radixNode) bool {
	if a.K != b.K || a.R != b.R || len(a.C) != len(b.C) {
		return false
	}
	if a.real {
		if k, p, w := b.derived(); k != a.childKeys || p != a.paramIdx || w != a.wildIdx {
			return false
		}
	}
	for i := range a.C {
		if !radixEqual(a.C[i], b.C[i]) {
			return false
		}
	}
	return true
}

func (n radixNode) String() string {
	var b strings.Builder
	var w func(n radixNode)
	w = func(n radixNode) {
		fmt.Fprintf(&b, "(%q", n.K)
		if n.real {
			if k, p, w := n.derived(); k != n.childKeys || p != n.paramIdx || w != n.wildIdx {
				fmt.Fprintf(&b, " [childKeys=%q param=%d wildcard=%d]", n.childKeys, n.paramIdx, n.wildIdx)
			}
		}
		if n.R != "" {
			fmt.Fprintf(&b, " =%s", n.R)
		}
		for _, c := range n.C {
			b.WriteByte(' ')
			w(c)
		}
		b.WriteByte(')')
	}
	w(n)
	return b.String()
}

const radixMethod = "GET"

// applyRadixOp performs one model operation on the real router and returns its result class.
func applyRadixOp(rt *fox.Router, name, pat string) string {
	var err error
	switch name {
	case "Insert":
		_, err = rt.Handle(radixMethod, pat, routeHandler(pat))
	case "Update":
		_, err = rt.Update(radixMethod, pat, routeHandler(pat))
	case "Remove":
		_, err = rt.Delete(radixMethod, pat)
	default:
		failTool("unknown radix op %q", name)
	}
	return errClass(err)
}

func realRadix(rt *fox.Router) radixNode {
	d, ok := fox.VerifDump(rt)[radixMethod]
	if !ok {
		return radixNode{C: []radixNode{}}
	}
	return dumpToRadix(d)
}

// radixProbes derives request targets from every pattern of the pool: instantiations with short and long values,
// with and without a trailing slash.
func radixProbes(rng *rand.Rand, pool []string) [][2]string {
	seen := map[string]bool{}
	var out [][2]string
	add := func(s string) {
		host, path := "", s
		if !strings.HasPrefix(s, "/") {
			i := strings.IndexByte(s, '/')
			if i < 0 {
				return
			}
			host, path = s[:i], s[i:]
		}
		for _, p := range []string{path, path + "/", strings.TrimSuffix(path, "/")} {
			if p == "" || strings.Contains(p, "//") {
				continue
			}
			k := host + " " + p
			if !seen[k] {
				seen[k] = true
				out = append(out, [2]string{host, p})
			}
		}
	}
	for _, p := range pool {
		for _, vals := range [][]string{{"a"}, {"b"}, {"ab"}, {"a", "b", "ab", "a/b"}} {
			for k := 0; k < 3; k++ {
				add(instantiatePattern(rng, p, vals))
			}
		}
	}
	return out
}

// sameRouting compares two routers on the probes; it returns a description of the first difference.
func sameRouting(a, b *fox.Router, probes [][2]string) (bool, map[string]any) {
	for _, pr := range probes {
		oa := obtainLookup(a, radixMethod, pr[0], pr[1])
		ob := obtainLookup(b, radixMethod, pr[0], pr[1])
		if oa.Route != ob.Route || oa.Tsr != ob.Tsr || !slices.Equal(oa.Params, ob.Params) {
			return false, map[string]any{"host": pr[0], "path": pr[1], "by_history": oa, "fresh_sorted_order": ob}
		}
	}
	return true, nil
}

// radixTamper (self-test only) alters emitted transitions before they are replayed.
var radixTamper func(e *radixEdge)

type radixGraph struct {
	pool  []string
	edges []radixEdge
	out   map[string][]int // set key -> indices of outgoing edges
	pred  map[string]int   // set key -> index of the edge of a shortest history into it (-1 for the empty set)
}

func (g *radixGraph) history(key string) []int {
	var rev []int
	for key != "" {
		e := g.pred[key]
		rev = append(rev, e)
		key = idSetKey(g.edges[e].From)
	}
	slices.Reverse(rev)
	return rev
}

func runRadixPool(r *Run, name string, pool []string, maxRoutes int, rng *rand.Rand) {
	g := &radixGen{Pool: pool, MaxRoutes: maxRoutes}
	gr := &radixGraph{pool: pool, out: map[string][]int{}, pred: map[string]int{}}
	res := r.runTLC(tlcOpts{Module: "MC_Radix", Tag: "-" + name, Gen: map[string]string{"Gen_Radix.tla": g.tla()}, Timeout: pick(r, 10*time.Minute, 60*time.Minute),
		OnVec: func(b []byte) {
			var e radixEdge
			if err := json.Unmarshal(b, &e); err != nil {
				failTool("bad radix edge: %v: %.200s", err, b)
			}
			if radixTamper != nil {
				radixTamper(&e)
			}
			gr.edges = append(gr.edges, e)
		}})
	res.mustClean("MC_Radix " + name)
	r.addCov("radix_model_states", res.Distinct)
	r.addCov("radix_model_edges", int64(len(gr.edges)))
	if len(gr.edges) == 0 {
		failTool("MC_Radix %s emitted no transition", name)
	}
	for i, e := range gr.edges {
		k := idSetKey(e.From)
		gr.out[k] = append(gr.out[k], i)
	}
	// shortest histories (breadth-first over the emitted graph)
	seen := map[string]bool{"": true}
	queue := []string{""}
	for len(queue) > 0 {
		k := queue[0]
		queue = queue[1:]
		for _, i := range gr.out[k] {
			tk := idSetKey(gr.edges[i].To)
			if !seen[tk] {
				seen[tk] = true
				gr.pred[tk] = i
				queue = append(queue, tk)
			}
		}
	}
	probes := radixProbes(rng, pool)
	var freshMu sync.Mutex
	freshCache := map[string]*fox.Router{}
	freshErr := map[string]string{}
	freshFor := func(ids []int) (*fox.Router, string) {
		k := idSetKey(ids)
		freshMu.Lock()
		defer freshMu.Unlock()
		if rt, ok := freshCache[k]; ok {
			return rt, freshErr[k]
		}
		fresh, err := fox.New()
		if err != nil {
			failTool("fox.New: %v", err)
		}
		var set []string
		for _, i := range ids {
			set = append(set, pool[i-1])
		}
		sort.Strings(set)
		for _, p := range set {
			if _, err := fresh.Handle(radixMethod, p, routeHandler(p)); err != nil {
				freshErr[k] = fmt.Sprintf("Handle %s: %v", p, err)
				break
			}
		}
		freshCache[k] = fresh
		return fresh, freshErr[k]
	}
	check := func(rt *fox.Router, hist []int, e radixEdge, how string) bool {
		pat := pool[e.Op.P-1]
		detail := func() map[string]any {
			var h []string
			for _, i := range hist {
				h = append(h, gr.edges[i].Op.Name+" "+pool[gr.edges[i].Op.P-1]+" -> "+gr.edges[i].Op.Err)
			}
			return map[string]any{"family": "radix", "pool": pool, "history": h, "op": e.Op.Name + " " + pat, "how": how}
		}
		ok := true
		r.guard("radix replay", detail, func() {
			got := applyRadixOp(rt, e.Op.Name, pat)
			r.addCov("radix_steps_replayed", 1)
			if got != e.Op.Err {
				d := detail()
				d["prescribed"] = e.Op.Err
				d["obtained"] = got
				r.violation(fmt.Sprintf("radix: %s %s after %d calls answers %s, the specification prescribes %s", e.Op.Name, pat, len(hist), got, e.Op.Err), d)
				ok = false
				return
			}
			real := realRadix(rt)
			structural := !radixEqual(real, e.Tree)
			if structural {
				// the real tree is not the canonical one: does routing depend on the history?
				r.addCov("radix_structural_differences", 1)
				if r.getCov("radix_structural_differences") <= 5 {
					outf("NOTE radix: real tree differs from the model's after %s %s (%d earlier calls)\n  model: %v\n  real:  %v\n", e.Op.Name, pat, len(hist), e.Tree, real)
				}
			}
			if !structural && idSetKey(e.To) == idSetKey(e.From) {
				return
			}
			// C07's own oracle: a fresh router filled with the same set in sorted order routes every probe identically
			fresh, ferr := freshFor(e.To)
			if ferr != "" {
				d := detail()
				d["prescribed"] = "the set reached by the history is accepted by a fresh router"
				d["obtained"] = ferr
				r.violation("radix: a set reached by a history is refused by a fresh router: "+ferr, d)
				ok = false
				return
			}
			r.addCov("radix_routing_comparisons", int64(len(probes)))
			if same, diff := sameRouting(rt, fresh, probes); !same {
				d := detail()
				d["prescribed"] = "same routing as a fresh router holding the same set"
				d["obtained"] = diff
				d["model_tree"] = e.Tree.String()
				d["real_tree"] = real.String()
				r.violation(fmt.Sprintf("radix: routing of %v %s differs between a history and a fresh router holding the same set", diff["host"], diff["path"]), d)
				ok = false
			}
		})
		return ok
	}
	// 1. every edge once, after a shortest history into its source
	for i, e := range gr.edges {
		if !seen[idSetKey(e.From)] {
			failTool("MC_Radix %s: edge %d leaves a set that no emitted history reaches", name, i)
		}
	}
	parallel(len(gr.edges), func(i int) {
		if r.tooManyViolations() {
			return
		}
		e := gr.edges[i]
		rt, err := fox.New()
		if err != nil {
			failTool("fox.New: %v", err)
		}
		hist := gr.history(idSetKey(e.From))
		for _, hi := range hist {
			if got := applyRadixOp(rt, gr.edges[hi].Op.Name, pool[gr.edges[hi].Op.P-1]); got != gr.edges[hi].Op.Err {
				return // reported when that edge itself is replayed
			}
		}
		check(rt, hist, e, "edge after a shortest history")
		r.addCov("radix_edges_replayed", 1)
	})
	// 2. long random walks: deletions, updates and refused calls in the middle of histories
	walks, steps := pick(r, 150, 1500), pick(r, 40, 80)
	base := rng.Int63()
	parallel(walks, func(w int) {
		if r.tooManyViolations() {
			return
		}
		wrng := rand.New(rand.NewSource(base + int64(w)))
		rt, err := fox.New()
		if err != nil {
			failTool("fox.New: %v", err)
		}
		key := ""
		var hist []int
		for s := 0; s < steps; s++ {
			outs := gr.out[key]
			if len(outs) == 0 {
				break
			}
			// prefer calls that change the set, so that walks travel
			i := outs[wrng.Intn(len(outs))]
			for try := 0; try < 2 && idSetKey(gr.edges[i].To) == key; try++ {
				i = outs[wrng.Intn(len(outs))]
			}
			if !check(rt, hist, gr.edges[i], "random walk") {
				break
			}
			hist = append(hist, i)
			key = idSetKey(gr.edges[i].To)
		}
		r.addCov("radix_walks", 1)
	})
}

var radixPools = []struct {
	name string
	pool []string
	max  [2]int // quick, thorough
}{
	{"path", []string{"/a", "/ab", "/a/", "/a/b", "/{x}", "/a{x}", "/*{w}", "/a/*{w}/b", "/{x}/b", "/b/", "/a{x}/b", "/a/$m", "/~u", "!bad"}, [2]int{5, 11}},
	{"host", []string{"a.b/", "a.b/a", "a.c/a", "{h}.b/a", "a.b.c/x", "/a", "a.b/ab", "*{s}.b/a", "a.b/{x}", "ab.c/", "/"}, [2]int{5, 11}},
	{"deep", []string{"/a/b/c", "/a/b/d", "/a/bc", "/a/{x}/c", "/a/{x}/d", "/a/*{w}", "/ab", "/a", "/a/b/", "/a/b"}, [2]int{5, 10}},
}

func runRadix(r *Run) {
	rng := rand.New(rand.NewSource(r.Seed + 707))
	for _, p := range radixPools {
		if r.tooManyViolations() {
			return
		}
		pool := slices.Clone(p.pool)
		// a seed-dependent extra pattern or two, so that different seeds explore different trees
		for k := 0; k < pick(r, 1, 2); k++ {
			q := genPattern(rng, p.name == "host", 3)
			if !slices.Contains(pool, q) {
				pool = append(pool, q)
			}
		}
		runRadixPool(r, p.name, pool, pick(r, p.max[0], p.max[1]), rng)
	}
	r.assumption("the radix layer is bound structurally: the tree copied out of the router is compared node for node with the model's after every replayed call; a structural difference is a violation only when routing differs from a fresh router holding the same set")
}
