//go:build verif

package main

import (
	"fmt"
	"slices"
	"strings"
	"sync/atomic"
	"time"

	"github.com/tigerwill90/fox"
)

// C03, first item of its list: "the state a request is being served from" is a snapshot like any other. A read is
// stopped at the verification point right after it has loaded the published state (FoxConc: RLoad), writers then
// commit (the routes the read is about to find are deleted, others are added, in one-call writes and in a
// transaction), and the read is let go: what it returns is what the state it had loaded prescribes, for every read
// entry point.
func runRequestKeepsItsState(r *Run) {
	type obs struct {
		name string
		run  func(rt *fox.Router) string
		want string // on the state loaded before the commits
	}
	serve := func(m, host, p string) func(rt *fox.Router) string {
		return func(rt *fox.Router) string {
			req, cp := newRequest(m, host, p, "")
			w := newPlainWriter()
			rt.ServeHTTP(w, req)
			allow := splitAllow(w.h.Get("Allow"))
			slices.Sort(allow)
			return fmt.Sprintf("%s allow=%s", cp.handler, strings.Join(allow, ","))
		}
	}
	reads := []obs{
		{"ServeHTTP route", serve("GET", "", "/a/1"), "GET /a/{x} allow="},
		{"ServeHTTP hostname route", serve("GET", "h.example", "/d/1"), "GET h.example/d/{y} allow="},
		{"ServeHTTP 405", serve("PUT", "", "/a/1"), "nomethod allow=GET,OPTIONS,POST"},
		{"ServeHTTP automatic OPTIONS", serve("OPTIONS", "", "/a/1"), "options allow=GET,OPTIONS,POST"},
		{"ServeHTTP 404 of a route added later", serve("GET", "", "/later/1"), "noroute allow="},
		{"Router.Reverse", func(rt *fox.Router) string {
			rte, tsr := rt.Reverse("GET", "", "/a/1")
			if rte == nil {
				return "nothing"
			}
			return fmt.Sprint(rte.Pattern(), " ", tsr)
		}, "/a/{x} false"},
		{"Router.Has", func(rt *fox.Router) string { return fmt.Sprint(rt.Has("GET", "/a/{x}")) }, "true"},
		{"Router.Has of a route added later", func(rt *fox.Router) string { return fmt.Sprint(rt.Has("GET", "/later/{z}")) }, "false"},
		{"Router.Route", func(rt *fox.Router) string { return fmt.Sprint(rt.Route("POST", "/a/{x}") != nil) }, "true"},
		{"Router.Len", func(rt *fox.Router) string { return fmt.Sprint(rt.Len()) }, "5"},
		{"Router.Iter", func(rt *fox.Router) string {
			var ps []string
			for m, rte := range rt.Iter().All() {
				ps = append(ps, m+" "+rte.Pattern())
			}
			slices.Sort(ps)
			return strings.Join(ps, ";")
		}, "FOO /c;GET /a/{x};GET /b/;GET h.example/d/{y};POST /a/{x}"},
		{"read-only transaction", func(rt *fox.Router) string {
			tx := rt.Txn(false)
			defer tx.Abort()
			rte, _ := tx.Reverse("GET", "", "/a/1")
			return fmt.Sprint(tx.Len(), tx.Has("GET", "/a/{x}"), rte != nil, tx.Has("GET", "/later/{z}"))
		}, "5 true true false"},
	}
	for _, rd := range reads {
		if r.tooManyViolations() {
			return
		}
		detail := func() map[string]any { return map[string]any{"family": "request-keeps-its-state", "read": rd.name} }
		r.guard("a read stopped after its load", detail, func() {
			rt, err := fox.New(fox.WithNoMethodHandler(specialHandler("nomethod", 405)), fox.WithOptionsHandler(specialHandler("options", 200)), fox.WithNoRouteHandler(specialHandler("noroute", 404)))
			if err != nil {
				failTool("fox.New: %v", err)
			}
			for _, rte := range [][2]string{{"GET", "/a/{x}"}, {"POST", "/a/{x}"}, {"GET", "/b/"}, {"FOO", "/c"}, {"GET", "h.example/d/{y}"}} {
				rt.MustHandle(rte[0], rte[1], routeHandler(rte[0]+" "+rte[1]))
			}
			var armed atomic.Bool
			entered, resume := make(chan struct{}), make(chan struct{})
			fox.VerifSetHook(func(rr *fox.Router, point int) {
				if rr == rt && point == fox.VerifLoad && armed.CompareAndSwap(true, false) {
					close(entered)
					<-resume
				}
			})
			defer fox.VerifSetHook(nil)
			armed.Store(true)
			got := make(chan string, 1)
			go func() {
				defer func() {
					if p := recover(); p != nil {
						got <- "panic: " + fmt.Sprint(p)
					}
				}()
				got <- rd.run(rt)
			}()
			select {
			case <-entered:
			case <-time.After(5 * time.Second):
				close(resume)
				failTool("the read %s never loaded the published state", rd.name)
			}
			// the writers, while the read holds the state it loaded
			rt.Delete("GET", "/a/{x}")
			rt.Delete("POST", "/a/{x}")
			rt.Delete("GET", "h.example/d/{y}")
			rt.MustHandle("GET", "/later/{z}", routeHandler("GET /later/{z}"))
			_ = rt.Updates(func(txn *fox.Txn) error {
				txn.Handle("PUT", "/a/{x}", routeHandler("PUT /a/{x}"))
				txn.Handle("DELETE", "/a/{x}", routeHandler("DELETE /a/{x}"))
				txn.Delete("FOO", "/c")
				return nil
			})
			close(resume)
			var res string
			select {
			case res = <-got:
			case <-time.After(5 * time.Second):
				res = "the read never returned"
			}
			r.addCov("reads_resumed_after_commits", 1)
			if res != rd.want {
				d := detail()
				d["prescribed"], d["obtained"] = rd.want, res
				d["writes_in_between"] = "Delete GET /a/{x}, Delete POST /a/{x}, Delete GET h.example/d/{y}, Handle GET /later/{z}, Updates{Handle PUT /a/{x}, Handle DELETE /a/{x}, Delete FOO /c}"
				r.violation(fmt.Sprintf("read=%s stopped after loading the state, resumed after later commits: answered from another state", rd.name), d)
			}
		})
	}
}
