//go:build !verif

package main

// the conformance of the copy-on-write model needs fox.VerifDump* (verif build)
func runCow(r *Run)            {}
func cowNegativeRuns(r *Run)   {}
func runRoots(r *Run)          {}
func rootsNegativeRuns(r *Run) {}
