package main

func init() {
	register("C05", checkC05)
	register("C06", checkC06)
	needsHooks["C05"] = true
	needsHooks["C06"] = true
}
