package main

import (
	"bufio"
	"encoding/json"
	"fmt"
	"net"
	"net/http"
	"runtime"
	"slices"
	"strings"
	"sync"
	"sync/atomic"
	"time"

	"github.com/tigerwill90/fox"
)

type ctxExpect struct {
	Route   string   `json:"route"`
	Params  []string `json:"params"`
	Scope   string   `json:"scope"`
	Query   string   `json:"query"`
	ReqHdr  string   `json:"reqhdr"`
	Path    string   `json:"path"`
	Host    string   `json:"host"`
	Remote  string   `json:"remote"`
	Status  int      `json:"status"`
	Size    int      `json:"size"`
	Written bool     `json:"written"`
	RespHdr string   `json:"resphdr"`
}

type ctxStep struct {
	Shape      string    `json:"shape"`
	Replaced   bool      `json:"replaced"`
	Tok        int       `json:"tok"`
	Expect     ctxExpect `json:"expect"`
	Clone      bool      `json:"clone"`
	KeepParams bool      `json:"keepparams"`
}

type ctxVec struct {
	Steps []ctxStep `json:"steps"`
}

// observation of a context, every field projected to the token it carries
type ctxObs struct {
	Route   string   `json:"route"`
	Params  []string `json:"params"`
	Scope   string   `json:"scope"`
	Query   string   `json:"query"`
	ReqHdr  string   `json:"reqhdr"`
	Path    string   `json:"path"`
	Host    string   `json:"host"`
	Remote  string   `json:"remote"`
	Status  int      `json:"status"`
	Size    int      `json:"size"`
	Written bool     `json:"written"`
	RespHdr string   `json:"resphdr"`
	Err     string   `json:"err,omitempty"`
}

func tokStr(run string, tok int) string { return fmt.Sprintf("%st%dz", run, tok) }

func observeCtx(c fox.Context) (o ctxObs) {
	defer func() {
		if p := recover(); p != nil {
			o.Err = "panic: " + fmt.Sprint(p)
		}
	}()
	o.Route = "-"
	if c.Route() != nil {
		o.Route = c.Route().Pattern()
		if c.Pattern() != o.Route {
			o.Err = "Pattern() and Route() disagree"
		}
	} else if c.Pattern() != "" {
		o.Err = "Pattern() without Route()"
	}
	o.Params = []string{}
	for p := range c.Params() {
		o.Params = append(o.Params, p.Value)
		if c.Param(p.Key) != p.Value {
			o.Err = "Param() and Params() disagree"
		}
	}
	o.Scope = scopeName(c.Scope())
	o.Query = c.QueryParam("q")
	if c.QueryParams().Get("q") != o.Query {
		o.Err = "QueryParam and QueryParams disagree"
	}
	o.ReqHdr = c.Header("X-Req")
	o.Path = c.Path()
	o.Host = c.Host()
	o.Remote = c.RemoteIP().String()
	if c.Request() == nil || c.Request().URL.Path != o.Path || c.Method() != c.Request().Method {
		o.Err = "Request() inconsistent"
	}
	w := c.Writer()
	o.Status, o.Size, o.Written = w.Status(), w.Size(), w.Written()
	o.RespHdr = "-"
	if v := w.Header().Get("X-Resp"); v != "" {
		o.RespHdr = v
	}
	return
}

// dirty leaves as much of the current request as possible behind in the context
func dirty(c fox.Context, tok string) {
	c.Writer().Header().Set("X-Resp", tok)
	_ = c.QueryParams()
	c.Writer().WriteHeader(203)
	c.Writer().Write([]byte(tok))
}

func expectFor(e ctxExpect, shape, tok string, ipLast int) ctxObs {
	sub := func(s string) string {
		if s == "T" {
			return tok
		}
		return s
	}
	o := ctxObs{Scope: e.Scope, Query: sub(e.Query), ReqHdr: sub(e.ReqHdr), Status: e.Status, Size: e.Size, Written: e.Written, RespHdr: sub(e.RespHdr), Params: []string{}}
	for _, p := range e.Params {
		o.Params = append(o.Params, sub(p))
	}
	o.Host = tok + ".example"
	if e.Host == "static" {
		o.Host = "static.example"
	}
	o.Remote = fmt.Sprintf("192.0.2.%d", ipLast)
	o.Route = "-"
	o.Path = map[string]string{"direct": "/p/", "tsr": "/i/", "redirect": "/r/", "noroute": "/nope/", "nomethod": "/p/", "options": "/p/",
		"lookup": "/p/", "lookupclone": "/p/", "clonewith": "/p/", "clone": "/p/",
		"tsrclone": "/ic/", "hostdirect": "/hd/", "hosttsr": "/hi/", "statichost": "/hs/", "hijack": "/hj/", "txnlookup": "/p/",
		"tsrclonewith": "/iw/", "tsrlookup": "/i/", "wrapclone": "/wc/", "directcopy": "/p/", "noroutecopy": "/nope/",
		"swapped": "/sw/", "wrapf": "/wf/", "noquery": "/nq/", "hostnomethod": "/two/", "infix": "/fx/"}[shape] + tok
	if shape == "infix" {
		o.Path += "/dl"
	}
	switch shape { // routes without a parameter: the path carries no token
	case "staticdirect":
		o.Path = "/sd"
	case "statictsr":
		o.Path = "/st"
	}
	if e.Route == "pattern" {
		o.Route = "/p/{x}"
		switch shape {
		case "tsr":
			o.Route = "/i/{x}/"
		case "tsrclone":
			o.Route = "/ic/{x}/"
		case "hostdirect":
			o.Route = "{h}.example/hd/{x}"
		case "hosttsr":
			o.Route = "{h}.example/hi/{x}/"
		case "statichost":
			o.Route = "static.example/hs/{x}"
		case "hijack":
			o.Route = "/hj/{x}"
		case "staticdirect":
			o.Route = "/sd"
		case "statictsr":
			o.Route = "/st/"
		case "tsrclonewith":
			o.Route = "/iw/{x}/"
		case "tsrlookup":
			o.Route = "/i/{x}/"
		case "wrapclone":
			o.Route = "/wc/{x}"
		case "swapped":
			o.Route = "/sw/{x}"
		case "wrapf":
			o.Route = "/wf/{x}"
		case "noquery":
			o.Route = "/nq/{x}"
		case "infix":
			o.Route = "/fx/*{x}/dl"
		}
	}
	if e.Query == "-" {
		o.Query = ""
	}
	if shape == "hostnomethod" {
		o.Host = tok + ".foo.example"
	}
	return o
}

func sameObs(a, b ctxObs) bool {
	x, _ := json.Marshal(a)
	y, _ := json.Marshal(b)
	return string(x) == string(y)
}

// hijackableWriter is an underlying writer whose connection can be taken over.
type hijackableWriter struct{ *plainWriter }

func (w *hijackableWriter) Hijack() (net.Conn, *bufio.ReadWriter, error) {
	a, b := net.Pipe()
	b.Close()
	return a, bufio.NewReadWriter(bufio.NewReader(a), bufio.NewWriter(a)), nil
}

// wrappedWriter is a ResponseWriter of the caller's own type around the context's writer.
type wrappedWriter struct{ fox.ResponseWriter }

type keptClone struct {
	c      fox.Context
	expect ctxObs
	step   int
}

type ctxReplayer struct {
	r     *Run
	evals atomic.Int64
}

// runSeq replays one sequence of request shapes on a fresh router.
func (cr *ctxReplayer) runSeq(v ctxVec, run string) {
	var obsNow *ctxObs
	var paramsNow fox.Params
	var cloneNow fox.Context
	var cloneObs *ctxObs
	cur := ""
	h := func(c fox.Context) {
		o := observeCtx(c)
		obsNow = &o
		dirty(c, cur)
		// the writer works for this request: what was just written is what it reports
		if w := c.Writer(); w.Status() != 203 || w.Size() != len(cur) || !w.Written() {
			obsNow.Err = fmt.Sprintf("writer after WriteHeader(203) and a %d byte body: status %d, size %d, written %v", len(cur), w.Status(), w.Size(), w.Written())
		}
	}
	hClone := func(c fox.Context) {
		o := observeCtx(c)
		obsNow = &o
		c.Writer().Header().Set("X-Resp", cur) // a clone carries the response headers set so far
		cl := c.Clone()
		co := observeCtx(cl)
		cloneNow, cloneObs = cl, &co
		dirty(c, cur)
	}
	hCloneWith := func(c fox.Context) {
		cp := c.CloneWith(c.Writer(), c.Request())
		o := observeCtx(cp)
		obsNow = &o
		cp.Close()
		dirty(c, cur)
	}
	// manual lookup from inside another handler: the request routed by hand carries the token
	hManual := func(clone bool) fox.HandlerFunc {
		return func(c fox.Context) {
			inner, _ := newRequest("GET", cur+".example", "/p/"+cur, "q="+cur)
			inner.Header.Set("X-Req", cur)
			inner.RemoteAddr = c.Request().RemoteAddr
			rt, cc, _ := c.Fox().Lookup(c.Writer(), inner)
			if rt == nil || cc == nil {
				obsNow = &ctxObs{Err: "Lookup found nothing"}
				return
			}
			o := observeCtx(cc)
			obsNow = &o
			if clone {
				c.Writer().Header().Set("X-Resp", cur)
				func() {
					defer func() {
						if p := recover(); p != nil {
							cloneObs = &ctxObs{Err: "panic in Clone: " + fmt.Sprint(p)}
							cloneNow = nil
						}
					}()
					cl := cc.Clone()
					co := observeCtx(cl)
					cloneNow, cloneObs = cl, &co
				}()
			}
			cc.Close()
			dirty(c, cur)
		}
	}
	special := func(c fox.Context) {
		o := observeCtx(c)
		obsNow = &o
		dirty(c, cur)
	}
	rt, err := fox.New(fox.WithNoRouteHandler(special), fox.WithNoMethodHandler(special), fox.WithOptionsHandler(special),
		// in front of everything: on demand, the rest of the chain works on a CloneWith copy of the context
		fox.WithMiddleware(func(next fox.HandlerFunc) fox.HandlerFunc {
			return func(c fox.Context) {
				if c.Header("X-Copy") == "" {
					next(c)
					return
				}
				cp := c.CloneWith(c.Writer(), c.Request())
				defer cp.Close()
				next(cp)
			}
		}),
		fox.WithMiddlewareFor(fox.RedirectHandler, func(next fox.HandlerFunc) fox.HandlerFunc {
			return func(c fox.Context) {
				o := observeCtx(c)
				obsNow = &o
				c.Writer().Header().Set("X-Resp", cur)
				next(c)
			}
		}))
	if err != nil {
		failTool("fox.New: %v", err)
	}
	rt.MustHandle("GET", "/p/{x}", h)
	rt.MustHandle("GET", "/fx/*{x}/dl", h)
	rt.MustHandle("GET", "/i/{x}/", h, fox.WithIgnoreTrailingSlash(true))
	rt.MustHandle("GET", "/r/{x}/", h, fox.WithRedirectTrailingSlash(true))
	rt.MustHandle("GET", "/c/{x}", hClone)
	rt.MustHandle("GET", "/w/{x}", hCloneWith)
	rt.MustHandle("GET", "/m/{y}", hManual(false))
	rt.MustHandle("GET", "/mc/{y}", hManual(true))
	rt.MustHandle("GET", "/ic/{x}/", hClone, fox.WithIgnoreTrailingSlash(true))
	// the handler observes, then takes the connection over: whoever gets this context next must find a working writer
	rt.MustHandle("GET", "/hj/{x}", func(c fox.Context) {
		o := observeCtx(c)
		obsNow = &o
		if conn, _, err := c.Writer().Hijack(); err == nil && conn != nil {
			conn.Close()
		} else {
			obsNow = &ctxObs{Err: fmt.Sprint("Hijack failed over a writer that supports it: ", err)}
		}
	})
	rt.MustHandle("GET", "/sd", h)
	rt.MustHandle("GET", "/st/", h, fox.WithIgnoreTrailingSlash(true))
	rt.MustHandle("GET", "/iw/{x}/", hCloneWith, fox.WithIgnoreTrailingSlash(true))
	// a manual Lookup that matches only through a trailing slash: the context is bound to the route all the same
	rt.MustHandle("GET", "/tsl/{y}", func(c fox.Context) {
		inner, _ := newRequest("GET", cur+".example", "/i/"+cur, "q="+cur)
		inner.Header.Set("X-Req", cur)
		inner.RemoteAddr = c.Request().RemoteAddr
		rte, cc, tsr := c.Fox().Lookup(c.Writer(), inner)
		if rte == nil || cc == nil || !tsr {
			obsNow = &ctxObs{Err: fmt.Sprintf("Lookup through a trailing slash: route found %v, tsr %v", rte != nil, tsr)}
			return
		}
		o := observeCtx(cc)
		obsNow = &o
		cc.Close()
		dirty(c, cur)
	})
	// CloneWith around a writer of the caller's own type, then Clone of that copy before anything is written
	rt.MustHandle("GET", "/wc/{x}", func(c fox.Context) {
		cp := c.CloneWith(wrappedWriter{c.Writer()}, c.Request())
		o := observeCtx(cp)
		obsNow = &o
		c.Writer().Header().Set("X-Resp", cur)
		cl := cp.Clone()
		co := observeCtx(cl)
		cloneNow, cloneObs = cl, &co
		cp.Close()
		dirty(c, cur)
	})
	// the handler observes, then replaces the request and the writer of its context and reads the foreign query: the
	// getters follow the setters, and whoever gets this context next sees nothing of it
	rt.MustHandle("GET", "/sw/{x}", func(c fox.Context) {
		o := observeCtx(c)
		obsNow = &o
		foreign, _ := newRequest("GET", "foreign"+cur+".example", "/foreign/"+cur, "q=foreign"+cur)
		foreign.Header.Set("X-Req", "foreign"+cur)
		foreign.RemoteAddr = "198.51.100.9:1"
		ww := wrappedWriter{c.Writer()}
		c.SetRequest(foreign)
		c.SetWriter(ww)
		if c.Request() != foreign || c.Header("X-Req") != "foreign"+cur || c.Path() != "/foreign/"+cur || c.Host() != "foreign"+cur+".example" {
			obsNow.Err = "after SetRequest the context does not show the request it was given"
		}
		if got, ok := c.Writer().(wrappedWriter); !ok || got != ww {
			obsNow.Err = "after SetWriter the context does not show the writer it was given"
		}
		if ps := slices.Collect(c.Params()); len(ps) != 1 || ps[0].Value != cur || c.Route() == nil || c.Route().Pattern() != "/sw/{x}" {
			obsNow.Err = "SetRequest / SetWriter changed the route or the parameters of the context"
		}
		dirty(c, cur)
	})
	// a request without a query string: the handler writes into the values QueryParams gave it; nobody else sees them
	rt.MustHandle("GET", "/nq/{x}", func(c fox.Context) {
		o := observeCtx(c)
		obsNow = &o
		c.QueryParams().Set("q", cur)
		c.QueryParams().Add("session", cur)
		dirty(c, cur)
	})
	// an http.HandlerFunc behind WrapF: the request it gets carries the parameters of the current request, the writer is the
	// context's; the parameter list is a copy of its own (re-read after later requests)
	rt.MustHandle("GET", "/wf/{x}", func(c fox.Context) {
		o := observeCtx(c)
		obsNow = &o
		ran := false
		fox.WrapF(func(w http.ResponseWriter, r *http.Request) {
			ran = true
			ps := fox.ParamsFromContext(r.Context())
			paramsNow = ps
			if len(ps) != 1 || ps[0].Key != "x" || ps[0].Value != cur {
				obsNow.Err = fmt.Sprintf("parameters handed to the wrapped handler: %v", ps)
			}
			if r.URL.Path != "/wf/"+cur || r.Header.Get("X-Req") != cur || r.URL.Query().Get("q") != cur {
				obsNow.Err = "the wrapped handler got another request than the current one"
			}
			if w != http.ResponseWriter(c.Writer()) {
				obsNow.Err = "the wrapped handler got another writer than the context's"
			}
		})(c)
		if !ran {
			obsNow.Err = "the wrapped handler did not run"
		}
		dirty(c, cur)
	})
	// the handler routes its own request by hand through a read-only transaction
	rt.MustHandle("GET", "/tl/{y}", func(c fox.Context) {
		inner, _ := newRequest("GET", cur+".example", "/p/"+cur, "q="+cur)
		inner.Header.Set("X-Req", cur)
		inner.RemoteAddr = c.Request().RemoteAddr
		_ = c.Fox().View(func(txn *fox.Txn) error {
			rte, cc, _ := txn.Lookup(c.Writer(), inner)
			if rte == nil || cc == nil {
				obsNow = &ctxObs{Err: "Txn.Lookup found nothing"}
				return nil
			}
			o := observeCtx(cc)
			obsNow = &o
			cc.Close()
			return nil
		})
		dirty(c, cur)
	})
	// hostname routes switch the whole method tree to hostname mode (every request then goes through the hostname walk
	// first): they are registered only for sequences that use them, so that the other sequences exercise the path-only mode
	needsHost := false
	for _, st := range v.Steps {
		if st.Shape == "hostdirect" || st.Shape == "hosttsr" || st.Shape == "statichost" || st.Shape == "hostnomethod" {
			needsHost = true
		}
	}
	if needsHost {
		// POST only, a static label and a parameter label competing below a matched parameter label: a GET is answered 405,
		// and the Allow header is computed by walking these (first the static label, then back to the parameter)
		rt.MustHandle("POST", "{a}.foo.example/one/{x}", h)
		rt.MustHandle("POST", "{a}.{b}.example/two/{x}", h)
		rt.MustHandle("GET", "{h}.example/hd/{x}", h)
		rt.MustHandle("GET", "{h}.example/hi/{x}/", h, fox.WithIgnoreTrailingSlash(true))
		// a route below a static hostname: its handler routes another request by hand, through the hostname tree, while
		// its own context is in use; what it observes of its own request must be the same before and after
		rt.MustHandle("GET", "static.example/hs/{x}", func(c fox.Context) {
			before := observeCtx(c)
			for _, target := range []string{"/hd/", "/hi/", "/p/"} {
				inner, _ := newRequest("GET", "other"+cur+".example", target+"other"+cur, "q=other"+cur)
				if _, cc, _ := c.Fox().Lookup(c.Writer(), inner); cc != nil {
					_ = observeCtx(cc)
					cc.Close()
				}
			}
			after := observeCtx(c)
			if !sameObs(before, after) {
				after.Err = "the handler's own context changed while it routed another request by hand"
				obsNow = &after
			} else {
				obsNow = &before
			}
			dirty(c, cur)
		})
	}
	var kept []keptClone
	type keptParams struct {
		ps   fox.Params
		tok  string
		step int
	}
	var keptPs []keptParams
	var shapes []string
	for i, st := range v.Steps {
		cur = tokStr(run, st.Tok)
		shapes = append(shapes, st.Shape)
		if st.Replaced {
			rt.MustHandle("GET", fmt.Sprintf("/extra/%d/{a}/{b}/{c}", i), h) // a write: new tree, new context pool
		}
		method, path := "GET", ""
		switch st.Shape {
		case "direct":
			path = "/p/" + cur
		case "tsr":
			path = "/i/" + cur
		case "redirect":
			path = "/r/" + cur
		case "noroute":
			path = "/nope/" + cur
		case "nomethod":
			method, path = "POST", "/p/"+cur
		case "options":
			method, path = "OPTIONS", "/p/"+cur
		case "lookup":
			path = "/m/" + cur
		case "lookupclone":
			path = "/mc/" + cur
		case "clonewith":
			path = "/w/" + cur
		case "clone":
			path = "/c/" + cur
		case "tsrclone":
			path = "/ic/" + cur
		case "hostdirect":
			path = "/hd/" + cur
		case "hosttsr":
			path = "/hi/" + cur
		case "statichost":
			path = "/hs/" + cur
		case "hijack":
			path = "/hj/" + cur
		case "txnlookup":
			path = "/tl/" + cur
		case "staticdirect":
			path = "/sd"
		case "statictsr":
			path = "/st"
		case "tsrclonewith":
			path = "/iw/" + cur
		case "tsrlookup":
			path = "/tsl/" + cur
		case "wrapclone":
			path = "/wc/" + cur
		case "noquery":
			path = "/nq/" + cur
		case "infix":
			path = "/fx/" + cur + "/dl"
		case "hostnomethod":
			path = "/two/" + cur
		case "swapped":
			path = "/sw/" + cur
		case "wrapf":
			path = "/wf/" + cur
		case "directcopy":
			path = "/p/" + cur
		case "noroutecopy":
			path = "/nope/" + cur
		}
		host := cur + ".example"
		if st.Shape == "statichost" {
			host = "static.example"
		}
		query := "q=" + cur
		if st.Shape == "noquery" {
			query = ""
		}
		if st.Shape == "hostnomethod" {
			host = cur + ".foo.example"
		}
		req, _ := newRequest(method, host, path, query)
		req.Header.Set("X-Req", cur)
		if st.Shape == "directcopy" || st.Shape == "noroutecopy" {
			req.Header.Set("X-Copy", "1")
		}
		req.RemoteAddr = fmt.Sprintf("192.0.2.%d:4000", 10+i)
		obsNow, cloneNow, cloneObs, paramsNow = nil, nil, nil, nil
		panicked := any(nil)
		func() {
			defer func() { panicked = recover() }() // a panic of fox while it serves the request is a verdict, not a crash of the harness
			if st.Shape == "hijack" {
				rt.ServeHTTP(&hijackableWriter{plainWriter: newPlainWriter()}, req)
			} else {
				rt.ServeHTTP(newPlainWriter(), req)
			}
		}()
		cr.evals.Add(1)
		if panicked != nil {
			cr.r.violation(fmt.Sprintf("context shapes=%s step=%d panic while the request is served", strings.Join(shapes, ","), i+1), map[string]any{"kind": "behaviour",
				"shapes": shapes, "step": i + 1, "prescribed": "no panic", "obtained": fmt.Sprint(panicked)})
			return
		}
		want := expectFor(st.Expect, st.Shape, cur, 10+i)
		switch st.Shape {
		case "clonewith", "clone":
			want.Path = map[string]string{"clonewith": "/w/", "clone": "/c/"}[st.Shape] + cur
			want.Route = map[string]string{"clonewith": "/w/{x}", "clone": "/c/{x}"}[st.Shape]
		}
		report := func(what string, want, got any) {
			cr.r.violation(fmt.Sprintf("context shapes=%s step=%d %s", strings.Join(shapes, ","), i+1, what), map[string]any{"kind": "behaviour",
				"shapes": shapes, "step": i + 1, "what": what, "prescribed": want, "obtained": got})
		}
		if obsNow == nil {
			report("handler did not run", want, nil)
			return
		}
		if !sameObs(want, *obsNow) {
			report("observation in the handler", want, *obsNow)
		}
		if st.Clone {
			// the clone shows the current request; its writer state is the current writer's when cloned
			cw := want
			cw.RespHdr = cur
			if st.Shape == "clone" {
				cw.Path, cw.Route = "/c/"+cur, "/c/{x}"
			}
			if cloneObs == nil || !sameObs(cw, *cloneObs) {
				report("observation through the clone", cw, cloneObs)
			} else {
				kept = append(kept, keptClone{c: cloneNow, expect: cw, step: i + 1})
			}
		}
		for _, k := range keptPs {
			if len(k.ps) != 1 || k.ps[0].Key != "x" || k.ps[0].Value != k.tok {
				report(fmt.Sprintf("parameters handed to a wrapped handler at step %d re-read later", k.step), []string{k.tok}, fmt.Sprint(k.ps))
			}
		}
		if st.KeepParams && paramsNow != nil {
			keptPs = append(keptPs, keptParams{ps: paramsNow, tok: cur, step: i + 1})
		}
		// clones taken earlier must be unchanged after this request
		for _, k := range kept {
			if k.step == i+1 {
				continue
			}
			if got := observeCtx(k.c); !sameObs(k.expect, got) {
				report(fmt.Sprintf("clone taken at step %d re-read later", k.step), k.expect, got)
			}
		}
	}
}

func checkC12(r *Run) {
	maxLen := 3 // 28 shapes x with / without a tree replacement: about 160 000 sequences; length 4 would be 8.5 million
	gen := fmt.Sprintf("---- MODULE Gen_Context ----\nGenMaxLen == %d\n====\n", maxLen)
	model := r.runTLC(tlcOpts{Module: "MC_ContextModel", Gen: map[string]string{"Gen_Context.tla": gen}, Timeout: 5 * time.Minute})
	model.mustClean("MC_ContextModel")
	cr := &ctxReplayer{r: r}
	old := runtime.GOMAXPROCS(1) // one P: a context put back is the next one taken (maximal reuse)
	var n atomic.Int64
	res := r.runTLC(tlcOpts{Module: "MC_Context", Gen: map[string]string{"Gen_Context.tla": gen}, Timeout: pick(r, 5*time.Minute, 30*time.Minute),
		OnVec: func(b []byte) {
			var v ctxVec
			if err := json.Unmarshal(b, &v); err != nil {
				failTool("bad vector: %v", err)
			}
			k := n.Add(1)
			if k == 4321 {
				r.sample(v)
			}
			cr.runSeq(v, fmt.Sprintf("s%d", k))
		}})
	runtime.GOMAXPROCS(old)
	res.mustClean("MC_Context")
	r.addCov("states", res.Distinct+model.Distinct)
	r.addCov("transitions", res.Generated+model.Generated)
	r.addCov("sequential_behaviours_replayed", n.Load())
	// concurrent mix: the same shapes from 16 goroutines on one router
	var wg sync.WaitGroup
	var mu sync.Mutex
	var all []ctxVec
	resC := r.runTLC(tlcOpts{Module: "MC_Context", Tag: "c", Gen: map[string]string{"Gen_Context.tla": "---- MODULE Gen_Context ----\nGenMaxLen == 2\n====\n"}, Timeout: 5 * time.Minute,
		OnVec: func(b []byte) {
			var v ctxVec
			json.Unmarshal(b, &v)
			mu.Lock()
			all = append(all, v)
			mu.Unlock()
		}})
	resC.mustClean("MC_Context")
	for g := 0; g < 16; g++ {
		wg.Add(1)
		go func(g int) {
			defer wg.Done()
			for i := g; i < len(all); i += 16 {
				for rep := 0; rep < pick(r, 3, 20); rep++ {
					cr.runSeq(all[i], fmt.Sprintf("g%dq%dr%d", g, i, rep))
				}
			}
		}(g)
	}
	wg.Wait()
	r.addCov("traces_validated_against_impl", n.Load()+int64(len(all)*pick(r, 3, 20)))
	r.addCov("evaluations", cr.evals.Load())
	r.setCov("exhaustive", true)
	r.assumption("GOMAXPROCS(1) during the sequential replay makes the per-tree sync.Pool hand back the context just released")
	_ = http.MethodGet
}

func init() { register("C12", checkC12) }
