package main

import (
	"encoding/json"
	"fmt"
	"math/rand"
	"net/http"
	"net/url"
	"sort"
	"strings"
	"sync"
	"sync/atomic"
	"time"

	"github.com/tigerwill90/fox"
)

// ---- generated constants of MC_Serve -------------------------------------------------------------

type serveGen struct {
	Pool         []string
	EnumN        int
	EntryMethods []string
	ReqMethods   []string
	Paths        []string
	Host         string
	MaxTab       int
	Extra        [][][3]int // extra tables: entries <<method idx, pool idx, opt idx>> (1-based)
}

func (g *serveGen) tla() string {
	var sb strings.Builder
	sb.WriteString("---- MODULE Gen_Serve ----\n")
	fmt.Fprintf(&sb, "GenPool == %s\n", tlaSeqOfChars(g.Pool))
	fmt.Fprintf(&sb, "GenEnumN == %d\n", g.EnumN)
	fmt.Fprintf(&sb, "GenEntryMethods == %s\n", tlaSeqOfStr(g.EntryMethods))
	fmt.Fprintf(&sb, "GenReqMethods == %s\n", tlaSeqOfStr(g.ReqMethods))
	fmt.Fprintf(&sb, "GenPaths == %s\n", tlaSeqOfChars(g.Paths))
	fmt.Fprintf(&sb, "GenHost == %s\n", tlaChars(g.Host))
	fmt.Fprintf(&sb, "GenMaxTab == %d\n", g.MaxTab)
	var ts []string
	for _, t := range g.Extra {
		var es []string
		for _, e := range t {
			es = append(es, fmt.Sprintf("<<%d,%d,%d>>", e[0], e[1], e[2]))
		}
		ts = append(ts, "{"+strings.Join(es, ",")+"}")
	}
	fmt.Fprintf(&sb, "GenExtraTables == {%s}\n", strings.Join(ts, ", "))
	sb.WriteString("====\n")
	return sb.String()
}

var servePoolCore = []string{"/a", "/a/", "/{x}", "/{x}/", "/a/{x}/b", "/*{w}", "/a/b/", "/a/b", "/{x}/b", "/a/*{w}/", "/", "/ab"}
var servePaths = []string{"/", "/a", "/a/", "/a/b", "/a/b/", "/b", "/b/", "*", "/a/../b/", "/a/./b", "/a/b/b", "/a/b/b/", "/ab", "/ab/", "/a/../b", "/b/b", "/b/b/", "/a/a/b", "/a/a/b/"}

func newServeGen(r *Run, rng *rand.Rand) *serveGen {
	g := &serveGen{Host: "a.b", MaxTab: 2}
	pool := append([]string(nil), servePoolCore...)
	rng.Shuffle(len(pool), func(i, j int) { pool[i], pool[j] = pool[j], pool[i] })
	g.EnumN = pick(r, 6, 9)
	g.Pool = pool
	g.EntryMethods = []string{"GET", "POST", "OPTIONS", "CONNECT", "FOO"}
	g.ReqMethods = []string{"GET", "POST", "OPTIONS", "CONNECT", "FOO", "PUT"}
	if r.quick() {
		g.EntryMethods = []string{"GET", "POST", "OPTIONS", "CONNECT"}
		g.ReqMethods = []string{"GET", "POST", "OPTIONS", "CONNECT", "FOO"}
	}
	paths := append([]string(nil), servePaths...)
	g.Paths = paths[:pick(r, 15, len(paths))]
	// random larger tables (3 to 5 entries); TLC drops those that are not conflict-free
	n := pick(r, 300, 3000)
	for i := 0; i < n; i++ {
		k := 3 + rng.Intn(3)
		var t [][3]int
		for j := 0; j < k; j++ {
			t = append(t, [3]int{1 + rng.Intn(len(g.EntryMethods)), 1 + rng.Intn(len(g.Pool)), 1 + rng.Intn(3)})
		}
		g.Extra = append(g.Extra, t)
	}
	return g
}

// hostname mode: a static host and overlapping parameter hosts above short paths, the same path with and without a
// trailing slash below different hosts (the per-method lookups behind Allow walk the hostname tree too)
var servePoolHost = []string{"a.b/a", "a.b/a/", "{h}.b/a", "{h}.b/a/", "a.b/{x}", "/a", "/a/", "a.{g}/a", "{h}.b/*{w}", "a.b/", "/{x}/"}

func newServeGenHost(r *Run, rng *rand.Rand) *serveGen {
	g := &serveGen{Host: "a.b", MaxTab: 2}
	pool := append([]string(nil), servePoolHost...)
	rng.Shuffle(len(pool), func(i, j int) { pool[i], pool[j] = pool[j], pool[i] })
	g.EnumN = pick(r, 6, 9)
	g.Pool = pool
	g.EntryMethods = []string{"GET", "HEAD", "OPTIONS"} // HEAD is a method like any other (redirected with 308, listed in Allow)
	g.ReqMethods = []string{"GET", "HEAD", "OPTIONS", "POST"}
	g.Paths = []string{"/", "/a", "/a/", "/b", "/b/", "/a/b", "*"}
	n := pick(r, 200, 2000)
	for i := 0; i < n; i++ {
		k := 3 + rng.Intn(2)
		var t [][3]int
		for j := 0; j < k; j++ {
			t = append(t, [3]int{1 + rng.Intn(len(g.EntryMethods)), 1 + rng.Intn(len(g.Pool)), 1 + rng.Intn(3)})
		}
		g.Extra = append(g.Extra, t)
	}
	return g
}

// ---- observed reply of the real router ------------------------------------------------------------

type serveReply struct {
	Kind     string      `json:"kind"` // route, redirect, options, nomethod, noroute
	Route    string      `json:"route,omitempty"`
	Params   [][2]string `json:"params,omitempty"`
	Code     int         `json:"code,omitempty"`
	Target   string      `json:"target,omitempty"`   // resolved Location path
	Query    string      `json:"query,omitempty"`    // resolved Location query
	Allow    []string    `json:"allow,omitempty"`    // as a sorted set
	Optional []string    `json:"optional,omitempty"` // prescribed only: methods that may additionally be listed
	Amb      bool        `json:"amb,omitempty"`      // prescribed only: noroute is acceptable too
	CtxErr   string      `json:"ctx_err,omitempty"`  // obtained only: what the context wrongly exposed
}

func scopeName(s fox.HandlerScope) string {
	switch s {
	case fox.RouteHandler:
		return "route"
	case fox.NoRouteHandler:
		return "noroute"
	case fox.NoMethodHandler:
		return "nomethod"
	case fox.RedirectHandler:
		return "redirect"
	case fox.OptionsHandler:
		return "options"
	}
	return fmt.Sprintf("scope(%d)", s)
}

func splitAllow(h string) []string {
	var out []string
	seen := map[string]bool{}
	for _, p := range strings.Split(h, ",") {
		p = strings.TrimSpace(p)
		if p != "" && !seen[p] {
			seen[p] = true
			out = append(out, p)
		}
	}
	sort.Strings(out)
	return out
}

// redirectProbe is a middleware for the redirect scope that captures what the context shows there.
func redirectProbe(next fox.HandlerFunc) fox.HandlerFunc {
	return func(c fox.Context) {
		if cp := capOf(c); cp != nil {
			cp.ran++
			cp.handler = "redirect"
			cp.pattern = c.Pattern()
			cp.params = paramsOf(c)
			cp.scope = c.Scope()
			cp.route = c.Route()
		}
		next(c)
	}
}

type serveEntry struct {
	Method, Pattern, Opt string
}

// serveViaCopy: when set, a middleware in front of every handler hands a CloneWith copy of the context down the chain
// (routes and special handlers then work on a recycled copy).
var serveViaCopy atomic.Bool

func buildServeRouter(entries []serveEntry, order []int, noMethod, autoOptions bool, useGlobal string) (*fox.Router, error) {
	opts := []fox.GlobalOption{
		fox.WithNoRouteHandler(specialHandler("noroute", 404)),
		fox.WithMiddlewareFor(fox.RedirectHandler, redirectProbe),
	}
	if serveViaCopy.Load() {
		opts = append([]fox.GlobalOption{fox.WithMiddleware(func(next fox.HandlerFunc) fox.HandlerFunc {
			return func(c fox.Context) {
				cp := c.CloneWith(c.Writer(), c.Request())
				defer cp.Close()
				next(cp)
			}
		})}, opts...)
	}
	if noMethod {
		opts = append(opts, fox.WithNoMethodHandler(specialHandler("nomethod", 405)))
	}
	if autoOptions {
		opts = append(opts, fox.WithOptionsHandler(specialHandler("options", 200)))
	}
	switch useGlobal {
	case "ign":
		opts = append(opts, fox.WithIgnoreTrailingSlash(true))
	case "red":
		opts = append(opts, fox.WithRedirectTrailingSlash(true))
	}
	r, err := fox.New(opts...)
	if err != nil {
		return nil, err
	}
	for _, i := range order {
		e := entries[i]
		var ro []fox.RouteOption
		if e.Opt != useGlobal {
			switch e.Opt {
			case "ign":
				ro = append(ro, fox.WithIgnoreTrailingSlash(true))
			case "red":
				ro = append(ro, fox.WithRedirectTrailingSlash(true))
			case "none":
				ro = append(ro, fox.WithIgnoreTrailingSlash(false), fox.WithRedirectTrailingSlash(false))
			}
		}
		if _, err := r.Handle(e.Method, e.Pattern, routeHandler(e.Method+" "+e.Pattern), ro...); err != nil {
			return nil, fmt.Errorf("Handle(%s %s): %w", e.Method, e.Pattern, err)
		}
	}
	return r, nil
}

// observeServe sends one request through ServeHTTP and projects what happened.
func observeServe(r *fox.Router, method, host, path, rawQuery string) serveReply {
	req, cp := newRequest(method, host, path, rawQuery)
	w := newPlainWriter()
	r.ServeHTTP(w, req)
	var rep serveReply
	ctxCheck := func(wantScope string) {
		var errs []string
		if cp.route != nil {
			errs = append(errs, "Route()!=nil")
		}
		if cp.pattern != "" {
			errs = append(errs, "Pattern()="+cp.pattern)
		}
		if len(cp.params) != 0 {
			errs = append(errs, fmt.Sprintf("Params()=%v", cp.params))
		}
		if scopeName(cp.scope) != wantScope {
			errs = append(errs, "Scope()="+scopeName(cp.scope))
		}
		rep.CtxErr = strings.Join(errs, "; ")
	}
	switch {
	case cp.ran == 0:
		rep.Kind = "nothing-ran"
	case cp.ran > 1:
		rep.Kind = fmt.Sprintf("%d handlers ran", cp.ran)
	case cp.handler == "noroute":
		rep.Kind = "noroute"
		ctxCheck("noroute")
	case cp.handler == "nomethod":
		rep.Kind = "nomethod"
		rep.Allow = splitAllow(w.h.Get("Allow"))
		ctxCheck("nomethod")
	case cp.handler == "options":
		rep.Kind = "options"
		rep.Allow = splitAllow(w.h.Get("Allow"))
		ctxCheck("options")
	case cp.handler == "redirect":
		rep.Kind = "redirect"
		rep.Code = w.status
		ctxCheck("redirect")
		loc := w.h.Get("Location")
		base := &url.URL{Scheme: "http", Host: "h", Path: path, RawQuery: rawQuery}
		if req.URL.RawPath != "" {
			base.RawPath = req.URL.RawPath
		}
		u, err := url.Parse(loc)
		if err != nil {
			rep.Target = "<unparsable Location " + loc + ">"
		} else {
			res := base.ResolveReference(u)
			if res.Host != "h" || res.Scheme != "http" {
				rep.Target = "<absolute Location " + loc + ">"
			} else {
				rep.Target = res.EscapedPath()
				if req.URL.RawPath == "" {
					rep.Target = res.Path
				}
				rep.Query = res.RawQuery
			}
		}
	default:
		rep.Kind = "route"
		rep.Route = cp.handler
		rep.Params = cp.params
		var errs []string
		if cp.route == nil || method+" "+cp.pattern != cp.handler {
			errs = append(errs, "Pattern()="+cp.pattern)
		}
		if scopeName(cp.scope) != "route" {
			errs = append(errs, "Scope()="+scopeName(cp.scope))
		}
		rep.CtxErr = strings.Join(errs, "; ")
	}
	return rep
}

func subset(a, b []string) bool {
	m := map[string]bool{}
	for _, x := range b {
		m[x] = true
	}
	for _, x := range a {
		if !m[x] {
			return false
		}
	}
	return true
}

// replyAgrees: does the obtained reply satisfy the prescribed one?
func replyAgrees(presc, got serveReply, query string) bool {
	if got.CtxErr != "" {
		return false
	}
	if presc.Amb && got.Kind == "noroute" {
		return true
	}
	if presc.Kind != got.Kind {
		return false
	}
	switch presc.Kind {
	case "route":
		return presc.Route == got.Route && sameParams(presc.Params, got.Params)
	case "redirect":
		return presc.Code == got.Code && presc.Target == got.Target && got.Query == query
	case "options", "nomethod":
		// required methods present, nothing beyond required + optional
		return subset(presc.Allow, got.Allow) && subset(got.Allow, append(append([]string{}, presc.Allow...), presc.Optional...))
	}
	return true
}

// owner attributes a disagreement to the property that states the violated rule.
func replyOwner(presc, got serveReply) string {
	isTS := func(r serveReply) bool { return r.Kind == "redirect" }
	if presc.Kind == got.Kind && got.Kind != "route" && got.CtxErr != "" {
		if isTS(got) {
			return "both" // C08 (the redirect itself) and C11 (what the redirect handler's context exposes)
		}
		return "C11" // the right special handler ran, but its context exposes a route, a pattern or parameters
	}
	if isTS(presc) || isTS(got) {
		return "C08"
	}
	if presc.Kind != "route" && got.Kind != "route" {
		return "C11"
	}
	return "C08" // a route served or not served through the trailing-slash rule
}

type serveVec struct {
	T  [][]any `json:"t"`
	N  int     `json:"n"`
	Pr [][]any `json:"pr"`
}

func strList(v any) []string {
	var out []string
	for _, x := range v.([]any) {
		out = append(out, x.(string))
	}
	sort.Strings(out)
	return out
}

type serveReplayer struct {
	r       *Run
	g       *serveGen
	owner   string // "C08", "C11" or "" for all
	tables  atomic.Int64
	replies atomic.Int64
	special atomic.Int64
	kinds   [5]atomic.Int64
}

func (s *serveReplayer) replay(v serveVec, rng *rand.Rand) {
	s.r.guard(fmt.Sprintf("dispatch replay of table %v", v.T), func() map[string]any { return map[string]any{"table": v.T} }, func() { s.replayTable(v, rng) })
}

func (s *serveReplayer) replayTable(v serveVec, rng *rand.Rand) {
	entries := make([]serveEntry, len(v.T))
	sameOpt := true
	for i, e := range v.T {
		entries[i] = serveEntry{Method: e[0].(string), Pattern: s.g.Pool[int(e[1].(float64))-1], Opt: e[2].(string)}
		if entries[i].Opt != entries[0].Opt {
			sameOpt = false
		}
	}
	// prescribed replies indexed by (cfg, method, path)
	presc := map[[3]int]serveReply{}
	for _, p := range v.Pr {
		k := [3]int{int(p[0].(float64)), int(p[1].(float64)), int(p[2].(float64))}
		var rep serveReply
		switch int(p[3].(float64)) {
		case 1:
			e := entries[int(p[4].(float64))-1]
			rep = serveReply{Kind: "route", Route: e.Method + " " + e.Pattern}
			for _, kv := range p[6].([]any) {
				a := kv.([]any)
				rep.Params = append(rep.Params, [2]string{a[0].(string), a[1].(string)})
			}
		case 2:
			rep = serveReply{Kind: "redirect", Code: int(p[4].(float64)), Target: p[5].(string)}
		case 3:
			rep = serveReply{Kind: "options", Allow: strList(p[4]), Optional: strList(p[5]), Amb: p[6].(float64) == 1}
		case 4:
			rep = serveReply{Kind: "nomethod", Allow: strList(p[4]), Optional: strList(p[5]), Amb: p[6].(float64) == 1}
		}
		presc[k] = rep
	}
	s.tables.Add(1)
	tableDesc := make([]string, len(entries))
	for i, e := range entries {
		tableDesc[i] = e.Method + " " + e.Pattern + " [" + e.Opt + "]"
	}
	for c := 1; c <= 4; c++ {
		noMethod := c == 2 || c == 4
		autoOptions := c == 3 || c == 4
		useGlobal := ""
		if sameOpt && rng.Intn(2) == 0 {
			useGlobal = entries[0].Opt // the mode comes from the router-wide option instead of a route option
		}
		rt, err := buildServeRouter(entries, rng.Perm(len(entries)), noMethod, autoOptions, useGlobal)
		if err != nil {
			s.r.violation(fmt.Sprintf("serve build table=%v", tableDesc), map[string]any{"table": tableDesc, "prescribed": "table accepted", "obtained": err.Error()})
			return
		}
		for mi, m := range s.g.ReqMethods {
			for pi, path := range s.g.Paths {
				want, ok := presc[[3]int{c, mi + 1, pi + 1}]
				if !ok {
					want = serveReply{Kind: "noroute"}
				}
				query := ""
				if rng.Intn(2) == 0 {
					query = "q=1&r=%2F"
				}
				// FoxServe's reply is an operator of (table, configuration, request): what the same router answered
				// before - the same method and path asked with other Hosts - must not matter
				if s.g.Host != "" && rng.Intn(2) == 0 {
					for _, foreign := range []string{"b.b", "x.y", ""} {
						observeServe(rt, m, foreign, path, "")
					}
				}
				got := observeServe(rt, m, s.g.Host, path, query)
				s.replies.Add(1)
				switch want.Kind {
				case "route":
					s.kinds[0].Add(1)
				case "redirect":
					s.kinds[1].Add(1)
				case "options":
					s.kinds[2].Add(1)
				case "nomethod":
					s.kinds[3].Add(1)
				default:
					s.kinds[4].Add(1)
				}
				if !replyAgrees(want, got, query) {
					if own := replyOwner(want, got); s.owner == "" || own == s.owner || own == "both" {
						sorted := append([]string(nil), tableDesc...)
						sort.Strings(sorted)
						key := fmt.Sprintf("serve table=%s noMethod=%v autoOptions=%v req=%s %q", strings.Join(sorted, " | "), noMethod, autoOptions, m, path)
						s.r.violation(key, map[string]any{"kind": "vector", "entry_point": "ServeHTTP", "table": tableDesc,
							"noMethod": noMethod, "autoOptions": autoOptions, "global_ts_option": useGlobal,
							"method": m, "host": s.g.Host, "path": path, "query": query, "prescribed": want, "obtained": got})
					}
				}
			}
		}
	}
}

func runServeD1(r *Run, g *serveGen, owner string, timeout time.Duration) {
	s := &serveReplayer{r: r, g: g, owner: owner}
	ch := make(chan serveVec, 256)
	done := make(chan struct{})
	var ctr atomic.Int64
	go func() {
		defer close(done)
		sem := make(chan struct{}, 8)
		for v := range ch {
			sem <- struct{}{}
			go func(v serveVec) {
				defer func() { <-sem }()
				s.replay(v, rand.New(rand.NewSource(r.Seed*7919+ctr.Add(1))))
			}(v)
		}
		for i := 0; i < cap(sem); i++ {
			sem <- struct{}{}
		}
	}()
	var nsample atomic.Int64
	res := r.runTLC(tlcOpts{
		Module:  "MC_Serve",
		Gen:     map[string]string{"Gen_Serve.tla": g.tla()},
		Timeout: timeout,
		OnVec: func(b []byte) {
			var v serveVec
			if err := json.Unmarshal(b, &v); err != nil {
				failTool("bad vector from TLC: %v", err)
			}
			if len(v.Pr) > 2 && nsample.Add(1) <= 2 {
				r.sample(map[string]any{"table": v.T, "requests": v.N, "non_404_replies": len(v.Pr), "one_reply": v.Pr[len(v.Pr)/2],
					"reply_format": "[cfg, method, path, kind(1 route,2 redirect,3 options,4 nomethod), ...]"})
			}
			ch <- v
		},
	})
	close(ch)
	<-done
	res.mustClean("MC_Serve")
	r.addCov("states", res.Distinct)
	r.addCov("transitions", res.Generated)
	r.addCov("traces_validated_against_impl", s.tables.Load())
	r.addCov("serve_tables_replayed", s.tables.Load())
	r.addCov("serve_replies_compared", s.replies.Load())
	r.addCov("evaluations", s.replies.Load())
	r.addCov("prescribed_route", s.kinds[0].Load())
	r.addCov("prescribed_redirect", s.kinds[1].Load())
	r.addCov("prescribed_options", s.kinds[2].Load())
	r.addCov("prescribed_nomethod", s.kinds[3].Load())
	r.addCov("prescribed_noroute", s.kinds[4].Load())
	for i, n := range []string{"route", "redirect", "options", "nomethod", "noroute"} {
		if s.kinds[i].Load() == 0 {
			failTool("vacuous run: no request with prescribed reply kind %q", n)
		}
	}
	_ = http.MethodGet
}

// ---- D2 for C08/C11: requests with plain and percent-encoded paths, validated by Obs_Serve -------------------

func decodedSegments(escaped string) ([]string, bool) {
	parts := strings.Split(escaped, "/")
	out := make([]string, len(parts))
	for i, p := range parts {
		u, err := url.PathUnescape(p)
		if err != nil {
			return nil, false
		}
		out[i] = u
	}
	return out, true
}

// runeChars splits a string into one-"character" strings rune by rune (a multi-byte rune is an opaque atom
// for the specification: the matcher only ever inspects '/', '.', '{', '*').
func runeChars(s string) []string {
	out := []string{}
	for _, rn := range s {
		out = append(out, runeAtom(rn))
	}
	return out
}

// runeAtom names one "character" of the specification: ASCII bytes stand for themselves, any other rune is
// an opaque atom with an ASCII name (generated .tla modules and TLC's file decoding stay ASCII-only).
func runeAtom(rn rune) string {
	if rn < 128 {
		return string(rn)
	}
	return fmt.Sprintf("u%04x", rn)
}

// runServeDirtyStatic: static routes whose patterns are not in canonical form (nothing forbids registering
// them). A request equal to such a pattern up to the trailing slash has a slash-adjusted match, but its path
// is not clean, so no redirect may be issued (C08, C17).
func runServeDirtyStatic(r *Run, rng *rand.Rand) {
	// ... and clean ones whose segments merely begin with dots (".w", "...", "..p" are ordinary segments): the
	// slash-adjusted request is clean, so the redirect is due
	patterns := []string{"/a//b/", "/a/../b/", "/c/./d", "/e//f", "/g/h/", "/k/..", "/m/./", "/.w/x/", "/n/.b", "/q/.../", "/o/..p", "/r/.../s/"}
	rt, err := fox.New(fox.WithRedirectTrailingSlash(true), fox.WithMiddlewareFor(fox.RedirectHandler, redirectProbe), fox.WithNoRouteHandler(specialHandler("noroute", 404)))
	if err != nil {
		failTool("fox.New: %v", err)
	}
	var table []string
	idx := map[string]int{}
	for _, m := range []string{"GET", "POST"} {
		for _, p := range patterns {
			rt.MustHandle(m, p, routeHandler(m+" "+p))
			table = append(table, fmt.Sprintf("[m |-> %s, pat |-> %s, opt |-> \"red\"]", tlaStr(m), tlaChars(p)))
			idx[m+" "+p] = len(table)
		}
	}
	gen := fmt.Sprintf("---- MODULE Gen_ObsServe ----\nGenTable == <<%s>>\nGenCfg == [noMethod |-> FALSE, autoOptions |-> FALSE]\nGenHost == %s\n====\n",
		strings.Join(table, ",\n  "), tlaChars("h.example"))
	var obs []map[string]any
	var desc []string
	for _, m := range []string{"GET", "POST"} {
		for _, p := range patterns {
			for _, path := range []string{p, strings.TrimSuffix(p, "/"), p + "/"} {
				if path == "" {
					continue
				}
				req, cp := newRequest(m, "h.example", path, "")
				w := newPlainWriter()
				rt.ServeHTTP(w, req)
				o := map[string]any{"m": m, "path": runeChars(path), "query": "", "kind": "", "route": 0, "params": [][][]string{}, "code": w.status,
					"routed": strings.Split(path, "/"), "resolved": []string{}, "resolvedquery": ""}
				switch {
				case cp.ran != 1:
					o["kind"] = fmt.Sprintf("%d handlers ran", cp.ran)
				case cp.handler == "redirect":
					o["kind"] = "redirect"
					base := &url.URL{Scheme: "http", Host: "h.example", Path: path}
					if lu, e := url.Parse(w.h.Get("Location")); e == nil {
						o["resolved"] = strings.Split(base.ResolveReference(lu).Path, "/")
					}
				case cp.handler == "noroute":
					o["kind"] = "noroute"
				default:
					o["kind"] = "route"
					o["route"] = idx[cp.handler]
				}
				obs = append(obs, o)
				desc = append(desc, fmt.Sprintf("%s %s -> %v (Location %q)", m, path, o["kind"], w.h.Get("Location")))
			}
		}
	}
	rejected := map[int]json.RawMessage{}
	var mu sync.Mutex
	res := r.runTLC(tlcOpts{Module: "Obs_Serve", Tag: "dirty", Gen: map[string]string{"Gen_ObsServe.tla": gen}, Files: map[string]string{"obs.ndjson": obsFile(obs)},
		Timeout: 5 * time.Minute,
		OnVec: func(b []byte) {
			var v struct {
				I    int             `json:"i"`
				Want json.RawMessage `json:"want"`
			}
			if json.Unmarshal(b, &v) == nil {
				mu.Lock()
				rejected[v.I] = v.Want
				mu.Unlock()
			}
		}})
	res.mustClean("Obs_Serve (non-canonical static routes)")
	for i, want := range rejected {
		r.violation(fmt.Sprintf("serve-trace non-canonical route: %s", desc[i-1]), map[string]any{"kind": "trace", "request": desc[i-1], "prescribed": want, "obtained": obs[i-1]})
	}
	r.addCov("non_canonical_route_requests_validated", int64(len(obs)))
	r.addCov("traces_validated_against_impl", int64(len(obs)))
}

func runServeD2(r *Run, rng *rand.Rand, owner string) {
	patterns := []string{"/{x}/", "/d/{x}", "/e/{x}/{y}/", "/s/*{w}/end", "/t/{x}/end/", "/i/{x}/"}
	methods := []string{"GET", "POST", "CONNECT"}
	noMethod, autoOptions := rng.Intn(2) == 0, rng.Intn(2) == 0
	opts := []fox.GlobalOption{fox.WithRedirectTrailingSlash(true), fox.WithMiddlewareFor(fox.RedirectHandler, redirectProbe),
		fox.WithNoRouteHandler(specialHandler("noroute", 404))}
	if noMethod {
		opts = append(opts, fox.WithNoMethodHandler(specialHandler("nomethod", 405)))
	}
	if autoOptions {
		opts = append(opts, fox.WithOptionsHandler(specialHandler("options", 200)))
	}
	rt, err := fox.New(opts...)
	if err != nil {
		failTool("fox.New: %v", err)
	}
	var table []string
	idx := map[string]int{}
	for _, m := range methods {
		for _, p := range patterns {
			opt := "red"
			var ro []fox.RouteOption
			if strings.HasPrefix(p, "/i/") && m != "CONNECT" {
				opt = "ign"
				ro = append(ro, fox.WithIgnoreTrailingSlash(true))
			}
			if m == "POST" && p == "/d/{x}" {
				continue // a path served for GET only, so that 405 occurs
			}
			rt.MustHandle(m, p, routeHandler(m+" "+p), ro...)
			table = append(table, fmt.Sprintf("[m |-> %s, pat |-> %s, opt |-> %s]", tlaStr(m), tlaChars(p), tlaStr(opt)))
			idx[m+" "+p] = len(table)
		}
	}
	gen := fmt.Sprintf("---- MODULE Gen_ObsServe ----\nGenTable == <<%s>>\nGenCfg == [noMethod |-> %s, autoOptions |-> %s]\nGenHost == %s\n====\n",
		strings.Join(table, ",\n  "), tlaBool(noMethod), tlaBool(autoOptions), tlaChars("h.example"))
	segs := []string{"a", "a:b", "https:evil.com", "12:30", ":id", "::1", "_x:y", "1:", ":", "-a:b", "%20a:b", "a?b", "a#b", "a%b", "a b", "é", "a/b", "日本", "a;b", "a=b&c", "..", ".", "a%2fb", "@", "//x", "a\\b", "%", "?", "#", "end", "d"}
	var obs []map[string]any
	var desc []string
	kinds := map[string]int{}
	n := pick(r, 2500, 30000)
	for k := 0; k < n; k++ {
		seg := func() string { return segs[rng.Intn(len(segs))] }
		var rawSegs []string
		switch rng.Intn(7) {
		case 0:
			rawSegs = []string{"", seg()}
		case 1:
			rawSegs = []string{"", "d", seg(), ""}
		case 2:
			rawSegs = []string{"", "e", seg(), seg()}
		case 3:
			rawSegs = []string{"", "s", seg(), seg(), "end", ""}
		case 4:
			rawSegs = []string{"", "i", seg()}
		case 5:
			rawSegs = []string{"", "d", seg()}
		default:
			rawSegs = []string{"", "t", seg(), "end"}
		}
		esc := make([]string, len(rawSegs))
		for i, sg := range rawSegs {
			esc[i] = url.PathEscape(sg)
		}
		escaped := strings.Join(esc, "/")
		u, perr := url.ParseRequestURI(escaped)
		if perr != nil {
			continue
		}
		method := []string{"GET", "POST", "GET", "CONNECT", "OPTIONS", "PUT"}[rng.Intn(6)]
		query := []string{"", "q=1", "a=b&c=%2F", "x=%3F"}[rng.Intn(4)]
		req, cp := newRequest(method, "h.example", u.Path, query)
		req.URL.RawPath = u.RawPath
		routed := u.Path
		if u.RawPath != "" {
			routed = u.RawPath
		}
		if strings.Contains(routed, "//") {
			continue // empty segments are outside the routing properties
		}
		w := newPlainWriter()
		rt.ServeHTTP(w, req)
		o := map[string]any{"m": method, "path": runeChars(routed), "query": query, "kind": "", "route": 0, "params": [][][]string{}, "code": w.status,
			"routed": []string{}, "resolved": []string{}, "resolvedquery": ""}
		switch {
		case cp.ran != 1:
			o["kind"] = fmt.Sprintf("%d handlers ran", cp.ran)
		case cp.handler == "redirect":
			o["kind"] = "redirect"
			base := &url.URL{Scheme: "http", Host: "h.example", Path: u.Path, RawPath: u.RawPath, RawQuery: query}
			loc := w.h.Get("Location")
			resolved := []string{"<unparsable Location>"}
			rq := "<unparsable>"
			if lu, e := url.Parse(loc); e == nil {
				res := base.ResolveReference(lu)
				if res.Host == "h.example" && res.Scheme == "http" {
					if sg, ok := decodedSegments(res.EscapedPath()); ok {
						resolved = sg
					} else {
						resolved = []string{"<undecodable>"}
					}
					rq = res.RawQuery
				} else {
					resolved = []string{"<absolute: " + res.String() + ">"}
				}
			}
			var routedSegs []string
			if u.RawPath != "" {
				routedSegs, _ = decodedSegments(routed)
			} else {
				routedSegs = strings.Split(routed, "/")
			}
			o["routed"], o["resolved"], o["resolvedquery"] = routedSegs, resolved, rq
		case cp.handler == "noroute" || cp.handler == "nomethod" || cp.handler == "options":
			o["kind"] = cp.handler
		default:
			o["kind"] = "route"
			o["route"] = idx[cp.handler]
			ps := [][][]string{}
			for _, kv := range cp.params {
				ps = append(ps, [][]string{runeChars(kv[0]), runeChars(kv[1])})
			}
			o["params"] = ps
		}
		kinds[o["kind"].(string)]++
		obs = append(obs, o)
		desc = append(desc, fmt.Sprintf("%s %s?%s -> %v (Location %q)", method, routed, query, o["kind"], w.h.Get("Location")))
	}
	for _, k := range []string{"route", "redirect", "noroute"} {
		if kinds[k] == 0 {
			failTool("serve driver produced no %s reply", k)
		}
	}
	rejected := map[int]json.RawMessage{}
	var mu sync.Mutex
	res := r.runTLC(tlcOpts{Module: "Obs_Serve", Gen: map[string]string{"Gen_ObsServe.tla": gen}, Files: map[string]string{"obs.ndjson": obsFile(obs)},
		Timeout: pick(r, 5*time.Minute, 30*time.Minute),
		OnVec: func(b []byte) {
			var v struct {
				I    int             `json:"i"`
				Want json.RawMessage `json:"want"`
			}
			if json.Unmarshal(b, &v) == nil {
				mu.Lock()
				rejected[v.I] = v.Want
				mu.Unlock()
			}
		}})
	res.mustClean("Obs_Serve")
	if res.Distinct < 2*int64(len(obs)) {
		failTool("Obs_Serve examined %d of %d observations", res.Distinct/2, len(obs))
	}
	ids := make([]int, 0, len(rejected))
	for i := range rejected {
		ids = append(ids, i)
	}
	sort.Ints(ids)
	seen := map[string]bool{}
	for _, i := range ids {
		o := obs[i-1]
		var want struct {
			Kind string `json:"kind"`
		}
		json.Unmarshal(rejected[i], &want)
		own := "C08"
		special := func(k string) bool { return k == "noroute" || k == "nomethod" || k == "options" }
		if special(want.Kind) && special(o["kind"].(string)) {
			own = "C11"
		}
		if owner != "" && own != owner {
			continue
		}
		key := fmt.Sprintf("serve-trace %s path=%q", o["m"], strings.Join(o["path"].([]string), ""))
		if seen[key] {
			continue
		}
		seen[key] = true
		r.violation(key, map[string]any{"kind": "trace", "request": desc[i-1], "noMethod": noMethod, "autoOptions": autoOptions,
			"prescribed": json.RawMessage(rejected[i]), "obtained": o})
	}
	r.addCov("served_requests_recorded_and_validated", int64(len(obs)))
	r.addCov("recorded_redirects", int64(kinds["redirect"]))
	r.addCov("traces_validated_against_impl", int64(len(obs)))
}

// CONNECT and the trailing slash (FoxServe!Reply: tsrOK requires req.m # "CONNECT"): a CONNECT request that matches a
// route only after a slash is added or removed is treated as unmatched, whatever the route's trailing-slash option;
// a direct match is served. MC_Serve leaves CONNECT routes that ignore trailing slashes out of its tables because of
// what Allow should list for OTHER methods in that corner (DESIGN.md 13.3, 12); for CONNECT requests themselves
// nothing is open, so they are replayed here over CONNECT-only tables.
func runConnectTsr(r *Run) {
	pats := []string{"/t/{id}", "/t/{id}/", "/s", "/s2/", "/c/*{w}", "/c2/*{w}/", "h.example/t/{id}"}
	for _, opt := range []string{"ign", "red", "none"} {
		for _, global := range []bool{false, true} {
			var gopts []fox.GlobalOption
			gopts = append(gopts, fox.WithNoRouteHandler(specialHandler("noroute", 404)), fox.WithNoMethod(true), fox.WithAutoOptions(true))
			if global && opt == "ign" {
				gopts = append(gopts, fox.WithIgnoreTrailingSlash(true))
			} else if global && opt == "red" {
				gopts = append(gopts, fox.WithRedirectTrailingSlash(true))
			}
			rt, err := fox.New(gopts...)
			if err != nil {
				failTool("fox.New: %v", err)
			}
			for _, p := range pats {
				var ro []fox.RouteOption
				if !global && opt == "ign" {
					ro = append(ro, fox.WithIgnoreTrailingSlash(true))
				} else if !global && opt == "red" {
					ro = append(ro, fox.WithRedirectTrailingSlash(true))
				}
				if _, err := rt.Handle("CONNECT", p, routeHandler(p), ro...); err != nil {
					failTool("CONNECT route %s: %v", p, err)
				}
			}
			for _, q := range []struct {
				host, path, direct string
			}{
				{"", "/t/42", "/t/{id}"}, {"", "/t/42/", "/t/{id}/"}, {"", "/s", "/s"}, {"", "/s/", ""}, {"", "/s2", ""}, {"", "/s2/", "/s2/"},
				{"", "/c/a/b", "/c/*{w}"}, {"", "/c2/a/b/", "/c2/*{w}/"}, {"", "/c2/a/b", ""}, {"h.example", "/t/42", "h.example/t/{id}"}, {"h.example", "/t/42/", ""}, // a slash-adjusted match below the matching host wins over the path-only route, and is unmatched for CONNECT
			} {
				got, _, w := obtainServe(rt, "CONNECT", q.host, q.path)
				r.addCov("connect_requests_replayed", 1)
				if got.Route != q.direct || (q.direct == "" && w.status >= 300 && w.status < 400) {
					r.violation(fmt.Sprintf("serve CONNECT host=%q path=%q option=%s global=%v", q.host, q.path, opt, global), map[string]any{"kind": "vector", "routes": pats, "option": opt, "router_wide": global,
						"prescribed": map[string]any{"served_by": q.direct, "note": "a CONNECT request is served by a direct match only; never redirected"},
						"obtained":   map[string]any{"served_by": got.Route, "status": w.status}})
				}
			}
		}
	}
}
