//go:build verif

package main

import (
	"encoding/json"
	"fmt"
	"math/rand"
	"os"
	"path/filepath"
	"strings"
	"time"

	"github.com/tigerwill90/fox"
)

// selftestHooks: the parts of the self-test that need the hook build.
//   - the deliberately wrong protocol variants of FoxConc must be refuted by TLC (the invariants bite);
//   - a recorded stress trace is accepted, the same trace with one hook event removed, or with one read
//     result altered, is rejected (the trace specification is bound to what was recorded).
func selftestHooks(r *Run, report func(name string, ok bool, detail string)) {
	rng := rand.New(rand.NewSource(r.Seed))
	for _, broken := range []string{"loadfirst", "unlockfirst", "commitwaitsreaders"} {
		g := concGenFor(r, rng, 2, 1, 0)
		g.Broken = broken
		res := r.runTLC(tlcOpts{Module: "MC_Conc", Gen: map[string]string{"Gen_Conc.tla": g.tla()}, Timeout: 5 * time.Minute, Tag: broken})
		report("FoxConc variant '"+broken+"' is refuted by TLC", res.InvViol != "", "violated: "+res.InvViol)
	}
	keys := []string{"/a", "/a/b", "/a/c", "/ab"}
	evs := runStress(r.Seed, keys, 3, 3, 40, true)
	g := &concGen{Keys: keys, Readers: 3, MaxReads: 1000000, Broken: "none", Init: make([]int, len(keys)), Calls: [][]any{{"len"}}}
	for i := 0; i < 3; i++ {
		g.Progs = append(g.Progs, concProg{Single: true, End: "commit", Ops: [][2]any{{"Handle", 1}}})
	}
	render := func(es []stressEvent) string {
		var sb strings.Builder
		for _, e := range es {
			b, _ := json.Marshal(e)
			sb.Write(b)
			sb.WriteByte('\n')
		}
		return sb.String()
	}
	validate := func(tag string, es []stressEvent) bool {
		res := r.runTLC(tlcOpts{Module: "Trace_Conc", Gen: map[string]string{"Gen_Conc.tla": g.tla()}, Files: map[string]string{"trace.ndjson": render(es)},
			Workers: 1, DFS: true, Timeout: 5 * time.Minute, Tag: tag})
		return res.ExitCode == 0 && !res.Error && res.InvViol == "" && !strings.Contains(strings.ToLower(res.Output), "postcondition")
	}
	report("a recorded stress trace is accepted by Trace_Conc", validate("ok", evs), fmt.Sprintf("%d events", len(evs)))
	// remove one "as" hook event
	var dropped []stressEvent
	n := 0
	for _, e := range evs {
		if e.E == "as" {
			n++
			if n == 3 {
				continue
			}
		}
		dropped = append(dropped, e)
	}
	report("the same trace without one hook event is rejected", !validate("drop", dropped), "")
	// alter one read result
	altered := append([]stressEvent(nil), evs...)
	done := false
	for i := len(altered) / 2; i < len(altered) && !done; i++ {
		if altered[i].E == "rload" {
			if rs, ok := altered[i].Res.([]any); ok && len(rs) == 1 {
				if _, isInt := rs[0].(int); isInt {
					altered[i].Res = []any{987654}
					for k := i + 1; k < len(altered); k++ {
						if altered[k].E == "rret" && altered[k].G == altered[i].G {
							altered[k].Res = []any{987654}
							break
						}
					}
					done = true
				}
			}
		}
	}
	report("the same trace with one read result altered is rejected", done && !validate("alter", altered), "")
	// radix layer: the emitted transitions replay cleanly; with one prescribed result falsified the replay reports it
	before := len(r.captured)
	small := []string{"/a", "/ab", "/a/{x}", "a.b/a"}
	runRadixPool(r, "selftest-ok", small, 4, rand.New(rand.NewSource(1)))
	report("MC_Radix transitions replay on the real tree without difference", len(r.captured) == before && r.getCov("radix_structural_differences") == 0,
		fmt.Sprintf("%d steps", r.getCov("radix_steps_replayed")))
	radixTamper = func(e *radixEdge) {
		if e.Op.Name == "Insert" && e.Op.Err == "exist" {
			e.Op.Err = "ok"
		}
	}
	runRadixPool(r, "selftest-bad", small, 4, rand.New(rand.NewSource(1)))
	radixTamper = nil
	report("a falsified result class in an MC_Radix transition is reported", len(r.captured) > before, "")
	// copy-on-write heap: the wrong variants of the mechanism are refuted; a replay with a falsified result is reported
	func() {
		defer func() {
			if p := recover(); p != nil {
				report("MC_Cow: every wrong variant of the copy-on-write mechanism is refuted", false, fmt.Sprint(p))
			}
		}()
		cowNegativeRuns(r)
		report("MC_Cow: every wrong variant of the copy-on-write mechanism is refuted", r.getCov("cow_wrong_variants_refuted") == int64(len(cowVariants)), "")
	}()
	func() {
		defer func() {
			if p := recover(); p != nil {
				report("MC_Roots: every wrong variant of the roots-slice handling is refuted", false, fmt.Sprint(p))
			}
		}()
		rootsNegativeRuns(r)
		report("MC_Roots: every wrong variant of the roots-slice handling is refuted", r.getCov("roots_wrong_variants_refuted") == int64(len(rootsVariants)), "")
	}()
	before = len(r.captured)
	runCowPool(r, "selftest", &cowGen{Pool: []string{"/a", "/a/b"}, MaxRoutes: 2, MaxSnaps: 1, MaxHist: 60, Variant: "none"}, rand.New(rand.NewSource(1)))
	report("MC_Cow transitions replay on the real heap without difference", len(r.captured) == before && r.getCov("cow_value_differences") == 0 && r.getCov("cow_sharing_differences") == 0,
		fmt.Sprintf("%d transitions", r.getCov("cow_edges_replayed")))
	_ = fox.VerifLoad
	_ = os.Getenv
	_ = filepath.Join
}
