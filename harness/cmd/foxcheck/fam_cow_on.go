//go:build verif

package main

import (
	"encoding/json"
	"fmt"
	"math/rand"
	"slices"
	"sort"
	"strings"
	"sync"
	"time"

	"github.com/tigerwill90/fox"
)

// Conformance of the copy-on-write heap model (FoxCow / MC_Cow).
//
// TLC explores the whole state space of the mechanism for a small pool (every sharing configuration of published
// tree, snapshots and the transaction's private nodes that the operations can produce) and emits every transition
// together with the history that leads to its source state. Each history is replayed on a real router: Begin is
// Router.Txn(true), TxInsert/TxUpdate/TxRemove are Txn.Handle/Update/Delete, TxSnapshot is Txn.Snapshot or Txn.Iter,
// ReaderHold is a read-only Txn or Router.Iter on the published tree, Insert/Update/Remove are the one-call writes
// of the router. After the last call
//   - the result class is the prescribed one,
//   - every snapshot handle is read back through the public API and must list exactly the routes of the model's
//     frozen root (C03: a write changed something reachable from a snapshot otherwise),
//   - the trees copied out through fox.VerifDump* must equal the model's roots in value, and
//   - the sharing of nodes and children slices between the versions must be the model's (a bijection between the
//     model's ids and the real addresses).
// Only the first two are verdicts. Value and sharing differences are notes (coverage keys cow_value_differences,
// cow_sharing_differences): they mean the model no longer describes the mechanism, which DESIGN.md 13.8 asks to
// repair in the model, and they are what points at the step where an in-place write hit shared memory.

type cowGen struct {
	Pool      []string
	MaxRoutes int
	MaxSnaps  int
	MaxHist   int
	Variant   string
	Kinds     []string // write kinds explored (default: Insert, Update, Remove)
}

func (g *cowGen) tla() string {
	var b strings.Builder
	b.WriteString("---- MODULE Gen_Cow ----\n")
	b.WriteString("GenPool == " + tlaSeqOfChars(g.Pool) + "\n")
	fmt.Fprintf(&b, "GenMaxRoutes == %d\nGenMaxSnaps == %d\nGenMaxHist == %d\nGenVariant == %s\n", g.MaxRoutes, g.MaxSnaps, g.MaxHist, tlaStr(g.Variant))
	kinds := g.Kinds
	if len(kinds) == 0 {
		kinds = []string{"Insert", "Update", "Remove"}
	}
	var ks []string
	for _, k := range kinds {
		ks = append(ks, tlaStr(k))
	}
	b.WriteString("GenKinds == {" + strings.Join(ks, ", ") + "}\n")
	b.WriteString("====\n")
	return b.String()
}

type cowOp struct {
	Name string `json:"name"`
	P    int    `json:"p"`
	Err  string `json:"err"`
}

type cowEdge struct {
	Hist []cowOp `json:"hist"`
	Heap struct {
		Nd []struct {
			K string `json:"k"`
			R string `json:"r"`
			S int    `json:"s"`
		} `json:"nd"`
		Sl [][]int `json:"sl"`
	} `json:"heap"`
	Pub    int   `json:"pub"`
	Snaps  []int `json:"snaps"`
	TxRoot int   `json:"txroot"`
	Wr     []int `json:"wr"`
}

type cowHandle struct {
	kind string // "txn" (Txn.Snapshot or read-only Txn) or "iter"
	txn  *fox.Txn
	it   fox.Iter
}

func (hd cowHandle) dump() (fox.VerifNode, bool) {
	var m map[string]fox.VerifNode
	if hd.kind == "iter" {
		m = fox.VerifDumpIter(hd.it)
	} else {
		m = fox.VerifDumpTxn(hd.txn)
	}
	v, ok := m[radixMethod]
	return v, ok
}

func (hd cowHandle) routes() []string {
	var out []string
	it := hd.it
	if hd.kind != "iter" {
		it = hd.txn.Iter()
	}
	for m, rte := range it.All() {
		if m == radixMethod {
			out = append(out, rte.Pattern())
		}
	}
	sort.Strings(out)
	return out
}

// reverse answers a request through the handle: the pattern selected (with a marker for a trailing-slash match), ""
// when nothing matches. Iterator handles answer through Iter.Reverse, which yields direct matches only.
func (hd cowHandle) reverse(host, path string) string {
	if hd.kind == "iter" {
		out := ""
		for _, rte := range hd.it.Reverse(slices.Values([]string{radixMethod}), host, path) {
			out += rte.Pattern() + ";"
		}
		return out
	}
	rte, tsr := hd.txn.Reverse(radixMethod, host, path)
	if rte == nil {
		return ""
	}
	if tsr {
		return rte.Pattern() + " (tsr)"
	}
	return rte.Pattern()
}

// reentrant ranges over the handle's routes with a second full pass started inside the first one: both passes see
// every route (an iterator sequence keeps no state between or across its uses).
func (hd cowHandle) reentrant() (outer, inner, plain int) {
	it := hd.it
	if hd.kind != "iter" {
		it = hd.txn.Iter()
	}
	seq := it.All()
	for range seq {
		plain++
	}
	first := true
	for range seq {
		outer++
		if first {
			first = false
			for range seq {
				inner++
			}
		}
	}
	return
}

// freshReverse answers the same request on a router (safe for concurrent use), in the vocabulary of cowHandle.reverse.
func freshReverse(rt *fox.Router, kind, host, path string) string {
	if kind == "iter" {
		return cowHandle{kind: "iter", it: rt.Iter()}.reverse(host, path)
	}
	rte, tsr := rt.Reverse(radixMethod, host, path)
	if rte == nil {
		return ""
	}
	if tsr {
		return rte.Pattern() + " (tsr)"
	}
	return rte.Pattern()
}

type cowReal struct {
	rt      *fox.Router
	txn     *fox.Txn
	handles []cowHandle
}

// apply performs one model action on the real objects and returns the result class ("ok" for the actions that cannot fail).
func (c *cowReal) apply(op cowOp, pool []string, rng *rand.Rand) string {
	pat := ""
	if op.P >= 1 && op.P <= len(pool) {
		pat = pool[op.P-1]
	}
	var err error
	switch op.Name {
	case "Begin":
		c.txn = c.rt.Txn(true)
	case "TxInsert":
		_, err = c.txn.Handle(radixMethod, pat, routeHandler(pat))
	case "TxUpdate":
		_, err = c.txn.Update(radixMethod, pat, routeHandler(pat))
	case "TxRemove":
		_, err = c.txn.Delete(radixMethod, pat)
	case "TxSnapshot":
		if rng.Intn(2) == 0 {
			c.handles = append(c.handles, cowHandle{kind: "txn", txn: c.txn.Snapshot()})
		} else {
			c.handles = append(c.handles, cowHandle{kind: "iter", it: c.txn.Iter()})
		}
	case "ReaderHold":
		if rng.Intn(2) == 0 {
			c.handles = append(c.handles, cowHandle{kind: "txn", txn: c.rt.Txn(false)})
		} else {
			c.handles = append(c.handles, cowHandle{kind: "iter", it: c.rt.Iter()})
		}
	case "Forget":
		if h := c.handles[op.P-1]; h.kind == "txn" {
			h.txn.Abort()
		}
		c.handles = slices.Delete(c.handles, op.P-1, op.P)
	case "Commit":
		c.txn.Commit()
		c.txn = nil
	case "Abort":
		c.txn.Abort()
		c.txn = nil
	case "Insert":
		_, err = c.rt.Handle(radixMethod, pat, routeHandler(pat))
	case "Update":
		_, err = c.rt.Update(radixMethod, pat, routeHandler(pat))
	case "Remove":
		_, err = c.rt.Delete(radixMethod, pat)
	default:
		failTool("unknown cow action %q", op.Name)
	}
	return errClass(err)
}

func (c *cowReal) close() {
	if c.txn != nil {
		c.txn.Abort()
	}
	for _, h := range c.handles {
		if h.kind == "txn" {
			h.txn.Abort()
		}
	}
}

// modelRoutes lists the patterns below a model root.
func (e *cowEdge) modelRoutes(id int) []string {
	var out []string
	var w func(id int)
	w = func(id int) {
		n := e.Heap.Nd[id-1]
		if n.R != "" {
			out = append(out, n.R)
		}
		if n.S != 0 {
			for _, c := range e.Heap.Sl[n.S-1] {
				w(c)
			}
		}
	}
	w(id)
	sort.Strings(out)
	return out
}

// cowCompare walks the model roots and the real dumps together: value first, then the identity bijection.
func cowCompare(e *cowEdge, roots []int, dumps []fox.VerifNode) (valueDiff, shareDiff string) {
	n2a, a2n := map[int]uintptr{}, map[uintptr]int{}
	s2a, a2s := map[int]uintptr{}, map[uintptr]int{}
	var w func(id int, v fox.VerifNode, path string)
	w = func(id int, v fox.VerifNode, path string) {
		if valueDiff != "" {
			return
		}
		n := e.Heap.Nd[id-1]
		var kids []int
		if n.S != 0 {
			kids = e.Heap.Sl[n.S-1]
		}
		if n.K != v.Key || n.R != v.Route || len(kids) != len(v.Children) {
			valueDiff = fmt.Sprintf("at %q: model node (%q =%q, %d children), real node (%q =%q, %d children)", path, n.K, n.R, len(kids), v.Key, v.Route, len(v.Children))
			return
		}
		if shareDiff == "" {
			if a, ok := n2a[id]; ok && a != v.Addr {
				shareDiff = fmt.Sprintf("at %q: one model node, two real nodes (the code copied where the model shares)", path+v.Key)
			} else if m, ok := a2n[v.Addr]; ok && m != id {
				shareDiff = fmt.Sprintf("at %q: one real node, two model nodes (the code shares where the model copies)", path+v.Key)
			}
			n2a[id], a2n[v.Addr] = v.Addr, id
			if n.S != 0 {
				if a, ok := s2a[n.S]; ok && a != v.Kids {
					shareDiff = fmt.Sprintf("at %q: one model children slice, two real slices (the code copied where the model shares)", path+v.Key)
				} else if m, ok := a2s[v.Kids]; ok && m != n.S {
					shareDiff = fmt.Sprintf("at %q: one real children slice, two model slices (the code shares where the model copies)", path+v.Key)
				}
				s2a[n.S], a2s[v.Kids] = v.Kids, n.S
			}
		}
		for i, k := range kids {
			w(k, v.Children[i], path+v.Key)
		}
	}
	for i, id := range roots {
		w(id, dumps[i], fmt.Sprintf("root %d: ", i))
	}
	return
}

func runCowPool(r *Run, name string, g *cowGen, rng *rand.Rand) {
	var edges []cowEdge
	res := r.runTLC(tlcOpts{Module: "MC_Cow", Cfg: "MC_CowEmit.cfg", Tag: "-" + name, Gen: map[string]string{"Gen_Cow.tla": g.tla()}, Timeout: pick(r, 10*time.Minute, 60*time.Minute),
		OnVec: func(b []byte) {
			var e cowEdge
			if err := json.Unmarshal(b, &e); err != nil {
				failTool("bad cow edge: %v: %.200s", err, b)
			}
			edges = append(edges, e)
		}})
	res.mustClean("MC_Cow " + name)
	r.addCov("cow_model_states", res.Distinct)
	r.addCov("cow_model_edges", int64(len(edges)))
	if len(edges) == 0 {
		failTool("MC_Cow %s emitted no transition", name)
	}
	probes := radixProbes(rng, g.Pool)
	type freshRouter struct{ rt *fox.Router }
	var freshMu sync.Mutex
	freshCache := map[string]freshRouter{}
	freshFor := func(routes []string) freshRouter {
		k := strings.Join(routes, "\x00")
		freshMu.Lock()
		defer freshMu.Unlock()
		if f, ok := freshCache[k]; ok {
			return f
		}
		rt, err := fox.New()
		if err != nil {
			failTool("fox.New: %v", err)
		}
		for _, p := range routes {
			if _, err := rt.Handle(radixMethod, p, routeHandler(p)); err != nil {
				failTool("a route set of the model is refused by a fresh router: %s: %v", p, err)
			}
		}
		f := freshRouter{rt: rt}
		freshCache[k] = f
		return f
	}
	parallelEdges := func(i int) {
		e := &edges[i]
		if r.tooManyViolations() {
			return
		}
		erng := rand.New(rand.NewSource(r.Seed*1000003 + int64(i)))
		detail := func() map[string]any {
			var hs []string
			for _, o := range e.Hist {
				s := o.Name
				if o.P > 0 && o.Name != "Forget" {
					s += " " + g.Pool[o.P-1]
				} else if o.Name == "Forget" {
					s += fmt.Sprintf(" snapshot %d", o.P)
				}
				hs = append(hs, s+" -> "+o.Err)
			}
			return map[string]any{"family": "cow", "pool": g.Pool, "history": hs}
		}
		r.guard("cow replay", detail, func() {
			rt, err := fox.New()
			if err != nil {
				failTool("fox.New: %v", err)
			}
			c := &cowReal{rt: rt}
			defer c.close()
			for k, o := range e.Hist {
				got := c.apply(o, g.Pool, erng)
				if got != o.Err {
					if k == len(e.Hist)-1 {
						d := detail()
						d["prescribed"] = o.Err
						d["obtained"] = got
						r.violation(fmt.Sprintf("cow: %s %d answers %s after %d calls, the specification prescribes %s", o.Name, o.P, got, k, o.Err), d)
					}
					return // an earlier step: reported where that step is the last one
				}
			}
			r.addCov("cow_edges_replayed", 1)
			// every snapshot handle, read through the public API, shows the routes of the model's frozen root
			for i, hd := range c.handles {
				want, got := e.modelRoutes(e.Snaps[i]), hd.routes()
				if !slices.Equal(want, got) {
					d := detail()
					d["prescribed"] = want
					d["obtained"] = got
					d["snapshot"] = i + 1
					r.violation(fmt.Sprintf("cow: snapshot %d (%s) no longer lists the routes it was taken with", i+1, hd.kind), d)
					return
				}
				r.addCov("cow_snapshots_reread", 1)
				// requests answered through the snapshot: as a fresh router holding the snapshot's routes answers them
				fresh := freshFor(want)
				for _, pr := range probes {
					a := hd.reverse(pr[0], pr[1])
					b := freshReverse(fresh.rt, hd.kind, pr[0], pr[1])
					if a != b {
						d := detail()
						d["prescribed"] = b
						d["obtained"] = a
						d["snapshot"], d["host"], d["path"] = i+1, pr[0], pr[1]
						r.violation(fmt.Sprintf("cow: snapshot %d (%s) answers %s %s differently from a router holding the routes it was taken with", i+1, hd.kind, pr[0], pr[1]), d)
						return
					}
				}
				if o, in, pl := hd.reentrant(); o != pl || in != pl || pl != len(want) {
					d := detail()
					d["prescribed"] = fmt.Sprintf("%d routes in every pass", len(want))
					d["obtained"] = fmt.Sprintf("plain pass %d, outer pass %d, pass started inside it %d", pl, o, in)
					r.violation(fmt.Sprintf("cow: snapshot %d (%s): two passes over one iterator sequence disturb each other", i+1, hd.kind), d)
					return
				}
			}
			// the published state: exactly the routes of the model's published root (nothing of an open or aborted
			// transaction), answering requests like a fresh router holding them
			{
				want := e.modelRoutes(e.Pub)
				pubH := cowHandle{kind: "iter", it: rt.Iter()}
				if got := pubH.routes(); !slices.Equal(got, want) {
					d := detail()
					d["prescribed"], d["obtained"] = want, got
					r.violation("cow: the router lists routes that were never committed (or misses committed ones)", d)
					return
				}
				fresh := freshFor(want)
				for _, pr := range probes {
					if a, b := freshReverse(rt, "txn", pr[0], pr[1]), freshReverse(fresh.rt, "txn", pr[0], pr[1]); a != b {
						d := detail()
						d["prescribed"], d["obtained"] = b, a
						d["host"], d["path"] = pr[0], pr[1]
						r.violation(fmt.Sprintf("cow: the router answers %s %s differently from a router holding the committed routes", pr[0], pr[1]), d)
						return
					}
				}
			}
			// the transaction reads its own writes (nothing follows in this replay, so reading it changes nothing)
			if c.txn != nil {
				want := e.modelRoutes(e.TxRoot)
				own := cowHandle{kind: "txn", txn: c.txn}
				fresh := freshFor(want)
				for _, pr := range probes {
					a, b := own.reverse(pr[0], pr[1]), freshReverse(fresh.rt, "txn", pr[0], pr[1])
					ai, bi := cowHandle{kind: "iter", it: c.txn.Iter()}.reverse(pr[0], pr[1]), freshReverse(fresh.rt, "iter", pr[0], pr[1])
					if a != b || ai != bi {
						d := detail()
						d["prescribed"] = map[string]string{"Txn.Reverse": b, "Txn.Iter.Reverse": bi}
						d["obtained"] = map[string]string{"Txn.Reverse": a, "Txn.Iter.Reverse": ai}
						d["host"], d["path"] = pr[0], pr[1]
						r.violation(fmt.Sprintf("cow: the write transaction answers %s %s differently from a router holding its routes", pr[0], pr[1]), d)
						return
					}
				}
				if got := own.routes(); !slices.Equal(got, want) {
					d := detail()
					d["prescribed"], d["obtained"] = want, got
					r.violation("cow: the write transaction does not list its own routes", d)
					return
				}
			}
			// the heap: value and sharing
			roots := []int{e.Pub}
			pubDump, ok := fox.VerifDump(rt)[radixMethod]
			if !ok {
				failTool("no %s tree in the router", radixMethod)
			}
			dumps := []fox.VerifNode{pubDump}
			for i, hd := range c.handles {
				d, ok := hd.dump()
				if !ok {
					failTool("snapshot handle %d has no tree", i)
				}
				roots = append(roots, e.Snaps[i])
				dumps = append(dumps, d)
			}
			if c.txn != nil {
				d, ok := fox.VerifDumpTxn(c.txn)[radixMethod]
				if !ok {
					failTool("transaction has no tree")
				}
				roots = append(roots, e.TxRoot)
				dumps = append(dumps, d)
			}
			vd, sd := cowCompare(e, roots, dumps)
			if vd != "" {
				r.addCov("cow_value_differences", 1)
				if r.getCov("cow_value_differences") <= 3 {
					outf("NOTE cow: real tree differs in value from the model's after %v: %s\n", detail()["history"], vd)
				}
			} else if sd != "" {
				r.addCov("cow_sharing_differences", 1)
				if r.getCov("cow_sharing_differences") <= 3 {
					outf("NOTE cow: sharing between tree versions differs from the model's after %v: %s\n", detail()["history"], sd)
				}
			}
		})
	}
	parallel(len(edges), parallelEdges)
}

var cowPools = []struct {
	name string
	pool []string
}{
	{"path", []string{"/a", "/a/b", "/a/c", "/ab"}},
	{"host", []string{"a.b/", "a.b/a", "a.c/", "/a"}},
	{"wild", []string{"/{x}", "/{x}/b", "/a", "/a{x}"}},
	// a route registered on an intermediate node that already has edges, and writes that split or extend those edges
	{"mid", []string{"/a/b", "/a/c", "/a/", "/a/bc"}},
	// a node whose key holds an infix catch-all, with two levels of edges below it (a write two levels down clones it)
	{"infix", []string{"/a/*{w}/b/c", "/a/*{w}/b/d", "/a/*{w}/b/c/e", "/a/*{w}/b/d/e"}},
}

func runCow(r *Run) {
	rng := rand.New(rand.NewSource(r.Seed + 9090))
	for _, p := range cowPools {
		if r.tooManyViolations() {
			return
		}
		pool := slices.Clone(p.pool)
		if r.quick() {
			// the whole mechanism state space of a three-pattern pool; the seed chooses which pattern is left out
			i := rng.Intn(len(pool))
			if p.name == "infix" {
				i = len(pool) - 1
			}
			if p.name != "mid" {
				pool = slices.Delete(pool, i, i+1)
			}
		}
		g := &cowGen{Pool: pool, MaxRoutes: 3, MaxSnaps: 1, MaxHist: 60, Variant: "none"}
		if p.name == "mid" { // the shape needs all four routes; the quick tier explores it with inserts only
			g.MaxRoutes = 4
			if r.quick() {
				g.Kinds = []string{"Insert"}
			}
		}
		runCowPool(r, p.name, g, rng)
	}
	if !r.quick() {
		// two snapshots alive at once: about a million states of the mechanism, decided by TLC alone (no replay)
		g := &cowGen{Pool: cowPools[0].pool, MaxRoutes: 3, MaxSnaps: 2, MaxHist: 60, Variant: "none"}
		res := r.runTLC(tlcOpts{Module: "MC_Cow", Tag: "-two-snapshots", Gen: map[string]string{"Gen_Cow.tla": g.tla()}, Timeout: 90 * time.Minute})
		res.mustClean("MC_Cow (two snapshots)")
		r.addCov("cow_model_states_two_snapshots", res.Distinct)
	}
	r.assumption("the copy-on-write model covers one method tree; the roots slice of the transaction (one entry per method, copied on every root change) is not modelled")
}

// cowNegativeRuns: every deliberately wrong variant of the mechanism must be refuted by TLC.
var cowVariants = []string{"cacheInsertedNode", "cacheUpdatedNode", "noSnapshotReset", "resetOnlyIfDirty", "cloneSharesSlice", "editMatchedInPlace", "appendToMatched"}

func cowNegativeRuns(r *Run) {
	var missed []string
	for _, v := range cowVariants {
		g := &cowGen{Pool: cowPools[0].pool, MaxRoutes: 3, MaxSnaps: 1, MaxHist: 60, Variant: v}
		if v == "cacheInsertedNode" { // needs a route registered on an intermediate node and a write below it
			g.Pool, g.MaxRoutes, g.Kinds = []string{"/a/b", "/a/c", "/a/", "/a/bc"}, 4, []string{"Insert"}
		}
		res := r.runTLC(tlcOpts{Module: "MC_Cow", Tag: "-variant-" + v, Gen: map[string]string{"Gen_Cow.tla": g.tla()}, Timeout: 20 * time.Minute})
		if res.InvViol != "" {
			r.addCov("cow_wrong_variants_refuted", 1)
		} else {
			missed = append(missed, v)
		}
	}
	if len(missed) > 0 {
		failTool("MC_Cow: the wrong variant(s) %v are not refuted: the invariants of the copy-on-write model have lost their teeth", missed)
	}
}
