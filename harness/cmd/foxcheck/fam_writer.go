package main

import (
	"bufio"
	"bytes"
	"encoding/json"
	"errors"
	"fmt"
	"io"
	"mime"
	"net"
	"net/http"
	"slices"
	"strings"
	"sync"
	"sync/atomic"
	"testing/iotest"
	"time"

	"github.com/tigerwill90/fox"
)

// ---- fake underlying writers that record exactly what they receive and fail on demand ------------------

type underLog struct {
	h          http.Header
	hdrs       []int
	body       []byte
	budget     int // bytes the writer still accepts (negative: unlimited)
	flushFails bool
}

var errFlushFails = errors.New("verif: flush fails")

func (u *underLog) hasFinal() bool {
	for _, c := range u.hdrs {
		if c < 100 || c > 199 || c == 101 {
			return true
		}
	}
	return false
}

func (u *underLog) Header() http.Header { return u.h }
func (u *underLog) WriteHeader(c int) {
	if c < 100 || c > 999 { // as net/http does
		panic(fmt.Sprintf("invalid WriteHeader code %v", c))
	}
	u.hdrs = append(u.hdrs, c)
}
func (u *underLog) Write(b []byte) (int, error) {
	if !u.hasFinal() {
		u.hdrs = append(u.hdrs, 200) // a net/http writer sends the implicit 200 itself
	}
	k := len(b)
	if u.budget >= 0 && k > u.budget {
		k = u.budget
	}
	if u.budget >= 0 {
		u.budget -= k
	}
	u.body = append(u.body, b[:k]...)
	if k < len(b) {
		return k, errUnderShort
	}
	return k, nil
}

var errUnderShort = errors.New("verif: underlying writer accepts no more bytes")
var errSrcFail = errors.New("verif: source fails")

// plain: only http.ResponseWriter
type fakePlain struct{ *underLog }

// with io.ReaderFrom
type fakeRF struct{ *underLog }

func (f fakeRF) ReadFrom(src io.Reader) (int64, error) { return underReadFrom(f.underLog, src) }

func underReadFrom(u *underLog, src io.Reader) (int64, error) {
	var total int64
	buf := make([]byte, 2)
	for {
		n, err := src.Read(buf)
		if n > 0 {
			k, werr := u.Write(buf[:n])
			total += int64(k)
			if werr != nil {
				return total, werr
			}
		}
		if err == io.EOF {
			return total, nil
		}
		if err != nil {
			return total, err
		}
	}
}

// only http.Flusher
type fakeFlusher struct {
	*underLog
	flushed *int
}

func (f fakeFlusher) Flush() { *f.flushed++ }

// everything
type fakeRich struct {
	*underLog
	calls *[]string
}

func (f fakeRich) ReadFrom(src io.Reader) (int64, error) { return underReadFrom(f.underLog, src) }
func (f fakeRich) FlushError() error {
	*f.calls = append(*f.calls, "flush")
	if f.underLog.flushFails {
		return errFlushFails
	}
	return nil
}
func (f fakeRich) Hijack() (net.Conn, *bufio.ReadWriter, error) {
	*f.calls = append(*f.calls, "hijack")
	return nil, nil, nil
}
func (f fakeRich) Push(string, *http.PushOptions) error {
	*f.calls = append(*f.calls, "push")
	return nil
}
func (f fakeRich) SetReadDeadline(time.Time) error  { *f.calls = append(*f.calls, "rdl"); return nil }
func (f fakeRich) SetWriteDeadline(time.Time) error { *f.calls = append(*f.calls, "wdl"); return nil }
func (f fakeRich) EnableFullDuplex() error          { *f.calls = append(*f.calls, "duplex"); return nil }

type failingReader struct {
	data []byte
	fail bool // error instead of EOF once the data is exhausted
	pos  int
}

func (r *failingReader) Read(p []byte) (int, error) {
	if r.pos >= len(r.data) {
		if r.fail {
			return 0, errSrcFail
		}
		return 0, io.EOF
	}
	n := copy(p, r.data[r.pos:])
	if n > 3 {
		n = 3
	}
	r.pos += n
	return n, nil
}

// ---- model state and edges ------------------------------------------------------------------------------

type wState struct {
	Status int    `json:"status"`
	Size   int    `json:"size"`
	Hij    bool   `json:"hij"`
	Hdrs   []int  `json:"hdrs"`
	Body   int    `json:"body"`
	Ct     string `json:"ct"`
}

type wNodeState struct {
	St wState `json:"st"`
	N  int    `json:"n"`
}

func (s *wNodeState) key() string { b, _ := json.Marshal(s); return string(b) }

type wOp struct {
	Call string `json:"call"`
	Arg  []int  `json:"arg"`
	Ret  any    `json:"ret"`
}

type wEdge struct {
	From wNodeState `json:"from"`
	Op   wOp        `json:"op"`
	To   wNodeState `json:"to"`
}

type wnode struct {
	st     wNodeState
	parent *wedge
}

type wedge struct {
	from, to string
	op       wOp
}

type writerVariant struct {
	name string
	caps []string
	mk   func(u *underLog, calls *[]string, flushed *int) http.ResponseWriter
}

var writerVariants = []writerVariant{
	{"plain", nil, func(u *underLog, _ *[]string, _ *int) http.ResponseWriter { return fakePlain{u} }},
	{"readerfrom", []string{"readerfrom"}, func(u *underLog, _ *[]string, _ *int) http.ResponseWriter { return fakeRF{u} }},
	{"flusher", []string{"flusher"}, func(u *underLog, _ *[]string, f *int) http.ResponseWriter { return fakeFlusher{u, f} }},
	{"rich", []string{"readerfrom", "flusher", "flusherror", "hijacker", "pusher", "deadlines", "duplex"}, func(u *underLog, c *[]string, _ *int) http.ResponseWriter {
		return fakeRich{u, c}
	}},
}

// runScript executes a sequence of model calls on the real recorder (obtained from ServeHTTP) over the
// given underlying writer and compares after every call. It returns a description of the first disagreement.
func runWriterScript(v writerVariant, path []*wedge, last *wedge, nodes map[string]*wnode, evals *atomic.Int64) (problem string, prescribed, obtained any) {
	u := &underLog{h: http.Header{}, budget: -1}
	var calls []string
	flushed := 0
	under := v.mk(u, &calls, &flushed)
	var expectBody []byte
	next := byte(1)
	fresh := func(n int) []byte {
		b := make([]byte, n)
		for i := range b {
			b[i] = next
			next++
		}
		return b
	}
	steps := append(append([]*wedge(nil), path...), last)
	handler := func(c fox.Context) {
		w := c.Writer()
		for si, e := range steps {
			final := si == len(steps)-1
			op := e.op
			want := nodes[e.to].st.St
			var got any
			switch op.Call {
			case "WriteHeader":
				refused := false
				func() {
					defer func() {
						if recover() != nil {
							refused = true
						}
					}()
					w.WriteHeader(op.Arg[0])
				}()
				got = op.Ret // no return value; the effect is compared through the state
				if want := op.Ret == "refused"; refused != want {
					got = map[bool]string{true: "the underlying writer refused the code (panic)", false: "no panic"}[refused]
				}
			case "Write", "WriteString":
				data := fresh(op.Arg[0])
				u.budget = op.Arg[1]
				var n int
				var err error
				if op.Call == "Write" {
					n, err = w.Write(data)
				} else {
					n, err = w.WriteString(string(data))
				}
				u.budget = -1
				if n >= 0 && n <= len(data) && !(err != nil && errors.Is(err, http.ErrHijacked)) {
					expectBody = append(expectBody, data[:n]...)
				}
				got = []any{float64(n), errWord(err)}
			case "ReadFrom", "Stream":
				var m, f, j, code int
				if op.Call == "ReadFrom" {
					m, f, j = op.Arg[0], op.Arg[1], op.Arg[2]
				} else {
					code, m = op.Arg[0], op.Arg[1]
					f, j = m, m
				}
				data := fresh(f)
				src := &failingReader{data: data, fail: f < m}
				u.budget = j
				var n int64
				var err error
				if op.Call == "ReadFrom" {
					n, err = w.ReadFrom(src)
				} else {
					err = c.Stream(code, "application/octet-stream", src)
					n = int64(len(u.body) - len(expectBody))
				}
				u.budget = -1
				if n >= 0 && int(n) <= len(data) {
					expectBody = append(expectBody, data[:n]...)
				}
				got = []any{float64(n), errWord(err)}
			case "String":
				err := c.String(op.Arg[0], "%s", string(bytes.Repeat([]byte{'s'}, op.Arg[1])))
				expectBody = append(expectBody, bytes.Repeat([]byte{'s'}, op.Arg[1])...)
				got = []any{float64(op.Arg[1]), errWord(err)}
			case "Blob":
				b := fresh(op.Arg[1])
				err := c.Blob(op.Arg[0], "application/x-verif", b)
				expectBody = append(expectBody, b...)
				got = []any{float64(op.Arg[1]), errWord(err)}
			case "Redirect":
				before := len(u.body)
				err := c.Redirect(op.Arg[0], "/elsewhere")
				expectBody = append(expectBody, u.body[before:]...) // the HTML body net/http writes is not prescribed
				switch {
				case err == nil:
					got = "ok"
				case errors.Is(err, fox.ErrInvalidRedirectCode):
					got = "invalidcode"
				default:
					got = "error: " + err.Error()
				}
			case "Flush":
				u.flushFails = op.Arg[0] == 1
				ferr := w.FlushError()
				u.flushFails = false
				if errors.Is(ferr, errFlushFails) {
					got = "flusherr"
				} else {
					got = capWord(ferr)
				}
			case "SetContentType":
				w.Header().Set("Content-Type", "application/x-pre")
				got = "ok"
			case "Hijack":
				_, _, err := w.Hijack()
				got = capWord(err)
			case "pusher":
				got = capWord(w.Push("/x", nil))
			case "deadlines":
				e1, e2 := w.SetReadDeadline(time.Time{}), w.SetWriteDeadline(time.Time{})
				if capWord(e1) != capWord(e2) {
					got = "read/write deadline disagree"
				} else {
					got = capWord(e1)
				}
			case "duplex":
				got = capWord(w.EnableFullDuplex())
			default:
				failTool("unknown writer call %q", op.Call)
			}
			evals.Add(1)
			if !final {
				continue
			}
			// returned value
			wantRet := op.Ret
			if op.Call == "Redirect" || op.Call == "WriteHeader" {
				// body size of the redirect page is not prescribed
			}
			gb, _ := json.Marshal(got)
			wb, _ := json.Marshal(wantRet)
			if string(gb) != string(wb) && op.Call != "WriteHeader" {
				problem = fmt.Sprintf("%s returned %s", op.Call, gb)
				prescribed, obtained = map[string]any{"returns": wantRet}, map[string]any{"returns": got}
				return
			}
			// accessors and the log of the underlying writer
			ctName := map[string]string{"": "none", "application/x-pre": "pre", "text/plain; charset=UTF-8": "text", "application/x-verif": "given", "application/octet-stream": "given"}
			gotCt, known := ctName[u.h.Get("Content-Type")]
			if !known {
				gotCt = u.h.Get("Content-Type")
			}
			gotSt := map[string]any{"Status": w.Status(), "Size": w.Size(), "Written": w.Written(), "headers_forwarded": append([]int{}, u.hdrs...), "body_bytes_accepted": len(u.body), "content_type": gotCt}
			wantSize := want.Size
			if wantSize < 0 {
				wantSize = 0
			}
			wantBody := want.Body
			wantHdrs := want.Hdrs
			wantSt := map[string]any{"Status": want.Status, "Size": wantSize, "Written": want.Size >= 0, "headers_forwarded": append([]int{}, wantHdrs...), "body_bytes_accepted": wantBody, "content_type": want.Ct}
			a, _ := json.Marshal(gotSt)
			b, _ := json.Marshal(wantSt)
			if string(a) != string(b) {
				problem = "accessors or forwarded data differ after " + op.Call
				prescribed, obtained = wantSt, gotSt
				return
			}
			if !bytes.Equal(u.body, expectBody) {
				problem = "body bytes forwarded out of order or altered"
				prescribed, obtained = expectBody, u.body
				return
			}
		}
	}
	rt, err := fox.New()
	if err != nil {
		failTool("fox.New: %v", err)
	}
	rt.MustHandle("POST", "/w", handler)
	// FoxWriter's Init is the state of a recorder attached to a request, whatever the recycled context served
	// before: an earlier request over an underlying writer of ANOTHER kind exercises every optional capability
	// and an informational header, then the script runs (on the same goroutine, so normally on the same context)
	rt.MustHandle("POST", "/warm", func(c fox.Context) {
		w := c.Writer()
		_ = w.FlushError()
		_ = w.Push("/p", nil)
		_ = w.SetReadDeadline(time.Time{})
		_ = w.SetWriteDeadline(time.Time{})
		_ = w.EnableFullDuplex()
		w.WriteHeader(204)
		_ = w.FlushError()
	})
	{
		wu := &underLog{h: http.Header{}, budget: -1}
		var wcalls []string
		wflushed := 0
		other := writerVariants[(len(path)+len(v.caps))%len(writerVariants)]
		if other.name == v.name {
			other = writerVariants[(len(path)+len(v.caps)+1)%len(writerVariants)]
		}
		wreq, _ := newRequest("POST", "", "/warm", "")
		rt.ServeHTTP(other.mk(wu, &wcalls, &wflushed), wreq)
	}
	req, _ := newRequest("POST", "", "/w", "")
	func() {
		defer func() {
			if p := recover(); p != nil {
				problem = "panic: " + fmt.Sprint(p)
				prescribed, obtained = "no panic", fmt.Sprint(p)
			}
		}()
		rt.ServeHTTP(under, req)
	}()
	return
}

func errWord(err error) string {
	switch {
	case err == nil:
		return "ok"
	case errors.Is(err, http.ErrHijacked):
		return "hijacked"
	case errors.Is(err, errSrcFail):
		return "srcerr"
	case errors.Is(err, errUnderShort), errors.Is(err, io.ErrShortWrite):
		return "short"
	}
	return "error: " + err.Error()
}

func capWord(err error) string {
	switch {
	case err == nil:
		return "ok"
	case errors.Is(err, http.ErrNotSupported):
		return "notsupported"
	}
	return "error: " + err.Error()
}

func tlaTuples(ts [][]int) string {
	parts := make([]string, len(ts))
	for i, t := range ts {
		parts[i] = tlaIntSeq(t)
	}
	return "{" + strings.Join(parts, ", ") + "}"
}

// chunkThenFail delivers its bytes and its error in the same Read call.
type chunkThenFail struct {
	data string
	done bool
}

func (c *chunkThenFail) Read(p []byte) (int, error) {
	if c.done {
		return 0, errSentinel
	}
	c.done = true
	return copy(p, c.data), errSentinel
}

func checkC14(r *Run) {
	runHelperBodies(r)
	maxCalls := pick(r, 3, 6)
	var total, totalEdges atomic.Int64
	for _, v := range writerVariants {
		gen := fmt.Sprintf(`---- MODULE Gen_Writer ----
GenCaps == %s
GenCodes == {100, 103, 101, 200, 404, 500, 99}
GenWriteSizes == %s
GenReadFroms == %s
GenMaxCalls == %d
GenHelperCodes == {200, 299, 300, 308, 309}
GenRedirectCodes == {100, 101, 199, 201, 202, 204, 206, 226, 298, 310, 399, 400, 404, 500, 599}
====
`, tlaStrSet(v.caps), tlaTuples([][]int{{0, 0}, {3, 3}, {3, 1}, {3, 0}}),
			tlaTuples([][]int{{0, 0, 5}, {5, 5, 5}, {5, 2, 5}, {5, 5, 3}, {5, 0, 5}, {7, 7, 7}}), maxCalls)
		nodes := map[string]*wnode{}
		var edges []*wedge
		var mu sync.Mutex
		res := r.runTLC(tlcOpts{
			Module:  "MC_Writer",
			Gen:     map[string]string{"Gen_Writer.tla": gen},
			Timeout: pick(r, 5*time.Minute, 30*time.Minute),
			Tag:     v.name,
			OnVec: func(b []byte) {
				var e wEdge
				if err := json.Unmarshal(b, &e); err != nil {
					failTool("bad edge: %v: %.200s", err, b)
				}
				fk, tk := e.From.key(), e.To.key()
				mu.Lock()
				if _, ok := nodes[fk]; !ok {
					nodes[fk] = &wnode{st: e.From}
				}
				if _, ok := nodes[tk]; !ok {
					nodes[tk] = &wnode{st: e.To}
				}
				edges = append(edges, &wedge{from: fk, to: tk, op: e.Op})
				mu.Unlock()
			},
		})
		res.mustClean("MC_Writer/" + v.name)
		r.addCov("states", res.Distinct)
		r.addCov("transitions", res.Generated)
		// BFS tree
		init := (&wNodeState{St: wState{Status: 200, Size: -1, Hdrs: []int{}, Ct: "none"}}).key()
		if _, ok := nodes[init]; !ok {
			failTool("initial writer state not found: %s", init)
		}
		out := map[string][]*wedge{}
		for _, e := range edges {
			out[e.from] = append(out[e.from], e)
		}
		visited := map[string]bool{init: true}
		q := []string{init}
		for len(q) > 0 {
			k := q[0]
			q = q[1:]
			for _, e := range out[k] {
				if !visited[e.to] {
					visited[e.to] = true
					nodes[e.to].parent = e
					q = append(q, e.to)
				}
			}
		}
		pathTo := func(k string) []*wedge {
			var rev []*wedge
			for n := nodes[k]; n != nil && n.parent != nil; n = nodes[n.parent.from] {
				rev = append(rev, n.parent)
			}
			slices.Reverse(rev)
			return rev
		}
		describe := func(p []*wedge, e *wedge) []string {
			var s []string
			for _, x := range append(append([]*wedge(nil), p...), e) {
				s = append(s, fmt.Sprintf("%s%v", x.op.Call, x.op.Arg))
			}
			return s
		}
		// Every edge is replayed after a shortest history into its source state - and also after every call into that
		// state that, by the model, changes nothing there (a capability the underlying writer lacks, an empty write, a
		// superfluous header): what follows such a call behaves as if it had not been made.
		noops := map[string][]*wedge{}
		sameSt := func(a, b wState) bool {
			x, _ := json.Marshal(a)
			y, _ := json.Marshal(b)
			return string(x) == string(y)
		}
		for _, e := range edges {
			if sameSt(nodes[e.from].st.St, nodes[e.to].st.St) {
				noops[e.to] = append(noops[e.to], e)
			}
		}
		parallel(len(edges), func(i int) {
			e := edges[i]
			histories := [][]*wedge{pathTo(e.from)}
			for _, q := range noops[e.from] {
				if q != nodes[e.from].parent && len(histories) < pick(r, 1000, 6) {
					histories = append(histories, append(pathTo(q.from), q))
				}
			}
			for _, p := range histories {
				problem, want, got := runWriterScript(v, p, e, nodes, &total)
				totalEdges.Add(1)
				if problem != "" {
					calls := describe(p, e)
					r.violation(fmt.Sprintf("writer underlying=%s calls=%s", v.name, strings.Join(calls, " ")), map[string]any{"kind": "behaviour", "underlying": v.name,
						"calls": calls, "problem": problem, "prescribed": want, "obtained": got})
					break
				}
			}
		})
		if len(edges) > 0 {
			e := edges[len(edges)/2]
			r.sample(map[string]any{"underlying": v.name, "calls": describe(pathTo(e.from), e), "model_state_after": nodes[e.to].st})
		}
	}
	r.addCov("traces_validated_against_impl", totalEdges.Load())
	r.addCov("evaluations", total.Load())
	r.setCov("exhaustive", true)
	r.setCov("max_calls", int64(maxCalls))
	r.assumption("the underlying writer behaves like net/http's: it emits an implicit 200 when body bytes arrive before any final header")
	r.assumption("a ReadFrom that delivers bytes finds an underlying writer accepting at least one byte (DESIGN.md 7)")
}

func init() { register("C14", checkC14) }

// The Context helpers send exactly the bytes they are given (C14, last sentence): the model prescribes sizes; the
// contents are compared here, through a real request, for formats with and without operands.
func runHelperBodies(r *Run) {
	type hcase struct {
		name string
		call func(c fox.Context) error
		want string
		ct   string
	}
	blob := []byte{0, 1, 2, '%', 's', 0xff, '\n'}
	cases := []hcase{
		{"String plain", func(c fox.Context) error { return c.String(200, "hello") }, "hello", "text/plain"},
		{"String with an escaped percent and no operand", func(c fox.Context) error { return c.String(200, "100%% done") }, "100% done", "text/plain"},
		{"String with a verb and no operand", func(c fox.Context) error { return c.String(200, "n=%d") }, "n=%!d(MISSING)", "text/plain"},
		{"String with operands", func(c fox.Context) error { return c.String(201, "%s=%d %v%%", "k", 7, true) }, "k=7 true%", "text/plain"},
		{"String with a surplus operand", func(c fox.Context) error { return c.String(200, "x", 1) }, "x%!(EXTRA int=1)", "text/plain"},
		{"Blob", func(c fox.Context) error { return c.Blob(202, "application/x-test", blob) }, string(blob), "application/x-test"},
		{"Stream", func(c fox.Context) error { return c.Stream(203, "application/x-test", strings.NewReader("a%sb%%c")) }, "a%sb%%c", "application/x-test"},
		{"Blob, empty", func(c fox.Context) error { return c.Blob(204, "application/x-test", nil) }, "", "application/x-test"},
		// readers as the io.Reader contract allows them: the last bytes delivered together with io.EOF, one byte at a time,
		// nothing and no error now and then, bytes delivered together with a failure (they were read: they are sent)
		{"Stream, last bytes with EOF", func(c fox.Context) error {
			return c.Stream(200, "application/x-test", iotest.DataErrReader(strings.NewReader("abcdefgh")))
		}, "abcdefgh", "application/x-test"},
		{"Stream, one byte at a time", func(c fox.Context) error {
			return c.Stream(200, "application/x-test", iotest.OneByteReader(strings.NewReader("abcdefgh")))
		}, "abcdefgh", "application/x-test"},
		{"Stream, one byte at a time and the last with EOF", func(c fox.Context) error {
			return c.Stream(200, "application/x-test", iotest.DataErrReader(iotest.OneByteReader(strings.NewReader("abc"))))
		}, "abc", "application/x-test"},
		{"Stream, bytes together with a failure", func(c fox.Context) error {
			if err := c.Stream(200, "application/x-test", &chunkThenFail{data: "abcde"}); !errors.Is(err, errSentinel) {
				return fmt.Errorf("the reader's error was not returned: %v", err)
			}
			return nil
		}, "abcde", "application/x-test"},
	}
	for _, hc := range cases {
		detail := func() map[string]any { return map[string]any{"family": "helper-bodies", "helper": hc.name} }
		r.guard("context helper", detail, func() {
			rt, err := fox.New()
			if err != nil {
				failTool("fox.New: %v", err)
			}
			var herr error
			size := -1
			rt.MustHandle("GET", "/h", func(c fox.Context) { herr = hc.call(c); size = c.Writer().Size() })
			req, _ := newRequest("GET", "", "/h", "")
			w := newPlainWriter()
			rt.ServeHTTP(w, req)
			r.addCov("helper_bodies_compared", 1)
			mt, _, _ := mime.ParseMediaType(w.h.Get("Content-Type"))
			if herr != nil || string(w.body) != hc.want || mt != hc.ct || size != len(hc.want) {
				d := detail()
				d["prescribed"] = map[string]any{"body": hc.want, "content_type": hc.ct}
				d["obtained"] = map[string]any{"body": string(w.body), "content_type": w.h.Get("Content-Type"), "error": fmt.Sprint(herr), "Size()": size}
				r.violation(fmt.Sprintf("writer helper=%s sends other bytes than it was given", hc.name), d)
			}
		})
	}
}
