//go:build verif

package main

import (
	"math/rand"
	"time"
)

var concKeySets = [][]string{
	{"/a/b", "/a/c"},
	{"/a/b", "/a/{x}"},
	{"/a", "/ab"},
	{"/a/b/c", "/a/b"},
	{"/a/*{w}", "/a/b"},
}

func concGenFor(r *Run, rng *rand.Rand, nWriters, nReaders int) *concGen {
	g := &concGen{Keys: concKeySets[rng.Intn(len(concKeySets))], Readers: nReaders, MaxReads: 1, Broken: "none"}
	kinds := []string{"Handle", "Handle", "Update", "Delete"}
	for i := 0; i < nWriters; i++ {
		var p concProg
		switch i {
		case 0:
			// a transaction of two writes, committed
			p = concProg{Single: false, Managed: rng.Intn(2) == 0, End: "commit",
				Ops: [][2]any{{"Handle", 1}, {"Handle", 2}}}
		case 1:
			p = concProg{Single: true, End: "commit", Ops: [][2]any{{kinds[rng.Intn(len(kinds))], 1 + rng.Intn(2)}}}
		default:
			p = concProg{Single: false, Managed: rng.Intn(2) == 0, End: "abort",
				Ops: [][2]any{{"Handle", 1 + rng.Intn(2)}}}
		}
		g.Progs = append(g.Progs, p)
	}
	g.Calls = [][]any{{"has", 1}, {"all"}, {"len"}}
	if !r.quick() {
		g.Calls = [][]any{{"has", 1}, {"has", 2}, {"all"}, {"len"}}
		g.MaxReads = 2
	}
	return g
}

// C05 - concurrent use is race-free and linearizable.
func checkC05(r *Run) {
	rng := rand.New(rand.NewSource(r.Seed))
	exploreConc(r, concGenFor(r, rng, 2, 1), "", pick(r, 5*time.Minute, 30*time.Minute))
	if !r.quick() {
		exploreConc(r, concGenFor(r, rng, 3, 1), "", 30*time.Minute)
	}
	r.assumption("interleavings are controlled at the verification points of the implementation; code between two points runs without interruption in the replay")
}

// C06 - reads never wait for writers.
func checkC06(r *Run) {
	rng := rand.New(rand.NewSource(r.Seed + 6))
	exploreConc(r, concGenFor(r, rng, 2, 1), "reader-wait", pick(r, 5*time.Minute, 30*time.Minute))
	r.assumption("a read that does not complete within 5 s while a writer is parked, and completes once the writer is released, is a wait")
}
