//go:build verif

package main

import (
	"math/rand"
	"time"
)

var concKeySets = [][]string{
	{"/a", "/a/b"},
	{"/a/b", "/a/b/c"},
	{"/a/b", "/a/c"},
	{"/a/b", "/a/{x}"},
	{"/a", "/ab"},
	{"/a/b/c", "/a/b"},
	{"/a/*{w}", "/a/b"},
}

func concGenFor(r *Run, rng *rand.Rand, nWriters, nReaders, shapeIdx int) *concGen {
	g := &concGen{Keys: concKeySets[rng.Intn(len(concKeySets))], Readers: nReaders, MaxReads: 1, Broken: "none"}
	g.Init = []int{0, 0}
	kinds := []string{"Handle", "Handle", "Update", "Delete"}
	// writer 1: a transaction of two writes; its shape rotates with the seed
	txnShapes := [][][2]any{
		{{"Handle", 1}, {"Handle", 2}},
		{{"Update", 1}, {"Handle", 2}}, // update a route, then write next to / below it
		{{"Update", 1}, {"Update", 2}},
		{{"Truncate", 1}, {"Handle", 2}},
		{{"Delete", 1}, {"Handle", 1}},
		{{"Update", 1}, {"Iter", 1}}, // the last thing the transaction does before Commit is to look at itself
	}
	shape := txnShapes[shapeIdx%len(txnShapes)]
	if shape[0][0] == "Update" {
		g.Keys = concKeySets[rng.Intn(2)] // a route and a route below it
	}
	if shape[0][0] != "Handle" {
		g.Init = []int{91, 92} // routes registered before anybody starts
		if shape[1][0] == "Handle" && shape[1][1] == 2 {
			g.Init = []int{91, 0} // so that the second write of the transaction succeeds
		}
	}
	for i := 0; i < nWriters; i++ {
		var p concProg
		switch i {
		case 0:
			p = concProg{Single: false, Managed: rng.Intn(2) == 0, End: "commit", Ops: shape}
		case 1:
			p = concProg{Single: true, End: "commit", Ops: [][2]any{{kinds[rng.Intn(len(kinds))], 1 + rng.Intn(2)}}}
		default:
			p = concProg{Single: false, Managed: rng.Intn(2) == 0, End: "abort",
				Ops: [][2]any{txnShapes[rng.Intn(len(txnShapes))][0]}}
		}
		g.Progs = append(g.Progs, p)
	}
	g.Calls = [][]any{{"has", 1}, {"all"}, {"len"}}
	if !r.quick() {
		g.Calls = [][]any{{"has", 1}, {"has", 2}, {"all"}, {"len"}}
		g.MaxReads = 2
	}
	return g
}

// C05 - concurrent use is race-free and linearizable.
func checkC05(r *Run) {
	rng := rand.New(rand.NewSource(r.Seed))
	// every transaction shape (two inserts; update then write below; two updates; truncate then insert;
	// delete then re-insert) against a one-call writer and a reader, on key sets that share tree nodes
	for i := 0; i < pick(r, 6, 18); i++ {
		exploreConc(r, concGenFor(r, rng, 2, 1, i), "", pick(r, 5*time.Minute, 30*time.Minute))
	}
	exploreConc(r, concGenFor(r, rng, 3, 1, int(r.Seed)), "", pick(r, 5*time.Minute, 30*time.Minute))
	if !r.quick() {
		g3 := concGenFor(r, rng, 3, 1, int(r.Seed)+1)
		exploreConc(r, g3, "", 30*time.Minute)
	}
	// two routes below a node whose key holds two infix catch-alls (its nested lookup structure is rebuilt by every
	// copy of the node): a transaction updating both against a one-call writer and a reader
	gi := concGenFor(r, rand.New(rand.NewSource(r.Seed+7)), 2, 1, 2)
	gi.Keys = []string{"/a/*{x}/b/*{y}/c/d", "/a/*{x}/b/*{y}/c/e"}
	gi.Init = []int{91, 92}
	exploreConc(r, gi, "", pick(r, 5*time.Minute, 30*time.Minute))
	runSingleLoadPerRead(r)
	runRequestKeepsItsState(r)
	runWriterAfterEndings(r)
	runStressD2(r)
	runProtoProofs(r)
	r.assumption("the TLAPS / Apalache results are about the reduced protocol FoxProto, which FoxConc is checked to refine on the bounded instances")
	r.assumption("interleavings are controlled at the verification points of the implementation; code between two points runs without interruption in the replay")
}

// C06 - reads never wait for writers.
func checkC06(r *Run) {
	rng := rand.New(rand.NewSource(r.Seed + 6))
	for i := 0; i < pick(r, 2, 6); i++ {
		exploreConc(r, concGenFor(r, rng, 2, 1, i+int(r.Seed)), "reader-wait", pick(r, 5*time.Minute, 30*time.Minute))
	}
	runWritersVsHeldReaders(r)
	runReadersVsHeldWriters(r)
	runWriterAfterEndings(r)
	r.assumption("a write that does not return within 3 s while a read is held in flight is a wait")
	r.assumption("a read that does not complete within 5 s while a writer is parked, and completes once the writer is released, is a wait")
}
