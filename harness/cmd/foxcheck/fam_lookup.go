package main

import (
	"fmt"
	"math/rand"
	"os"
	"slices"
	"strings"
	"time"
)

// The implementation-shaped matcher (FoxLookup: the explicit-stack walk of lookupByPath over the radix nodes of
// FoxRadix) against the declarative matcher (FoxMatch), decided by TLC alone: for every conflict-free table of the
// pool up to a size and every generated path the two select the same route, the same trailing-slash outcome and the
// same bindings. The binding to the code is indirect and complete: FoxRadix's trees are compared node for node with
// the router's (C07, runRadix) and FoxMatch's selections are replayed on the router (C01 / C08, D1).
//
// Every repair made to the walk (F1, F3, F4, F5, F6, F16, F18) is a switch of the model; with a switch off TLC must find a
// table and a path on which the walk and the reference disagree (the defect at design level). Those negative runs
// are part of the thorough tier and of the self-test: they show that the equivalence check is not vacuous.

type lookupGen struct {
	Pool    []string
	Paths   []string
	Hosts   []string // request hosts; only the first one is used for tables without hostname patterns
	MaxTab  int
	EnumN   int     // the first EnumN patterns of the pool are combined exhaustively
	Extra   [][]int // tables larger than MaxTab, as 1-based pool indices
	Fixes   []string
	Collect bool // witness collection: every disagreement is reported instead of stopping at the first
}

func (g *lookupGen) tla() string {
	var b strings.Builder
	b.WriteString("---- MODULE Gen_Lookup ----\n")
	b.WriteString("GenPool == " + tlaSeqOfChars(g.Pool) + "\n")
	b.WriteString("GenPaths == " + tlaSeqOfChars(g.Paths) + "\n")
	hosts := g.Hosts
	if len(hosts) == 0 {
		hosts = []string{"a.b"}
	}
	b.WriteString("GenHosts == " + tlaSeqOfChars(hosts) + "\n")
	fmt.Fprintf(&b, "GenMaxTab == %d\nGenEnumN == %d\n", g.MaxTab, g.EnumN)
	var ex []string
	for _, t := range g.Extra {
		ex = append(ex, tlaIntSet(t))
	}
	b.WriteString("GenExtraTables == {" + strings.Join(ex, ", ") + "}\n")
	var fx []string
	for _, f := range g.Fixes {
		fx = append(fx, tlaStr(f))
	}
	b.WriteString("GenFixes == {" + strings.Join(fx, ", ") + "}\n")
	b.WriteString("GenCollect == " + tlaBool(g.Collect) + "\n")
	b.WriteString("====\n")
	return b.String()
}

var lookupFixes = []string{"F1", "F2", "F3", "F4", "F5", "F6", "F16", "T1", "T2", "T3", "T4", "T5", "T6", "S1", "S2", "S3", "S4", "P1", "F18"}

// which mode of the model (path tables, hostname tables) reaches the shape a repair is about
var lookupFixMode = map[string]string{"F1": "both", "F2": "host", "F3": "path", "F4": "path", "F5": "path", "F6": "path", "F16": "path",
	"T1": "path", "T2": "path", "T3": "path", "T4": "path", "T5": "path", "T6": "host", "S1": "path", "S2": "path", "S3": "path", "S4": "host", "P1": "path", "F18": "host"}

// the shapes behind the repaired defects and the seeded changes, over the alphabet {a, b}
var lookupCorePool = []string{
	"/a", "/a/", "/{x}", "/{x}/", "/a/{y}", "/*{w}", "/a/*{w}", "/*{w}/b", "/ab", "/a{x}", "/{x}/b", "/b", "/b/",
	"/{x}/{y}", "/a/b", "/*{w}/{y}", "/ab/", "/abb", "/b{y}/*{y}/", "/a/a/a*{x}/",
	"/{x}/b/", "/{x}/bb", "/ab/b/", "/a/b/",
	"/a*{x}/b", "/a*{x}", "/a/{x}/b", "/a/*{w}/b",
}

// witnesses of F1 and F5 need four routes, or routes outside the core pool
var lookupWitnessTables = [][]string{
	{"/a{x}/a/", "/a{x}/{x}/*{x}", "/*{y}/a/b{y}", "/a{x}/{x}/a/"}, // F1: parameters dropped after a second backtrack
	{"/a", "/ab/a", "/ab/b"},          // F5: remove-slash recommendation to an unrelated parent leaf
	{"/", "/*{y}/{x}", "/*{y}/a{x}/"}, // F5, catch-all form
}

func newLookupGen(r *Run, rng *rand.Rand, extraRandom, maxTab, pathLen int) *lookupGen {
	g := &lookupGen{MaxTab: maxTab, Fixes: lookupFixes}
	g.Pool = slices.Clone(lookupCorePool)
	idx := map[string]int{}
	for i, p := range g.Pool {
		idx[p] = i + 1
	}
	add := func(p string) int {
		if i, ok := idx[p]; ok {
			return i
		}
		g.Pool = append(g.Pool, p)
		idx[p] = len(g.Pool)
		return len(g.Pool)
	}
	for tries := 0; extraRandom > 0 && tries < 200; tries++ {
		p := genPattern(rng, false, 3)
		if _, ok := idx[p]; ok {
			continue
		}
		add(p)
		extraRandom--
	}
	g.EnumN = len(g.Pool)
	tables := slices.Clone(lookupWitnessTables)
	for _, t := range awkwardTables { // the path-only ones: FoxLookup models lookupByPath
		if !slices.ContainsFunc(t, func(p string) bool { return !strings.HasPrefix(p, "/") }) {
			tables = append(tables, t)
		}
	}
	for _, t := range tables {
		var ids []int
		for _, p := range t {
			ids = append(ids, add(p))
		}
		g.Extra = append(g.Extra, ids)
	}
	g.Paths = allPaths("ab/", pathLen)
	g.Paths = append(g.Paths, "/ab/a/a", "/a/a/a/a", "/a/a/a/ab", "/b/ab/", "/*/a", "/{/b", "/abb/", "/aba/", "/ab/a/a/", "/abab/a/b")
	g.Paths = append(g.Paths, awkwardPaths...)
	slices.Sort(g.Paths)
	g.Paths = slices.Compact(g.Paths)
	return g
}

// hostname mode: hostname patterns over {a, b, ab} labels above short path patterns
var lookupHostPool = []string{
	"a.b/", "a.b/a", "{h}.b/a", "a.{g}/", "{h}.{g}/a", "a.b.ab/", "a{h}.b/", "{h}/a", "/a", "/", "/{x}", "a.b/{x}", "a.b/a/", "{h}.b/{x}/", "/a/",
}
var lookupHosts = []string{"a.b", "a.ab", "a.b.ab", "b.b", "ab.b", "a", "a.bb", "a.b.", "a..b", "b.a.b", "aa.b", "a.b.a", "/a", "a.b/a", "a/b.b"}

func newLookupHostGen(r *Run, rng *rand.Rand, extraRandom, maxTab, pathLen int) *lookupGen {
	g := &lookupGen{MaxTab: maxTab, Fixes: lookupFixes, Hosts: slices.Clone(lookupHosts)}
	g.Pool = slices.Clone(lookupHostPool)
	idx := map[string]int{}
	for i, p := range g.Pool {
		idx[p] = i + 1
	}
	add := func(p string) int {
		if i, ok := idx[p]; ok {
			return i
		}
		g.Pool = append(g.Pool, p)
		idx[p] = len(g.Pool)
		return len(g.Pool)
	}
	for tries := 0; extraRandom > 0 && tries < 200; tries++ {
		p := genPattern(rng, true, 2)
		if _, ok := idx[p]; ok {
			continue
		}
		add(p)
		extraRandom--
	}
	g.EnumN = len(g.Pool)
	for _, t := range awkwardTables {
		if slices.ContainsFunc(t, func(p string) bool { return !strings.HasPrefix(p, "/") }) {
			var ids []int
			for _, p := range t {
				ids = append(ids, add(p))
			}
			g.Extra = append(g.Extra, ids)
		}
	}
	for _, h := range awkwardHosts {
		if !slices.Contains(g.Hosts, h) {
			g.Hosts = append(g.Hosts, h)
		}
	}
	// hosts that instantiate the pool's hostname patterns
	for _, p := range g.Pool {
		if i := strings.IndexByte(p, '/'); i > 0 {
			h := instantiatePattern(rng, p[:i], []string{"a", "b", "ab"})
			if !slices.Contains(g.Hosts, h) && len(g.Hosts) < 30 {
				g.Hosts = append(g.Hosts, h)
			}
		}
	}
	g.Paths = allPaths("ab/", pathLen)
	g.Paths = append(g.Paths, "/a/b/a", "/ab/b/", "/a/b/")
	slices.Sort(g.Paths)
	g.Paths = slices.Compact(g.Paths)
	return g
}

func runLookupTLC(r *Run, g *lookupGen, tag string) {
	res := r.runTLC(tlcOpts{Module: "MC_Lookup", Tag: tag, Gen: map[string]string{"Gen_Lookup.tla": g.tla()}, Timeout: pick(r, 10*time.Minute, 60*time.Minute)})
	if strings.Contains(res.Output, "walk and reference disagree") {
		failTool("MC_Lookup: the node-level walk and the reference matcher of the specification disagree (a defect of the specification, not a verdict about fox):\n%s", tail(res.Output, 30))
	}
	res.mustClean("MC_Lookup" + tag)
	r.addCov("lookup_model_tables"+tag, res.Distinct/2)
	r.addCov("lookup_model_requests_per_table"+tag, int64(len(g.Paths)*max(1, len(g.Hosts))))
}

func runLookupModel(r *Run, negatives bool) {
	rng := rand.New(rand.NewSource(r.Seed + 4242))
	g := newLookupGen(r, rng, pick(r, 3, 6), 3, pick(r, 5, 6))
	runLookupTLC(r, g, "")
	gh := newLookupHostGen(r, rng, pick(r, 2, 4), 3, pick(r, 3, 4))
	runLookupTLC(r, gh, "-host")
	if negatives && !r.quick() {
		lookupNegativeRuns(r, g, gh)
	}
}

// lookupNegativeRuns: with one repair switched off the model checker must find a disagreement.
func lookupNegativeRuns(r *Run, g, gh *lookupGen) []string {
	var missed []string
	for _, off := range lookupFixes {
		for _, mode := range []string{"path", "host"} {
			if m := lookupFixMode[off]; m != "both" && m != mode {
				continue
			}
			h := *g
			if mode == "host" {
				h = *gh
			}
			h.Fixes = nil
			for _, f := range lookupFixes {
				if f != off {
					h.Fixes = append(h.Fixes, f)
				}
			}
			res := r.runTLC(tlcOpts{Module: "MC_Lookup", Tag: "-" + mode + "-without-" + off, Gen: map[string]string{"Gen_Lookup.tla": h.tla()}, Timeout: 30 * time.Minute})
			if i := strings.Index(res.Output, "walk and reference disagree"); i >= 0 {
				r.addCov("lookup_model_defects_reproduced", 1)
				w := res.Output[i:]
				if len(w) > 700 {
					w = w[:700]
				}
				w = strings.Join(strings.Fields(w), " ")
				r.sample(map[string]any{"rule_switched_off": off, "mode": mode, "witness": w})
				if os.Getenv("FOXCHECK_SHOW_WITNESS") != "" {
					outf("WITNESS %s (%s): %s\n", off, mode, w)
				}
			} else {
				missed = append(missed, off+" ("+mode+" tables)")
			}
		}
	}
	if len(missed) > 0 {
		failTool("MC_Lookup: with the repair(s) %v switched off the model finds no disagreement: the equivalence check does not reach those shapes", missed)
	}
	return missed
}
