package main

import (
	"math/rand"
	"time"
)

func init() {
	register("C02", checkC02)
	register("C03", checkC03)
	register("C04", checkC04)
	register("C07", checkC07)
}

var routerPatternPool = []string{"/a/{x}", "/a/b", "/a/{y}/b", "/a/*{w}", "/a/b/", "/{x}/b", "a.b/a", "{h}.b/a", "/a/b*{w}", "/*{w}/b"}
var routerInvalidPool = []string{"/a/{", "/*{}", "a/b{x}c", "/a/*{x}/*{y}", "noslash"}

func stdProbes(g *routerGen, rng *rand.Rand, n int) {
	paths := []string{"/a/b", "/a/b/", "/a/c", "/a/c/b", "/a/c/b/", "/a", "/b/b", "/a/bc", "/"}
	hosts := []string{"", "a.b", "c.b"}
	for i := 0; i < n; i++ {
		g.Probes = append(g.Probes, probeReq{M: 1 + rng.Intn(len(g.Methods)), Host: hosts[rng.Intn(len(hosts))], Path: paths[rng.Intn(len(paths))]})
	}
	all := make([]int, len(g.Methods))
	for i := range all {
		all[i] = i + 1
	}
	for _, p := range []string{"", "/", "/a", "/a/", "/a/b", "/a/{", "a", "/a/{x}", "/b"} {
		g.Prefixes = append(g.Prefixes, prefixReq{Ms: all, Prefix: p})
	}
	g.Prefixes = append(g.Prefixes, prefixReq{Ms: []int{1}, Prefix: "/a"})
}

func pickPatterns(rng *rand.Rand, nValid, nInvalid int) []string {
	v := append([]string(nil), routerPatternPool...)
	rng.Shuffle(len(v), func(i, j int) { v[i], v[j] = v[j], v[i] })
	// make sure a conflicting pair is present
	out := []string{"/a/{x}", "/a/{y}/b"}
	for _, p := range v {
		if len(out) >= nValid {
			break
		}
		if p != out[0] && p != out[1] {
			out = append(out, p)
		}
	}
	out = out[:nValid]
	iv := append([]string(nil), routerInvalidPool...)
	rng.Shuffle(len(iv), func(i, j int) { iv[i], iv[j] = iv[j], iv[i] })
	out = append(out, iv[:nInvalid]...)
	rng.Shuffle(len(out), func(i, j int) { out[i], out[j] = out[j], out[i] })
	return out
}

func seqGen(r *Run, rng *rand.Rand) *routerGen {
	g := &routerGen{
		Pool:      pickPatterns(rng, pick(r, 4, 5), 1),
		Methods:   []string{"GET", "FOO", "get"},
		MaxOps:    1,
		MaxParams: 65535, MaxKey: 65535,
		Trunc:   [][]int{{}},
		Kinds:   []string{"Handle", "HandleRoute", "Update", "UpdateRoute", "Delete"},
		Settled: []string{"Handle"},
	}
	if !r.quick() {
		g.Methods = []string{"GET", "FOO", "get", ""}
	}
	stdProbes(g, rng, 14)
	return g
}

func txnGen(r *Run, rng *rand.Rand) *routerGen {
	g := &routerGen{
		Pool:      []string{"/a/{x}", "/a/b"},
		Methods:   []string{"GET"},
		Txns:      1,
		Snaps:     1,
		MaxOps:    2,
		MaxParams: 65535, MaxKey: 65535,
		Trunc:   [][]int{{}},
		Kinds:   []string{"Handle", "Update", "Delete"},
		Settled: []string{"Handle", "Has", "Commit", "Snapshot", "Iter", "Abort"},
	}
	if rng.Intn(2) == 0 {
		g.Pool = []string{"/a/b", "/a/{x}"}
	}
	if !r.quick() {
		g.Pool = []string{"/a/{x}", "/a/b", "/a/{y}/b"}
		g.Settled = []string{"Handle", "Update", "Delete", "Truncate", "Has", "Route", "Reverse", "Lookup", "Iter", "Len", "Commit", "Abort", "Snapshot", "HandleRoute", "UpdateRoute"}
	}
	stdProbes(g, rng, 8)
	return g
}

// C02 - registered routes behave as an exact map keyed by (method, pattern).
func checkC02(r *Run) {
	rng := rand.New(rand.NewSource(r.Seed))
	exploreRouter(r, seqGen(r, rng), pick(r, 5*time.Minute, 40*time.Minute), 0)
	// the same map semantics inside transactions, with Truncate (which only exists there), committed and aborted
	tg := &routerGen{
		Pool:      []string{"/a/{x}", "/a/{y}/b"},
		Methods:   []string{"GET", "FOO"},
		Txns:      1,
		MaxOps:    pick(r, 2, 3),
		MaxParams: 65535, MaxKey: 65535,
		Trunc:   [][]int{{}, {1}, {2}, {1, 2}},
		Kinds:   []string{"Handle", "Delete"},
		Settled: []string{"Len"},
	}
	if !r.quick() {
		tg.Pool = []string{"/a/{x}", "/a/{y}/b", "/a/b"}
		tg.Kinds = []string{"Handle", "Update", "Delete"}
	}
	stdProbes(tg, rng, 6)
	exploreRouter(r, tg, pick(r, 5*time.Minute, 40*time.Minute), 0)
	r.assumption("route identity is observed through pointer equality and a per-registration annotation")
}

// C07 - routing depends only on the registered set, not on its history.
func checkC07(r *Run) {
	rng := rand.New(rand.NewSource(r.Seed + 7))
	exploreRouter(r, seqGen(r, rng), pick(r, 5*time.Minute, 40*time.Minute), 0)
	r.assumption("every edge of the exhaustive state graph is one history into its target set; all must answer the probes as the specification prescribes for that set")
}

// C03 - a published routing state never changes.
func checkC03(r *Run) {
	rng := rand.New(rand.NewSource(r.Seed))
	exploreRouter(r, txnGen(r, rng), pick(r, 5*time.Minute, 40*time.Minute), 0)
}

// C04 - transactions are atomic and isolated.
func checkC04(r *Run) {
	rng := rand.New(rand.NewSource(r.Seed + 4))
	exploreRouter(r, txnGen(r, rng), pick(r, 5*time.Minute, 40*time.Minute), 0)
}
