package main

import (
	"math/rand"
	"time"
)

func init() {
	register("C02", checkC02)
	register("C03", checkC03)
	register("C04", checkC04)
	register("C07", checkC07)
	needsHooks["C03"] = true // the conformance of the copy-on-write model reads trees through fox.VerifDump*
	needsHooks["C04"] = true // counting the loads of the published state per request needs the verification point at the load
	needsHooks["C07"] = true // the structural conformance of the radix layer reads the tree through fox.VerifDump
}

var routerPatternPool = []string{"/a/{x}", "/a/b", "/a/{y}/b", "/a/*{w}", "/a/b/", "/{x}/b", "/a/b*{w}", "/*{w}/b", "/a", "/a/b/c", "/a/*{w}/c", "/ab"}

// wildcards that do not open their segment, with different names at the same position (they conflict too)
var routerPrefixedPool = []string{"/a/b{x}/c", "/a/b{y}/d", "/a/b*{w}", "/a/b*{v}/c", "/a/b{x}"}
var routerInvalidPool = []string{"/a/{", "/*{}", "a/b{x}c", "/a/*{x}/*{y}", "noslash", "/a/*b}"}

func stdProbes(g *routerGen, rng *rand.Rand, n int) {
	paths := []string{"/a/b", "/a/b/", "/a/c", "/a/c/b", "/a/c/b/", "/a", "/b/b", "/a/bc", "/", "/a/b/c", "/a/x/y/c", "/x/a", "/x/b", "/x/c", "/x/d", "/ab"}
	hosts := []string{"", "a.b", "c.b", "x.b.c", "a.b.c"}
	for i := 0; i < n; i++ {
		g.Probes = append(g.Probes, probeReq{M: 1 + rng.Intn(len(g.Methods)), Host: hosts[rng.Intn(len(hosts))], Path: paths[rng.Intn(len(paths))]})
	}
	// every pool pattern is probed with a request that instantiates it (first method, and a host that fits)
	for _, p := range g.Pool {
		host, path := "", p
		if i := indexByte(p, '/'); i > 0 {
			host, path = instantiatePattern(rng, p[:i], []string{"a", "x"}), p[i:]
		} else if i < 0 {
			continue
		}
		g.Probes = append(g.Probes, probeReq{M: 1, Host: host, Path: instantiatePattern(rng, path, []string{"b", "c"})})
	}
	all := make([]int, len(g.Methods))
	for i := range all {
		all[i] = i + 1
	}
	for _, p := range []string{"", "/", "/a", "/a/", "/a/b", "/a/{", "a", "/a/{x}", "/b", "/x/", "{h}", "{h}.b"} {
		g.Prefixes = append(g.Prefixes, prefixReq{Ms: all, Prefix: p})
	}
	g.Prefixes = append(g.Prefixes, prefixReq{Ms: []int{1}, Prefix: "/a"})
}

func indexByte(s string, c byte) int {
	for i := 0; i < len(s); i++ {
		if s[i] == c {
			return i
		}
	}
	return -1
}

func baseGen(pool, methods []string) *routerGen {
	return &routerGen{Pool: pool, Methods: methods, MaxOps: 1, MaxParams: 65535, MaxKey: 65535, Trunc: [][]int{{}},
		Kinds: []string{"Handle", "HandleRoute", "Update", "UpdateRoute", "Delete"}, Settled: []string{"Handle"}}
}

// ---- themes: small instances of FoxRouter, each aimed at one family of situations ---------------------------

// every history of the five one-call writes over path patterns: conflicting parameter names, an infix and a
// suffix catch-all, a malformed pattern; valid, custom, invalid (and empty) methods
func themeSeqPath(r *Run, rng *rand.Rand) *routerGen {
	pool := []string{"/a/{x}", "/a/{y}/b", "/*{w}/b"}
	extra := append([]string(nil), routerPatternPool...)
	rng.Shuffle(len(extra), func(i, j int) { extra[i], extra[j] = extra[j], extra[i] })
	for _, p := range extra {
		if len(pool) >= pick(r, 4, 5) {
			break
		}
		if p != pool[0] && p != pool[1] && p != pool[2] {
			pool = append(pool, p)
		}
	}
	pool = append(pool, routerInvalidPool[rng.Intn(len(routerInvalidPool))])
	rng.Shuffle(len(pool), func(i, j int) { pool[i], pool[j] = pool[j], pool[i] })
	g := baseGen(pool, []string{"GET", "FOO", "get"})
	if !r.quick() {
		g.Methods = []string{"GET", "FOO", "get", ""}
	}
	stdProbes(g, rng, 14)
	return g
}

// the same over wildcards preceded by static text inside their segment
func themeSeqPrefixed(r *Run, rng *rand.Rand) *routerGen {
	pool := append([]string(nil), routerPrefixedPool...)
	rng.Shuffle(len(pool), func(i, j int) { pool[i], pool[j] = pool[j], pool[i] })
	pool = pool[:pick(r, 4, 5)]
	g := baseGen(pool, []string{"GET"})
	g.Kinds = []string{"Handle", "Update", "Delete"}
	// a router whose limits are exactly what the pool needs (one wildcard per route, names of one byte): every pattern of
	// the pool is still accepted by Handle, Update and Delete
	g.MaxParams, g.MaxKey = 1, 1
	stdProbes(g, rng, 6)
	return g
}

// the same over hostname patterns: a hostname that is a label-prefix of another, parameter labels with
// conflicting names, a static host, a path-only fallback
func themeSeqHost(r *Run, rng *rand.Rand) *routerGen {
	pool := []string{"{h}.b.c/a", "{h}.b/a", "{g}.b/a/b", "a.b/a", "/a"}
	rng.Shuffle(len(pool), func(i, j int) { pool[i], pool[j] = pool[j], pool[i] })
	g := baseGen(pool, []string{"GET", "FOO"})
	g.Kinds = []string{"Handle", "Update", "Delete"}
	if !r.quick() { // one more hostname, without Update (generation tags would multiply the states)
		g.Pool = append(g.Pool, "a.{h}.c/a")
		g.Kinds = []string{"Handle", "HandleRoute", "Delete"}
	}
	stdProbes(g, rng, 14)
	return g
}

// transactions with Truncate over one standard and two custom methods holding different numbers of routes
func themeTxnTrunc(r *Run, rng *rand.Rand) *routerGen {
	g := baseGen([]string{"/a", "/b"}, []string{"GET", "FOO", "BAR"})
	g.Txns, g.MaxOps = 1, 2
	g.Kinds = []string{"Handle"}
	g.Trunc = [][]int{{}, {1}, {2}, {3}, {2, 3}, {1, 2, 3}}
	g.Settled = []string{"Len"}
	stdProbes(g, rng, 6)
	return g
}

// Truncate with snapshots held across it: the roots slice (one entry per method) is rebuilt by Truncate and by every
// root change; custom methods are removed from it, standard ones emptied in place of a fresh node
func themeTxnTruncSnap(r *Run, rng *rand.Rand) *routerGen {
	g := baseGen([]string{"/a"}, []string{"GET", "FOO", "BAR"})
	g.Txns, g.Snaps, g.MaxOps = 1, 1, 2
	g.Kinds = []string{"Handle"}
	g.Trunc = [][]int{{}, {2}, {3}, {2, 3}, {1}}
	if rng.Intn(2) == 0 {
		g.Trunc = [][]int{{}, {3}, {2}, {3, 2}, {1, 3}}
	}
	g.Settled = []string{"Len"}
	stdProbes(g, rng, 4)
	return g
}

// a transaction in which some writes are refused (a conflict found in the middle of an edge, a duplicate) and the
// caller goes on: the refused calls leave nothing behind, in particular not in Len
func themeTxnConflict(r *Run, rng *rand.Rand) *routerGen {
	pools := [][]string{{"/a/{x}/b", "/a/{y}/c", "/a/{x}/d"}, {"/a/b{x}/c", "/a/b{y}/d", "/a/b"}}
	g := txnBase(pools[rng.Intn(len(pools))], []string{"Handle", "Delete"}, pick(r, 2, 3), 1)
	g.Settled = []string{"Len", "Commit", "Abort"}
	stdProbes(g, rng, 4)
	return g
}

// a route registered on an intermediate node that already has edges, then a write that splits one of those edges, in a
// transaction that commits or aborts
func themeTxnMid(r *Run, rng *rand.Rand) *routerGen {
	g := txnBase([]string{"/a/b", "/a/c", "/a/", "/a/bc"}, []string{"Handle"}, 2, 0)
	g.Settled = []string{"Has"}
	stdProbes(g, rng, 4)
	g.Probes = append(g.Probes, probeReq{M: 1, Path: "/a/bc"}, probeReq{M: 1, Path: "/a/"}, probeReq{M: 1, Path: "/a/b"})
	return g
}

// one node key holding two infix catch-alls (its lookup structure is nested twice), with routes below it: writes
// strictly below that node, in transactions that commit or abort, read back through every entry point
func themeTxnInfix2(r *Run, rng *rand.Rand) *routerGen {
	g := txnBase([]string{"/a/*{x}/b/*{y}/c/d", "/a/*{x}/b/*{y}/c/e", "/a/*{x}/b/*{y}/c/d/f"}, []string{"Handle", "Update", "Delete"}, 2, 0)
	g.Settled = []string{"Has"}
	stdProbes(g, rng, 4)
	for _, p := range []string{"/a/1/b/2/c/d", "/a/1/b/2/c/e", "/a/1/b/2/c/d/f", "/a/1/2/b/3/4/c/d/f", "/a/1/b/2/c/", "/a/1/b/2/c"} {
		g.Probes = append(g.Probes, probeReq{M: 1, Path: p})
	}
	return g
}

func txnBase(pool []string, kinds []string, maxOps, snaps int) *routerGen {
	g := baseGen(pool, []string{"GET"})
	g.Txns, g.Snaps, g.MaxOps = 1, snaps, maxOps
	g.Kinds = kinds
	g.Settled = []string{"Handle", "Has", "Commit", "Snapshot", "Iter", "Abort"}
	return g
}

// a parameter route and a static sibling: transactions, all endings, one snapshot handle
func themeTxnSibling(r *Run, rng *rand.Rand) *routerGen {
	pool := []string{"/a/{x}", "/a/b"}
	if rng.Intn(2) == 0 {
		pool = []string{"/a/b", "/a/{x}"}
	}
	g := txnBase(pool, []string{"Handle", "Update", "Delete"}, 2, 1)
	if !r.quick() {
		g = txnBase([]string{"/a/{x}", "/a/b", "/a/{y}/b"}, []string{"Handle", "Update", "Delete"}, 2, 1)
		g.Settled = []string{"Handle", "Delete", "Truncate", "Route", "Lookup", "Iter", "Len", "Commit", "Abort", "Snapshot", "UpdateRoute"}
	}
	stdProbes(g, rng, 8)
	return g
}

// a route and a route below it: a transaction updates the upper one and then writes below it
func themeTxnNested(r *Run, rng *rand.Rand) *routerGen {
	pools := [][]string{{"/a", "/a/b"}, {"/a/*{w}/c", "/a"}, {"/a/b", "/a/b/c"}}
	g := txnBase(pools[rng.Intn(len(pools))], []string{"Handle", "Update", "Delete"}, 2, 1)
	if !r.quick() {
		g.MaxOps = 3
	}
	stdProbes(g, rng, 8)
	return g
}

// four siblings below one node: children slices that grow by appending, inserted and removed in every order,
// inside transactions that commit or abort, with a snapshot held across
func themeTxnFanout(r *Run, rng *rand.Rand) *routerGen {
	g := txnBase([]string{"/x/a", "/x/b", "/x/c", "/x/d"}, []string{"Handle", "Delete"}, 1, pick(r, 0, 1))
	g.Settled = []string{"Has"}
	stdProbes(g, rng, 6)
	return g
}

func runThemes(r *Run, seedOffset int64, themes ...func(*Run, *rand.Rand) *routerGen) {
	rng := rand.New(rand.NewSource(r.Seed + seedOffset))
	for _, th := range themes {
		exploreRouter(r, th(r, rng), pick(r, 5*time.Minute, 40*time.Minute), 0)
	}
}

// C02 - registered routes behave as an exact map keyed by (method, pattern).
func checkC02(r *Run) {
	runThemes(r, 0, themeSeqPath, themeSeqHost, themeSeqPrefixed, themeTxnTrunc)
	runRouterD2(r, 2)
	runWideNodes(r) // the result classes of the calls on a node wider than any small-node shortcut
	r.assumption("route identity is observed through pointer equality and a per-registration annotation")
}

// C07 - routing depends only on the registered set, not on its history.
func checkC07(r *Run) {
	if only("themes") {
		runThemes(r, 7, themeSeqPath, themeSeqHost, themeTxnFanout, themeTxnNested, themeTxnTrunc, themeTxnMid, themeTxnInfix2)
	}
	if only("matchd2") {
		runMatchD2(r, true, true)
	}
	if only("radix") {
		runRadix(r)
	}
	if only("wide") {
		runWideNodes(r)
	}
	r.assumption("every edge of the exhaustive state graph is one history into its target set; all must answer the probes as the specification prescribes for that set")
}

// C03 - a published routing state never changes.
func checkC03(r *Run) {
	if only("themes") {
		runThemes(r, 3, themeTxnSibling, themeTxnNested, themeTxnFanout, themeTxnTruncSnap, themeTxnInfix2)
	}
	if only("routerd2") {
		runRouterD2(r, 3)
	}
	if only("cow") {
		runCow(r)
		if !r.quick() {
			cowNegativeRuns(r)
		}
	}
	if only("loads") {
		runSingleLoadPerRead(r) // the state a request is served from: loaded once, then frozen
		runRequestKeepsItsState(r)
	}
	if only("roots") {
		runRoots(r)
		if !r.quick() {
			rootsNegativeRuns(r)
		}
	}
}

// C04 - transactions are atomic and isolated.
func checkC04(r *Run) {
	runThemes(r, 4, themeTxnSibling, themeTxnNested, themeTxnTrunc, themeTxnFanout, themeTxnConflict, themeTxnInfix2)
	runPanicInsideWrites(r)
	runSnapshotIsReadOnly(r)
	runWriterAfterEndings(r)
	runSingleLoadPerRead(r) // a request that loads the published state twice can be answered from two sides of a commit
	runRequestKeepsItsState(r)
}
