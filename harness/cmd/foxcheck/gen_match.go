package main

import (
	"fmt"
	"math/rand"
	"slices"
	"sort"
	"strings"
)

// Generators for pattern pools, request paths and hosts of the matcher family (C01, C07, C08, C09, C11).
// Patterns are produced from the documented grammar, so they are valid by construction; the TLA+ side
// re-validates every pool entry with FoxPattern!Valid and drops (and reports) any that is not.

var pathSegs = []string{"a", "b", "ab", "abc", "{x}", "{y}", "a{x}", "b{y}", "ab{x}", "*{x}", "*{y}", "a*{x}", "b*{y}"}
var hostLabels = []string{"a", "b", "ab", "{h}", "a{h}", "{g}", "b{g}"}

// awkwardTables are witnesses of the defects found at design time (DESIGN.md section 6) and other known
// shape-dependent situations; they are permanent members of every run.
var awkwardTables = [][]string{
	{"/a{x}/a/", "/a{x}/{x}/*{x}", "/*{y}/a/b{y}", "/a{x}/{x}/a/"},
	{"/a/*{x}/b/*{y}/a/a", "/a/*{x}/b/*{y}/a/b", "/a/*{x}/b/*{y}/a/a/b"}, // two infix catch-alls in one node key, then a write below it
	{"/ab/", "/abb"},
	{"/a/", "/{x}/a/ab", "/a{x}/a{x}/*{y}"},
	{"/b", "/b{y}/*{y}/"},
	{"/ab", "/abb/a", "/abb/b"},
	{"/", "/*{y}/{x}", "/*{y}/a{x}/"},
	{"/a/a/a*{x}/"},
	{"/*{x}/a/a*{x}/"},
	{"{g}/b/*{x}"},
	{"a.b/", "/a"},
	{"a.b/a/", "/a"},
	{"{g}.{g}.{g}/a", "a.{g}.b/a"},
	{"{g}.a.b/", "{g}.{h}.a.b/", "{g}.{h}.{k}.a/"}, // F1 in lookupByDomain: two backtracks below a captured label
	{"/a/{x}", "/a/b", "/a/*{y}"},
	{"/*{x}", "/*{x}/b", "/a/*{y}/b"},
	{"/a*{x}/b/", "/a{x}/b"},
	// shapes taken from seeded changes (DESIGN.md 13.6): every counter-example becomes permanent
	{"{h}.b/{x}", "{h}.b/a/{y}"},                      // tsr below a host after an abandoned alternative
	{"a.b/{x}/a", "{h}.b/{y}/b"},                      // path parameters of a failed host candidate
	{"/{x}/b/a", "/{x}/{y}/ab/a", "/{x}/{y}/{x}/abc"}, // two nested backtracks below a captured parameter
	{"a.{h}.b/", "{h}.{g}.ab/", "/"},                  // parameter counters across host backtracking
	{"{h}.b/*{w}/a", "{h}.b/a/{y}/"},
	{"/a/$m", "/a/*{w}"},           // a static sibling that sorts before '*' (seeded C01-3)
	{"/a/~u", "/a/{x}", "/a/*{w}"}, // and one that sorts after '{'
	{"/a/!b/c", "/a/{x}/c", "/a/*{w}/d"},
	// hostname patterns made of parameters only, and numeric labels: they match IP-literal hosts label for label
	{"{h}.{g}/a", "/a"},
	{"{h}/a", "a.{g}.b.{h}/a", "/a"},
	{"{h}.b.b.a/a", "a.{g}.{h}.a/b"},
	// witnesses TLC finds when one rule of the modelled walk (spec/FoxLookup.tla) is switched off: each is the smallest
	// table of the model's pool on which that rule decides the answer (DESIGN.md 13.7)
	{"/a", "/{x}"},                         // T1, T4: the first trailing-slash candidate is kept (request /a/)
	{"/{x}/b/", "/{x}/bb", "/b{y}/*{y}/"},  // T2: ... also when a later branch ends on an intermediate node (/bb/b)
	{"/a/ab/b/", "/a/{x}/b/", "/a/{x}/ba"}, // T2, the shape of seeded C08-3 (/a/ab/b)
	{"/a/", "/{x}/"},                       // T3 (/a)
	{"/a/{y}", "/*{w}/{y}"},                // T5: ... and across the sub-lookups of an infix catch-all (/a/b/)
	{"a.b/a", "{h}.b/a"},                   // T6: ... and across hostname alternatives (a.b /a/)
	{"/{x}", "/*{w}/b"},                    // S1: the catch-all next to a parameter is remembered (/a/b)
	{"/a", "/{x}/b"},                       // S2: the parameter next to a static child is remembered (/ab/b/)
	{"/a", "/*{w}"},                        // S3: the catch-all next to a static child is remembered (/ab, /abc/)
	{"a.b/a", "a.{g}/"},                    // S4: the hostname parameter next to a static label is remembered (a.b /)
	{"/{x}", "/*{w}"},                      // P1: the parameters of an abandoned branch are dropped (/a/b)
}

var awkwardPaths = []string{"/a/a/b/b/a/a/b", "/a/a/b/b/a/a", "/a/a/b/b/a/b", "/a/b/a/b/a/b/a/a/b", "/bb/b", "/a/ab/b", "/a/b/", "/ab/b/", "/a/b", "/a/", "/a/c", "/a/$n", "/a/~v", "/a/c/d", "/a/b/ab/abc", "/a/b/a/", "/ab/a/a", "/a", "/b/", "/abb/", "/abc/", "/a/a/a/a", "/a/a/a/ab", "/ab", "/a/b/b", "/a/b/", "/ab/b", "/ab/b/"}
var awkwardHosts = []string{"/a", "a.b/a", "/", "a/b.b", "{a.b", "{a}.b", "a.b..", "a.b..:8080", "1.2", "10.0.0.7", "1", "[::1]:80", "1.b.b.a", "a.1.2.a", "b.a.a.a", "a.ab", "a.b.ab", "a.ab:8080", "aa.abb.abb", "a.b", "a.b.a", "a.b.b", "b.a.b"}

type matchGen struct {
	Pool   []string
	Paths  []string
	Hosts  []string
	Extra  [][]int // extra tables as pool indices (1-based)
	MaxTab int
	enum   int
}

func genPattern(rng *rand.Rand, withHost bool, maxSegs int) string {
	var sb strings.Builder
	if withHost {
		n := 1 + rng.Intn(3)
		for i := 0; i < n; i++ {
			if i > 0 {
				sb.WriteByte('.')
			}
			sb.WriteString(hostLabels[rng.Intn(len(hostLabels))])
		}
	}
	n := rng.Intn(maxSegs + 1)
	prevCatch := false
	for i := 0; i < n; i++ {
		sb.WriteByte('/')
		var s string
		for {
			s = pathSegs[rng.Intn(len(pathSegs))]
			if prevCatch && strings.HasPrefix(s, "*") {
				continue
			}
			break
		}
		prevCatch = strings.Contains(s, "*")
		sb.WriteString(s)
	}
	if n == 0 || rng.Intn(3) == 0 {
		sb.WriteByte('/')
	}
	p := sb.String()
	if withHost && allNumericHost(p) {
		return genPattern(rng, withHost, maxSegs)
	}
	return p
}

func allNumericHost(string) bool { return false } // labels above always contain a letter or a parameter

func uniqueAppend(xs []string, seen map[string]int, s string) ([]string, int) {
	if i, ok := seen[s]; ok {
		return xs, i
	}
	xs = append(xs, s)
	seen[s] = len(xs)
	return xs, len(xs)
}

// allPaths enumerates "/"+s for every s over alphabet up to length n without empty segments.
func allPaths(alphabet string, n int) []string {
	var out []string
	var rec func(cur string)
	rec = func(cur string) {
		out = append(out, cur)
		if len(cur)-1 >= n {
			return
		}
		for i := 0; i < len(alphabet); i++ {
			c := alphabet[i]
			if c == '/' && cur[len(cur)-1] == '/' {
				continue
			}
			rec(cur + string(c))
		}
	}
	rec("/")
	return out
}

func newMatchGen(rng *rand.Rand, nPathOnly, nHost, maxTab, pathLen, maxPaths int, hostsWanted bool) *matchGen {
	g := &matchGen{MaxTab: maxTab}
	seen := map[string]int{}
	// the random part of the pool comes first so that kSubset enumeration covers it
	for len(g.Pool) < nPathOnly {
		g.Pool, _ = uniqueAppend(g.Pool, seen, genPattern(rng, false, 3))
	}
	// hostname patterns: a few hostnames (overlapping static / parameter labels) each above several paths,
	// so that tables hold several routes under one host and hosts that backtrack into one another
	hostHeads := []string{"a.b", "{h}.b", "a.{g}", "{h}.{g}", "a{h}.b", "{h}.a.b", "b", "{g}"}
	rng.Shuffle(len(hostHeads), func(i, j int) { hostHeads[i], hostHeads[j] = hostHeads[j], hostHeads[i] })
	for tries := 0; len(g.Pool) < nPathOnly+nHost && tries < 1000; tries++ {
		h := hostHeads[rng.Intn(min(len(hostHeads), 4))]
		p := genPattern(rng, false, 2)
		if rng.Intn(4) == 0 {
			g.Pool, _ = uniqueAppend(g.Pool, seen, genPattern(rng, true, 2))
		} else {
			g.Pool, _ = uniqueAppend(g.Pool, seen, h+p)
		}
	}
	g.enum = len(g.Pool)
	// awkward tables: appended to the pool (not part of the k-subset enumeration unless they fall in range)
	for _, t := range awkwardTables {
		var ids []int
		hasHost := false
		for _, p := range t {
			if p[0] != '/' {
				hasHost = true
			}
		}
		if hasHost && !hostsWanted {
			continue
		}
		for _, p := range t {
			var id int
			g.Pool, id = uniqueAppend(g.Pool, seen, p)
			ids = append(ids, id)
		}
		sort.Ints(ids)
		g.Extra = append(g.Extra, ids)
	}
	// paths: witnesses, then instances of the pool patterns (and their slash-adjusted forms), then the
	// exhaustive enumeration over {a, b, /} in random order up to the budget
	pseen := map[string]int{}
	for _, p := range awkwardPaths {
		g.Paths, _ = uniqueAppend(g.Paths, pseen, p)
	}
	vals := []string{"a", "b", "ab", "ba"}
	var derived []string
	for _, pat := range g.Pool {
		if i := strings.IndexByte(pat, '/'); i > 0 {
			pat = pat[i:]
		}
		for k := 0; k < 2; k++ {
			inst := instantiatePattern(rng, pat, vals)
			derived = append(derived, inst)
			if len(inst) > 1 && inst[len(inst)-1] == '/' {
				derived = append(derived, inst[:len(inst)-1])
			} else {
				derived = append(derived, inst+"/")
			}
		}
	}
	rng.Shuffle(len(derived), func(i, j int) { derived[i], derived[j] = derived[j], derived[i] })
	for _, p := range derived {
		if len(g.Paths) >= maxPaths/2+len(awkwardPaths) {
			break
		}
		if !strings.Contains(p, "//") {
			g.Paths, _ = uniqueAppend(g.Paths, pseen, p)
		}
	}
	ps := allPaths("ab/", pathLen)
	rng.Shuffle(len(ps), func(i, j int) { ps[i], ps[j] = ps[j], ps[i] })
	for _, p := range ps {
		if len(g.Paths) >= maxPaths {
			break
		}
		g.Paths, _ = uniqueAppend(g.Paths, pseen, p)
	}
	// hosts: exact, with port, trailing dot, extended/truncated on either side, literals, empty
	if hostsWanted {
		hs := []string{"a.b", "a.b:80", "a.b.", "b", "ab", "ab.a.b", "a.b.ab", "aa.b", "a.bb", "a", "", "127.0.0.1", "[::1]:80", "a.b.:8080", "b.a", "ab.b"}
		hseen := map[string]int{}
		for _, h := range awkwardHosts {
			g.Hosts, _ = uniqueAppend(g.Hosts, hseen, h)
		}
		// hosts that instantiate the hostname patterns of the pool, exact and with a port / trailing dot
		nd := 0
		for _, pat := range g.Pool {
			i := strings.IndexByte(pat, '/')
			if i <= 0 || nd >= 10 {
				continue
			}
			inst := instantiatePattern(rng, pat[:i], []string{"a", "b", "ab"})
			before := len(g.Hosts)
			g.Hosts, _ = uniqueAppend(g.Hosts, hseen, inst)
			if rng.Intn(3) == 0 {
				g.Hosts, _ = uniqueAppend(g.Hosts, hseen, inst+":8080")
			}
			nd += len(g.Hosts) - before
		}
		for _, h := range hs {
			g.Hosts, _ = uniqueAppend(g.Hosts, hseen, h)
		}
	} else {
		g.Hosts = []string{"a.b"}
	}
	return g
}

// derivedHostsFirst keeps n hosts, preferring those that instantiate hostname patterns of the pool.
func derivedHostsFirst(g *matchGen, n int) []string {
	aw := map[string]bool{}
	for _, h := range awkwardHosts {
		aw[h] = true
	}
	var first, rest []string
	for _, h := range g.Hosts {
		if aw[h] {
			rest = append(rest, h)
		} else {
			first = append(first, h)
		}
	}
	out := append(first, rest...)
	if len(out) > n {
		out = out[:n]
	}
	return out
}

// withHostSpellings adds, for the first hosts of the list, the spellings a Host header may carry for the same name:
// a port, a trailing dot, and both (the dot then sits in front of the port).
func withHostSpellings(hs []string, n int) []string {
	out := slices.Clone(hs)
	for _, h := range hs {
		if n == 0 {
			break
		}
		if h == "" || strings.ContainsAny(h, ":[") || strings.HasSuffix(h, ".") {
			continue
		}
		n--
		for _, v := range []string{h + ":8080", h + ".", h + ".:8080", h + "..", h + "..:8080"} {
			if !slices.Contains(out, v) {
				out = append(out, v)
			}
		}
	}
	return out
}

func (g *matchGen) tla(checkIrrelevant bool) string {
	var sb strings.Builder
	sb.WriteString("---- MODULE Gen_Match ----\n")
	fmt.Fprintf(&sb, "GenPool == %s\n", tlaSeqOfChars(g.Pool))
	fmt.Fprintf(&sb, "GenPaths == %s\n", tlaSeqOfChars(g.Paths))
	fmt.Fprintf(&sb, "GenHosts == %s\n", tlaSeqOfChars(g.Hosts))
	fmt.Fprintf(&sb, "GenMaxTab == %d\n", g.MaxTab)
	fmt.Fprintf(&sb, "GenEnumN == %d\n", g.enumN())
	parts := make([]string, len(g.Extra))
	for i, t := range g.Extra {
		parts[i] = tlaIntSet(t)
	}
	fmt.Fprintf(&sb, "GenExtraTables == {%s}\n", strings.Join(parts, ", "))
	fmt.Fprintf(&sb, "GenCheckIrrelevant == %s\n", tlaBool(checkIrrelevant))
	sb.WriteString("====\n")
	return sb.String()
}

// enumN is the number of leading pool entries over which all k-subsets are enumerated.
func (g *matchGen) enumN() int {
	n := len(g.Pool)
	if g.enum > 0 && g.enum < n {
		return g.enum
	}
	return n
}

// instantiatePattern substitutes values for the wildcards of a pattern (catch-alls may get several segments).
func instantiatePattern(rng *rand.Rand, pat string, vals []string) string {
	var sb strings.Builder
	for i := 0; i < len(pat); {
		closing := strings.IndexByte(pat[i:], '}')
		switch {
		case pat[i] == '{' && closing > 0:
			sb.WriteString(vals[rng.Intn(len(vals))])
			i += closing + 1
		case pat[i] == '*' && i+1 < len(pat) && pat[i+1] == '{' && closing > 0:
			sb.WriteString(vals[rng.Intn(len(vals))])
			if rng.Intn(2) == 0 {
				sb.WriteString("/" + vals[rng.Intn(len(vals))])
			}
			i += closing + 1
		default: // literal text (and malformed wildcards, kept as they are)
			sb.WriteByte(pat[i])
			i++
		}
	}
	return sb.String()
}
