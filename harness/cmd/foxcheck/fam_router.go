package main

import (
	"encoding/json"
	"errors"
	"fmt"
	"net/http"
	"runtime"
	"slices"
	"sort"
	"strings"
	"sync"
	"sync/atomic"
	"time"

	"github.com/tigerwill90/fox"
)

// ---- constants of MC_Router / MC_Probe -----------------------------------------------------------

type routerGen struct {
	Pool      []string
	Methods   []string
	Txns      int
	Snaps     int
	MaxOps    int
	MaxParams int
	MaxKey    int
	Trunc     [][]int // method index sets ({} = all)
	Kinds     []string
	Settled   []string
	Probes    []probeReq // for MC_Probe
	Prefixes  []prefixReq
}

type probeReq struct {
	M    int // method index (1-based)
	Host string
	Path string
}

type prefixReq struct {
	Ms     []int
	Prefix string
}

func tlaRange(n int) string {
	xs := make([]int, n)
	for i := range xs {
		xs[i] = i + 1
	}
	return tlaIntSet(xs)
}

func tlaStrSet(ss []string) string {
	parts := make([]string, len(ss))
	for i, s := range ss {
		parts[i] = tlaStr(s)
	}
	return "{" + strings.Join(parts, ", ") + "}"
}

func (g *routerGen) tla() string {
	var sb strings.Builder
	sb.WriteString("---- MODULE Gen_Router ----\n")
	fmt.Fprintf(&sb, "GenPool == %s\n", tlaSeqOfChars(g.Pool))
	fmt.Fprintf(&sb, "GenMethods == %s\n", tlaSeqOfChars(g.Methods))
	fmt.Fprintf(&sb, "GenTxns == %s\nGenSnaps == %s\n", tlaRange(g.Txns), tlaRange(g.Snaps))
	fmt.Fprintf(&sb, "GenMaxOps == %d\nGenMaxParams == %d\nGenMaxKey == %d\n", g.MaxOps, g.MaxParams, g.MaxKey)
	ts := make([]string, len(g.Trunc))
	for i, t := range g.Trunc {
		ts[i] = tlaIntSet(t)
	}
	fmt.Fprintf(&sb, "GenTruncSets == {%s}\n", strings.Join(ts, ", "))
	fmt.Fprintf(&sb, "GenKinds == %s\nGenSettled == %s\n", tlaStrSet(g.Kinds), tlaStrSet(g.Settled))
	sb.WriteString("====\n")
	return sb.String()
}

func (g *routerGen) probeTLA(sets [][][2]int) string {
	var sb strings.Builder
	sb.WriteString("---- MODULE Gen_Probe ----\n")
	fmt.Fprintf(&sb, "GenPool == %s\n", tlaSeqOfChars(g.Pool))
	ss := make([]string, len(sets))
	for i, s := range sets {
		es := make([]string, len(s))
		for j, e := range s {
			es[j] = fmt.Sprintf("<<%d,%d>>", e[0], e[1])
		}
		ss[i] = "{" + strings.Join(es, ",") + "}"
	}
	fmt.Fprintf(&sb, "GenSets == <<%s>>\n", strings.Join(ss, ",\n  "))
	ps := make([]string, len(g.Probes))
	for i, p := range g.Probes {
		ps[i] = fmt.Sprintf("<<%d, %s, %s>>", p.M, tlaChars(p.Host), tlaChars(p.Path))
	}
	fmt.Fprintf(&sb, "GenProbes == <<%s>>\n", strings.Join(ps, ",\n  "))
	xs := make([]string, len(g.Prefixes))
	for i, p := range g.Prefixes {
		xs[i] = fmt.Sprintf("<<%s, %s>>", tlaIntSet(p.Ms), tlaChars(p.Prefix))
	}
	fmt.Fprintf(&sb, "GenPrefixes == <<%s>>\n", strings.Join(xs, ",\n  "))
	sb.WriteString("====\n")
	return sb.String()
}

// ---- projected specification state ---------------------------------------------------------------

type projTxn struct {
	St      string   `json:"st"`
	Write   bool     `json:"write"`
	Managed bool     `json:"managed"`
	Work    [][3]int `json:"work"`
	N       int      `json:"n"`
}

type projSnap struct {
	Kind string   `json:"kind"`
	S    [][3]int `json:"S"`
	From int      `json:"from"`
}

type projState struct {
	Pub  [][3]int   `json:"pub"`
	Lock int        `json:"lock"`
	Txn  []projTxn  `json:"txn"`
	Snap []projSnap `json:"snap"`
}

func (p *projState) key() string {
	b, _ := json.Marshal(p)
	return string(b)
}

type projOp struct {
	Name    string `json:"name"`
	T       int    `json:"t"`
	S       int    `json:"s"`
	M       int    `json:"m"`
	P       int    `json:"p"`
	Ms      []int  `json:"ms"`
	Err     string `json:"err"`
	Matched []int  `json:"matched"`
	Route   int    `json:"route"`
}

type projEdge struct {
	From projState `json:"from"`
	Op   projOp    `json:"op"`
	To   projState `json:"to"`
}

// ---- per-set observations from MC_Probe ----------------------------------------------------------

type setObs struct {
	I       int        `json:"i"`
	Len     int        `json:"len"`
	Methods []int      `json:"methods"`
	Prefix  [][][2]int `json:"prefix"`
	Probes  [][]any    `json:"probes"`
}

func setKey(entries [][3]int) string {
	ps := make([][2]int, len(entries))
	for i, e := range entries {
		ps[i] = [2]int{e[0], e[1]}
	}
	sort.Slice(ps, func(i, j int) bool { return ps[i][0] < ps[j][0] || (ps[i][0] == ps[j][0] && ps[i][1] < ps[j][1]) })
	return fmt.Sprint(ps)
}

// ---- the concrete side: a real router driven along a specification behaviour ------------------------

type gTag struct{}

type rkey [2]int // (method index, pool index), 1-based

type view map[rkey]*fox.Route

func (v view) with(k rkey, r *fox.Route) view {
	n := make(view, len(v)+1)
	for a, b := range v {
		n[a] = b
	}
	n[k] = r
	return n
}

func (v view) without(pred func(rkey) bool) view {
	n := make(view, len(v))
	for a, b := range v {
		if !pred(a) {
			n[a] = b
		}
	}
	return n
}

type txnSess struct {
	txn     *fox.Txn
	write   bool
	managed bool
	work    view
	// managed transactions run inside Updates/View on their own goroutine; calls are shipped to it
	calls chan func(*fox.Txn)
	end   chan managedEnd // how the function should end
	done  chan managedOutcome
	ended bool
}

type managedEnd struct {
	kind string // "return", "error", "panic"
}

type managedOutcome struct {
	exited   bool
	err      error
	panicked any
}

type snapSess struct {
	kind string
	it   fox.Iter
	txn  *fox.Txn
	v    view
}

type concrete struct {
	g     *routerGen
	r     *fox.Router
	pub   view
	txns  map[int]*txnSess
	snaps map[int]*snapSess
}

func newConcrete(g *routerGen) *concrete {
	opts := []fox.GlobalOption{}
	if g.MaxParams < 65535 {
		opts = append(opts, fox.WithMaxRouteParams(uint16(g.MaxParams)))
	}
	if g.MaxKey < 65535 {
		opts = append(opts, fox.WithMaxRouteParamKeyBytes(uint16(g.MaxKey)))
	}
	r, err := fox.New(opts...)
	if err != nil {
		failTool("fox.New: %v", err)
	}
	return &concrete{g: g, r: r, pub: view{}, txns: map[int]*txnSess{}, snaps: map[int]*snapSess{}}
}

// close ends every goroutine and releases the lock of transactions still open.
func (c *concrete) close() {
	for _, t := range c.txns {
		if t.managed && !t.ended {
			t.end <- managedEnd{kind: "error"}
			<-t.done
			t.ended = true
		} else if !t.managed && t.txn != nil {
			func() {
				defer func() { recover() }()
				t.txn.Abort()
			}()
		}
	}
}

var errSentinel = errors.New("verif: sentinel error returned by the transaction function")

type panicSentinel struct{ n int }

func errClass(err error) string {
	switch {
	case err == nil:
		return "ok"
	case errors.Is(err, fox.ErrReadOnlyTxn):
		return "readonly"
	case errors.Is(err, fox.ErrRouteExist):
		return "exist"
	case errors.Is(err, fox.ErrRouteConflict):
		return "conflict"
	case errors.Is(err, fox.ErrRouteNotFound):
		return "notfound"
	case errors.Is(err, fox.ErrInvalidRoute):
		return "invalid"
	case errors.Is(err, fox.ErrInvalidConfig):
		return "invalidconfig"
	}
	return "other: " + err.Error()
}

// callResult is what one real call produced, projected to the vocabulary of the specification.
type callResult struct {
	Err     string   `json:"err"`
	Matched []string `json:"matched,omitempty"` // conflict list (patterns), sorted
	Note    string   `json:"note,omitempty"`    // anything the specification does not allow
	route   *fox.Route
}

// watchdog runs f and reports whether it returned within the limit. A call that the specification
// enables (lock free) but that never returns in a single-threaded replay can only be blocked on the
// writer lock.
func watchdog(f func()) bool {
	done := make(chan struct{})
	go func() {
		defer close(done)
		f()
	}()
	select {
	case <-done:
		return true
	case <-time.After(10 * time.Second):
		return false
	}
}

type writer interface {
	Handle(method, pattern string, handler fox.HandlerFunc, opts ...fox.RouteOption) (*fox.Route, error)
	HandleRoute(method string, route *fox.Route) error
	Update(method, pattern string, handler fox.HandlerFunc, opts ...fox.RouteOption) (*fox.Route, error)
	UpdateRoute(method string, route *fox.Route) error
	Delete(method, pattern string) (*fox.Route, error)
}

func (c *concrete) doWrite(w writer, kind string, m, p, g int) (res callResult) {
	method, pattern := c.g.Methods[m-1], c.g.Pool[p-1]
	h := routeHandler(method + " " + pattern)
	opt := fox.WithAnnotation(gTag{}, g)
	defer func() {
		if x := recover(); x != nil {
			res = callResult{Err: "panic", Note: fmt.Sprint(x)}
		}
	}()
	var rte *fox.Route
	var err error
	switch kind {
	case "Handle":
		rte, err = w.Handle(method, pattern, h, opt)
	case "Update":
		rte, err = w.Update(method, pattern, h, opt)
	case "HandleRoute", "UpdateRoute":
		rte, err = c.r.NewRoute(pattern, h, opt)
		if err == nil {
			if kind == "HandleRoute" {
				err = w.HandleRoute(method, rte)
			} else {
				err = w.UpdateRoute(method, rte)
			}
		} else {
			// the pattern is malformed: a nil route must be refused too
			var e2 error
			if kind == "HandleRoute" {
				e2 = w.HandleRoute(method, nil)
			} else {
				e2 = w.UpdateRoute(method, nil)
			}
			if errClass(e2) != "invalid" && errClass(e2) != "readonly" {
				res.Note = "nil route accepted: " + errClass(e2)
			}
		}
	case "Delete":
		rte, err = w.Delete(method, pattern)
	}
	res.Err = errClass(err)
	if err != nil {
		if rte != nil && (kind == "Handle" || kind == "Update" || kind == "Delete") {
			res.Note = "non-nil route returned together with an error"
		}
		rte = nil
		var ce *fox.RouteConflictError
		if errors.As(err, &ce) {
			res.Matched = append([]string(nil), ce.Matched...)
			sort.Strings(res.Matched)
		}
	} else if rte == nil {
		res.Note = "nil route returned without error"
	}
	res.route = rte
	return res
}

func (c *concrete) methodsOf(ms []int) []string {
	out := make([]string, len(ms))
	for i, m := range ms {
		out[i] = c.g.Methods[m-1]
	}
	return out
}

// onTxn runs f against the transaction handle of session t (inside the managed function when managed).
func (t *txnSess) onTxn(f func(*fox.Txn)) {
	if t.managed && !t.ended {
		ch := make(chan struct{})
		t.calls <- func(x *fox.Txn) { f(x); close(ch) }
		<-ch
		return
	}
	f(t.txn)
}

// apply performs one specification step on the real objects and returns what happened.
func (c *concrete) apply(op projOp) (res callResult) {
	name := op.Name
	switch {
	case strings.HasPrefix(name, "Router.") && name != "Router.Iter":
		kind := strings.TrimPrefix(name, "Router.")
		var r callResult
		if !watchdog(func() { r = c.doWrite(c.r, kind, op.M, op.P, op.Route) }) {
			return callResult{Err: "blocked", Note: "the call never returned although the specification has the writer lock free"}
		}
		k := rkey{op.M, op.P}
		if r.Err == "ok" {
			switch kind {
			case "Delete":
				if r.route != c.pub[k] {
					r.Note = "Delete did not return the registered route object"
				}
				c.pub = c.pub.without(func(x rkey) bool { return x == k })
			default:
				c.pub = c.pub.with(k, r.route)
			}
		}
		return r
	case name == "Begin":
		write, managed := op.Route&1 == 1, op.Route&2 == 2
		t := &txnSess{write: write, managed: managed, work: c.pub}
		if !managed {
			if !watchdog(func() { t.txn = c.r.Txn(write) }) {
				return callResult{Err: "blocked", Note: "Router.Txn(true) never returned although the specification has the writer lock free"}
			}
		} else {
			t.calls = make(chan func(*fox.Txn))
			t.end = make(chan managedEnd)
			t.done = make(chan managedOutcome, 1)
			started := make(chan *fox.Txn, 1)
			fn := func(x *fox.Txn) error {
				started <- x
				for {
					select {
					case f := <-t.calls:
						f(x)
					case e := <-t.end:
						switch e.kind {
						case "error":
							return errSentinel
						case "panic":
							panic(panicSentinel{42})
						case "goexit":
							runtime.Goexit()
						}
						return nil
					}
				}
			}
			go func() {
				var out managedOutcome
				defer func() {
					if p := recover(); p != nil {
						out.panicked = p
					}
					t.done <- out
				}()
				out.exited = true // stays so when the goroutine leaves through runtime.Goexit
				if write {
					out.err = c.r.Updates(fn)
				} else {
					out.err = c.r.View(fn)
				}
				out.exited = false
			}()
			select {
			case t.txn = <-started:
			case <-time.After(10 * time.Second):
				return callResult{Err: "blocked", Note: "Updates/View never entered its function although the specification has the writer lock free"}
			}
		}
		c.txns[op.T] = t
		return callResult{Err: "ok"}
	case strings.HasPrefix(name, "Txn.") && name != "Txn.Iter" && name != "Txn.Snapshot" && name != "Txn.Truncate":
		kind := strings.TrimPrefix(name, "Txn.")
		t := c.txns[op.T]
		var r callResult
		t.onTxn(func(x *fox.Txn) { r = c.doWrite(x, kind, op.M, op.P, op.Route) })
		k := rkey{op.M, op.P}
		if r.Err == "ok" {
			switch kind {
			case "Delete":
				if r.route != t.work[k] {
					r.Note = "Delete did not return the registered route object"
				}
				t.work = t.work.without(func(x rkey) bool { return x == k })
			default:
				t.work = t.work.with(k, r.route)
			}
		}
		return r
	case name == "Txn.Truncate":
		t := c.txns[op.T]
		var err error
		t.onTxn(func(x *fox.Txn) { err = x.Truncate(c.methodsOf(op.Ms)...) })
		if err == nil {
			in := map[int]bool{}
			for _, m := range op.Ms {
				in[m] = true
			}
			t.work = t.work.without(func(x rkey) bool { return len(op.Ms) == 0 || in[x[0]] })
		}
		return callResult{Err: errClass(err)}
	case name == "Commit":
		t := c.txns[op.T]
		t.onTxn(func(x *fox.Txn) { x.Commit() })
		if t.write {
			c.pub = t.work
		}
		return callResult{Err: "ok"}
	case name == "Abort":
		t := c.txns[op.T]
		t.onTxn(func(x *fox.Txn) { x.Abort() })
		return callResult{Err: "ok"}
	case name == "FnReturn" || name == "FnError" || name == "FnPanic" || name == "FnGoexit":
		t := c.txns[op.T]
		kind := map[string]string{"FnReturn": "return", "FnError": "error", "FnPanic": "panic", "FnGoexit": "goexit"}[name]
		t.end <- managedEnd{kind: kind}
		var out managedOutcome
		select {
		case out = <-t.done:
		case <-time.After(10 * time.Second):
			return callResult{Err: "blocked", Note: "Updates/View never returned"}
		}
		t.ended = true
		r := callResult{Err: "ok"}
		switch name {
		case "FnReturn":
			if out.err != nil || out.panicked != nil {
				r.Note = fmt.Sprintf("function returned nil but the wrapper gave err=%v panic=%v", out.err, out.panicked)
			}
			if t.write {
				c.pub = t.work
			}
		case "FnError":
			if out.err != errSentinel || out.panicked != nil {
				r.Note = fmt.Sprintf("function returned an error but the wrapper gave err=%v panic=%v", out.err, out.panicked)
			}
		case "FnPanic":
			if out.panicked != (panicSentinel{42}) {
				r.Note = fmt.Sprintf("function panicked but the wrapper gave err=%v panic=%v", out.err, out.panicked)
			}
		case "FnGoexit":
			if !out.exited || out.panicked != nil {
				r.Note = fmt.Sprintf("the goroutine left through runtime.Goexit but the wrapper gave err=%v panic=%v", out.err, out.panicked)
			}
		}
		if !t.write {
			delete(c.txns, op.T)
		}
		return r
	case strings.HasPrefix(name, "Settled."):
		t := c.txns[op.T]
		call := strings.TrimPrefix(name, "Settled.")
		return settledCall(c, t.txn, call)
	case name == "Forget":
		t := c.txns[op.T]
		if t.managed && !t.ended {
			t.end <- managedEnd{kind: "return"}
			<-t.done
			t.ended = true
		}
		delete(c.txns, op.T)
		return callResult{Err: "ok"}
	case name == "Router.Iter":
		c.snaps[op.S] = &snapSess{kind: "iter", it: c.r.Iter(), v: c.pub}
		return callResult{Err: "ok"}
	case name == "Txn.Iter":
		t := c.txns[op.T]
		s := &snapSess{kind: "txniter", v: t.work}
		t.onTxn(func(x *fox.Txn) { s.it = x.Iter() })
		c.snaps[op.S] = s
		return callResult{Err: "ok"}
	case name == "Txn.Snapshot":
		t := c.txns[op.T]
		s := &snapSess{kind: "txnsnap", v: t.work}
		t.onTxn(func(x *fox.Txn) { s.txn = x.Snapshot() })
		c.snaps[op.S] = s
		if s.txn == nil {
			return callResult{Err: "ok", Note: "Snapshot of an open transaction returned nil"}
		}
		return callResult{Err: "ok"}
	case name == "DropSnap":
		delete(c.snaps, op.S)
		return callResult{Err: "ok"}
	}
	failTool("replayer: unknown specification action %q", name)
	return
}

// settledCall tries one call on a settled write transaction.
func settledCall(c *concrete, x *fox.Txn, call string) (res callResult) {
	defer func() {
		if p := recover(); p != nil {
			if e, ok := p.(error); ok && errors.Is(e, fox.ErrSettledTxn) {
				res = callResult{Err: "settled"}
			} else {
				res = callResult{Err: "panic", Note: fmt.Sprint(p)}
			}
		}
	}()
	h := routeHandler("x")
	switch call {
	case "Handle":
		_, err := x.Handle("GET", "/settled", h)
		return callResult{Err: "returned:" + errClass(err)}
	case "HandleRoute":
		rte, _ := c.r.NewRoute("/settled", h)
		return callResult{Err: "returned:" + errClass(x.HandleRoute("GET", rte))}
	case "Update":
		_, err := x.Update("GET", "/settled", h)
		return callResult{Err: "returned:" + errClass(err)}
	case "UpdateRoute":
		rte, _ := c.r.NewRoute("/settled", h)
		return callResult{Err: "returned:" + errClass(x.UpdateRoute("GET", rte))}
	case "Delete":
		_, err := x.Delete("GET", "/settled")
		return callResult{Err: "returned:" + errClass(err)}
	case "Truncate":
		return callResult{Err: "returned:" + errClass(x.Truncate())}
	case "Has":
		x.Has("GET", "/settled")
		return callResult{Err: "returned"}
	case "Route":
		x.Route("GET", "/settled")
		return callResult{Err: "returned"}
	case "Reverse":
		x.Reverse("GET", "", "/settled")
		return callResult{Err: "returned"}
	case "Lookup":
		req, _ := newRequest("GET", "", "/settled", "")
		_, cc, _ := x.Lookup(nil, req)
		if cc != nil {
			cc.Close()
		}
		return callResult{Err: "returned"}
	case "Iter":
		x.Iter()
		return callResult{Err: "returned"}
	case "Len":
		x.Len()
		return callResult{Err: "returned"}
	case "Commit":
		x.Commit()
		return callResult{Err: "noop"}
	case "Abort":
		x.Abort()
		return callResult{Err: "noop"}
	case "Snapshot":
		if x.Snapshot() == nil {
			return callResult{Err: "nil"}
		}
		return callResult{Err: "non-nil snapshot"}
	}
	failTool("unknown settled call %q", call)
	return
}

// ---- comparing the concrete state with the projected specification state --------------------------

type fullAccessor interface {
	Has(method, pattern string) bool
	Route(method, pattern string) *fox.Route
	Len() int
	Iter() fox.Iter
	Reverse(method, host, path string) (*fox.Route, bool)
	Lookup(w fox.ResponseWriter, r *http.Request) (*fox.Route, fox.ContextCloser, bool)
}

// viewMatches checks the concrete view against the projected set (keys and generation tags).
func (c *concrete) viewMatches(v view, entries [][3]int) string {
	if len(v) != len(entries) {
		return fmt.Sprintf("tracked view has %d routes, specification set has %d", len(v), len(entries))
	}
	for _, e := range entries {
		r, ok := v[rkey{e[0], e[1]}]
		if !ok || r == nil {
			return fmt.Sprintf("route %v missing from tracked view", e)
		}
		if g, _ := r.Annotation(gTag{}).(int); g != e[2] {
			return fmt.Sprintf("route %v carries generation %d", e, g)
		}
	}
	return ""
}

type obsTable map[string]*setObs

func (c *concrete) validKey(m, p int) bool { return true }

// observeFull reads everything a Router or Txn exposes and compares it with the view / set observations.
func (c *concrete) observeFull(acc fullAccessor, v view, ob *setObs, cnt *atomic.Int64) []string {
	var bad []string
	n := int64(0)
	if l := acc.Len(); l != ob.Len {
		bad = append(bad, fmt.Sprintf("Len()=%d want %d", l, ob.Len))
	}
	for mi, m := range c.g.Methods {
		for pi, p := range c.g.Pool {
			want := v[rkey{mi + 1, pi + 1}]
			n += 2
			if got := acc.Route(m, p); got != want {
				bad = append(bad, fmt.Sprintf("Route(%q,%q)=%s want %s", m, p, routeDesc(got), routeDesc(want)))
			}
			if got := acc.Has(m, p); got != (want != nil) {
				bad = append(bad, fmt.Sprintf("Has(%q,%q)=%v", m, p, got))
			}
		}
	}
	for k, pr := range c.g.Probes {
		o := ob.Probes[k]
		wantP := int(o[0].(float64))
		wantTsr := o[1].(float64) == 1
		var want *fox.Route
		if wantP > 0 {
			want = v[rkey{pr.M, wantP}]
		}
		m := c.g.Methods[pr.M-1]
		n += 2
		got, tsr := acc.Reverse(m, pr.Host, pr.Path)
		if got != want || (want != nil && tsr != wantTsr) {
			bad = append(bad, fmt.Sprintf("Reverse(%q,%q,%q)=(%s,%v) want (%s,%v)", m, pr.Host, pr.Path, routeDesc(got), tsr, routeDesc(want), wantTsr))
		}
		req, _ := newRequest(m, pr.Host, pr.Path, "")
		lr, cc, ltsr := acc.Lookup(nil, req)
		var params [][2]string
		if cc != nil {
			params = paramsOf(cc)
			cc.Close()
		}
		var wantParams [][2]string
		for _, kv := range o[2].([]any) {
			a := kv.([]any)
			wantParams = append(wantParams, [2]string{a[0].(string), a[1].(string)})
		}
		if lr != want || (want != nil && (ltsr != wantTsr || !sameParams(params, wantParams))) {
			bad = append(bad, fmt.Sprintf("Lookup(%q,%q,%q)=(%s,%v,%v) want (%s,%v,%v)", m, pr.Host, pr.Path, routeDesc(lr), ltsr, params, routeDesc(want), wantTsr, wantParams))
		}
	}
	cnt.Add(n)
	return bad
}

func routeDesc(r *fox.Route) string {
	if r == nil {
		return "nil"
	}
	g, _ := r.Annotation(gTag{}).(int)
	return fmt.Sprintf("%s#%d@%p", r.Pattern(), g, r)
}

// observeIter reads everything an Iter exposes.
func (c *concrete) observeIter(it fox.Iter, v view, ob *setObs, cnt *atomic.Int64) []string {
	var bad []string
	n := int64(0)
	midx := map[string]int{}
	for i, m := range c.g.Methods {
		midx[m] = i + 1
	}
	// Methods
	var gotM []int
	seenM := map[string]bool{}
	for m := range it.Methods() {
		if seenM[m] {
			bad = append(bad, "Methods() yields "+m+" twice")
		}
		seenM[m] = true
		gotM = append(gotM, midx[m])
	}
	sort.Ints(gotM)
	if !slices.Equal(gotM, ob.Methods) && !(len(gotM) == 0 && len(ob.Methods) == 0) {
		bad = append(bad, fmt.Sprintf("Methods()=%v want %v", gotM, ob.Methods))
	}
	// All
	seen := map[rkey]bool{}
	cntAll := 0
	for m, r := range it.All() {
		cntAll++
		k, ok := c.keyOf(midx, m, r)
		if !ok || v[k] != r {
			bad = append(bad, fmt.Sprintf("All() yields (%s,%s) which is not the registered route", m, routeDesc(r)))
			continue
		}
		if seen[k] {
			bad = append(bad, fmt.Sprintf("All() yields (%s,%s) twice", m, r.Pattern()))
		}
		seen[k] = true
	}
	if cntAll != len(v) {
		bad = append(bad, fmt.Sprintf("All() yields %d routes want %d", cntAll, len(v)))
	}
	n += int64(cntAll) + 1
	// Routes: exact pattern, all methods
	allMethods := slices.Values(c.g.Methods)
	for pi, p := range c.g.Pool {
		got := map[rkey]bool{}
		for m, r := range it.Routes(allMethods, p) {
			k, ok := c.keyOf(midx, m, r)
			if !ok || v[k] != r || k[1] != pi+1 {
				bad = append(bad, fmt.Sprintf("Routes(%q) yields (%s,%s)", p, m, routeDesc(r)))
			}
			got[k] = true
		}
		want := 0
		for k := range v {
			if k[1] == pi+1 {
				want++
				if !got[k] {
					bad = append(bad, fmt.Sprintf("Routes(%q) misses method %s", p, c.g.Methods[k[0]-1]))
				}
			}
		}
		n++
	}
	// Prefix
	for i, pq := range c.g.Prefixes {
		want := map[rkey]bool{}
		for _, e := range ob.Prefix[i] {
			want[rkey{e[0], e[1]}] = true
		}
		got := map[rkey]bool{}
		for m, r := range it.Prefix(slices.Values(c.methodsOf(pq.Ms)), pq.Prefix) {
			k, ok := c.keyOf(midx, m, r)
			if !ok || v[k] != r {
				bad = append(bad, fmt.Sprintf("Prefix(%q) yields (%s,%s)", pq.Prefix, m, routeDesc(r)))
				continue
			}
			if got[k] {
				bad = append(bad, fmt.Sprintf("Prefix(%q) yields (%s,%s) twice", pq.Prefix, m, r.Pattern()))
			}
			got[k] = true
		}
		if len(got) != len(want) {
			bad = append(bad, fmt.Sprintf("Prefix(%v,%q) yields %d routes want %d", pq.Ms, pq.Prefix, len(got), len(want)))
		} else {
			for k := range want {
				if !got[k] {
					bad = append(bad, fmt.Sprintf("Prefix(%q) misses %v", pq.Prefix, k))
				}
			}
		}
		n++
	}
	// Reverse through the iterator (routes carry no trailing-slash option here: only direct matches are yielded)
	for k, pr := range c.g.Probes {
		o := ob.Probes[k]
		wantP := int(o[0].(float64))
		wantTsr := o[1].(float64) == 1
		m := c.g.Methods[pr.M-1]
		var got []*fox.Route
		for _, r := range it.Reverse(slices.Values([]string{m}), pr.Host, pr.Path) {
			got = append(got, r)
		}
		var want []*fox.Route
		if wantP > 0 && !wantTsr {
			want = []*fox.Route{v[rkey{pr.M, wantP}]}
		}
		if !slices.Equal(got, want) {
			bad = append(bad, fmt.Sprintf("Iter.Reverse(%q,%q,%q) yields %d routes want %d", m, pr.Host, pr.Path, len(got), len(want)))
		}
		n++
	}
	cnt.Add(n)
	return bad
}

func (c *concrete) keyOf(midx map[string]int, m string, r *fox.Route) (rkey, bool) {
	if r == nil {
		return rkey{}, false
	}
	mi, ok := midx[m]
	if !ok {
		return rkey{}, false
	}
	for pi, p := range c.g.Pool {
		if p == r.Pattern() {
			return rkey{mi, pi + 1}, true
		}
	}
	return rkey{}, false
}

// compareState checks every view of the concrete state against the projected specification state.
func (c *concrete) compareState(st *projState, obs obsTable, cnt *atomic.Int64) []string {
	var bad []string
	add := func(where string, xs []string) {
		for _, x := range xs {
			bad = append(bad, where+": "+x)
		}
	}
	lookupObs := func(entries [][3]int) *setObs {
		ob := obs[setKey(entries)]
		if ob == nil {
			failTool("no MC_Probe observation for set %v", entries)
		}
		return ob
	}
	if m := c.viewMatches(c.pub, st.Pub); m != "" {
		bad = append(bad, "published: "+m)
	} else {
		ob := lookupObs(st.Pub)
		add("Router", c.observeFull(c.r, c.pub, ob, cnt))
		add("Router.Iter()", c.observeIter(c.r.Iter(), c.pub, ob, cnt))
	}
	for i, pt := range st.Txn {
		t := c.txns[i+1]
		if pt.St != "open" {
			continue
		}
		if t == nil {
			bad = append(bad, fmt.Sprintf("txn %d: open in the specification, unknown to the replayer", i+1))
			continue
		}
		if m := c.viewMatches(t.work, pt.Work); m != "" {
			bad = append(bad, fmt.Sprintf("txn %d: %s", i+1, m))
			continue
		}
		ob := lookupObs(pt.Work)
		t.onTxn(func(x *fox.Txn) {
			add(fmt.Sprintf("Txn%d", i+1), c.observeFull(x, t.work, ob, cnt))
			add(fmt.Sprintf("Txn%d.Iter()", i+1), c.observeIter(x.Iter(), t.work, ob, cnt))
		})
	}
	for i, ps := range st.Snap {
		s := c.snaps[i+1]
		if ps.Kind == "none" {
			continue
		}
		if s == nil {
			bad = append(bad, fmt.Sprintf("snapshot %d: present in the specification, unknown to the replayer", i+1))
			continue
		}
		if m := c.viewMatches(s.v, ps.S); m != "" {
			bad = append(bad, fmt.Sprintf("snapshot %d: %s", i+1, m))
			continue
		}
		ob := lookupObs(ps.S)
		if s.kind == "txnsnap" {
			if s.txn == nil {
				bad = append(bad, fmt.Sprintf("snapshot %d: Txn.Snapshot() returned nil", i+1))
				continue
			}
			add(fmt.Sprintf("Snapshot%d(%s)", i+1, s.kind), c.observeFull(s.txn, s.v, ob, cnt))
			add(fmt.Sprintf("Snapshot%d(%s).Iter()", i+1, s.kind), c.observeIter(s.txn.Iter(), s.v, ob, cnt))
		} else {
			add(fmt.Sprintf("Snapshot%d(%s)", i+1, s.kind), c.observeIter(s.it, s.v, ob, cnt))
		}
	}
	return bad
}

// resultAgrees compares the result of the real call with the prescribed one.
func (c *concrete) resultAgrees(op projOp, got callResult) (bool, map[string]any) {
	want := map[string]any{"err": op.Err}
	ok := got.Err == op.Err && got.Note == ""
	if strings.HasPrefix(op.Name, "Settled.") {
		// prescribed: "settled" (panic ErrSettledTxn), "noop", "nil"
		ok = got.Err == op.Err
	}
	if op.Err == "conflict" {
		var wm []string
		for _, p := range op.Matched {
			wm = append(wm, c.g.Pool[p-1])
		}
		sort.Strings(wm)
		want["matched"] = wm
		if !slices.Equal(wm, got.Matched) {
			ok = false
		}
	}
	return ok, want
}

// ---- graph replay ---------------------------------------------------------------------------------

type rnode struct {
	st     projState
	parent *redge // BFS tree edge into this node (nil for the initial state)
	depth  int
}

type redge struct {
	from, to string
	op       projOp
}

type routerReplayer struct {
	r          *Run
	g          *routerGen
	nodes      map[string]*rnode
	edges      []*redge
	obs        obsTable
	calls      atomic.Int64
	replayed   atomic.Int64
	diverged   atomic.Int64
	nontrivial atomic.Int64
	opCount    sync.Map
}

func (rr *routerReplayer) pathTo(key string) []*redge {
	var rev []*redge
	for n := rr.nodes[key]; n != nil && n.parent != nil; n = rr.nodes[n.parent.from] {
		rev = append(rev, n.parent)
	}
	slices.Reverse(rev)
	return rev
}

func describePath(g *routerGen, path []*redge, last *redge) []string {
	var out []string
	d := func(e *redge) string {
		o := e.op
		s := o.Name
		if o.T > 0 {
			s += fmt.Sprintf("[t%d]", o.T)
		}
		if o.S > 0 {
			s += fmt.Sprintf("[s%d]", o.S)
		}
		if o.M > 0 {
			s += fmt.Sprintf("(%s %s)", g.Methods[o.M-1], g.Pool[o.P-1])
		}
		if o.Name == "Begin" {
			s += fmt.Sprintf("(write=%v managed=%v)", o.Route&1 == 1, o.Route&2 == 2)
		}
		if o.Name == "Txn.Truncate" {
			s += fmt.Sprint(o.Ms)
		}
		return s + " -> " + o.Err
	}
	for _, e := range path {
		out = append(out, d(e))
	}
	if last != nil {
		out = append(out, d(last))
	}
	return out
}

// replayEdge rebuilds the source state along the BFS tree, performs the edge's call and compares.
func (rr *routerReplayer) replayEdge(e *redge) { rr.replayEdgeAfter(e, nil) }

// replayEdgeAfter replays e after a shortest history into its source state and, when noop is given, one more call
// there that leaves the state of the specification unchanged (a refused write, a call on a settled transaction, a
// Commit or Abort that has nothing to do): what follows such a call behaves as if it had not been made.
func (rr *routerReplayer) replayEdgeAfter(e, noop *redge) {
	if rr.r.tooManyViolations() {
		return
	}
	full := func() []*redge {
		p := rr.pathTo(e.from)
		if noop != nil {
			p = append(append([]*redge(nil), p...), noop)
		}
		return p
	}
	hist := func() []string { return describePath(rr.g, full(), e) }
	rr.r.guard("router history "+strings.Join(hist(), " ; "), func() map[string]any { return map[string]any{"history": hist()} }, func() { rr.replayEdgeInner(e, full()) })
}

func (rr *routerReplayer) replayEdgeInner(e *redge, path []*redge) {
	c := newConcrete(rr.g)
	defer c.close()
	for _, pe := range path {
		got := c.apply(pe.op)
		if ok, _ := c.resultAgrees(pe.op, got); !ok {
			rr.diverged.Add(1) // reported by the replay of that edge itself
			return
		}
	}
	got := c.apply(e.op)
	rr.replayed.Add(1)
	if e.from != e.to || e.op.Err != "ok" {
		rr.nontrivial.Add(1)
	}
	ok, want := c.resultAgrees(e.op, got)
	var bad []string
	if ok {
		to := rr.nodes[e.to].st
		bad = c.compareState(&to, rr.obs, &rr.calls)
	}
	if !ok || len(bad) > 0 {
		hist := describePath(rr.g, path, e)
		key := "router history=" + strings.Join(hist, " ; ")
		rep := map[string]any{"kind": "behaviour", "history": hist, "step": len(hist), "prescribed": want, "obtained": got}
		if ok {
			rep["prescribed"] = "every read through every live view answers from its registered set"
			rep["obtained"] = bad
		}
		rr.r.violation(key, rep)
	}
}

// exploreRouter runs MC_Router, then MC_Probe for the distinct sets, then replays every edge.
func exploreRouter(r *Run, g *routerGen, timeout time.Duration, maxEdges int) *routerReplayer {
	rr := &routerReplayer{r: r, g: g, nodes: map[string]*rnode{}}
	var mu sync.Mutex
	res := r.runTLC(tlcOpts{
		Module:  "MC_Router",
		Gen:     map[string]string{"Gen_Router.tla": g.tla()},
		Timeout: timeout,
		OnVec: func(b []byte) {
			var e projEdge
			if err := json.Unmarshal(b, &e); err != nil {
				failTool("bad edge from TLC: %v: %.300s", err, b)
			}
			fk, tk := e.From.key(), e.To.key()
			mu.Lock()
			if _, ok := rr.nodes[fk]; !ok {
				rr.nodes[fk] = &rnode{st: e.From}
			}
			if _, ok := rr.nodes[tk]; !ok {
				rr.nodes[tk] = &rnode{st: e.To}
			}
			rr.edges = append(rr.edges, &redge{from: fk, to: tk, op: e.Op})
			mu.Unlock()
		},
	})
	res.mustClean("MC_Router")
	outf("  explored pool=%v methods=%v txns=%d snaps=%d: %d states, %d edges\n", g.Pool, g.Methods, g.Txns, g.Snaps, res.Distinct, len(rr.edges))
	r.addCov("states", res.Distinct)
	r.addCov("transitions", res.Generated)
	if len(rr.edges) == 0 {
		failTool("MC_Router emitted no edge")
	}
	// BFS tree from the initial state
	init := (&projState{Pub: [][3]int{}, Txn: make([]projTxn, g.Txns), Snap: make([]projSnap, g.Snaps)})
	for i := range init.Txn {
		init.Txn[i] = projTxn{St: "idle", Work: [][3]int{}}
	}
	for i := range init.Snap {
		init.Snap[i] = projSnap{Kind: "none", S: [][3]int{}}
	}
	ik := init.key()
	if _, ok := rr.nodes[ik]; !ok {
		failTool("initial state not found among emitted states: %s", ik)
	}
	out := map[string][]*redge{}
	for _, e := range rr.edges {
		out[e.from] = append(out[e.from], e)
	}
	visited := map[string]bool{ik: true}
	queue := []string{ik}
	for len(queue) > 0 {
		k := queue[0]
		queue = queue[1:]
		for _, e := range out[k] {
			if !visited[e.to] {
				visited[e.to] = true
				rr.nodes[e.to].parent = e
				rr.nodes[e.to].depth = rr.nodes[k].depth + 1
				queue = append(queue, e.to)
			}
		}
	}
	if len(visited) != len(rr.nodes) {
		failTool("state graph not connected from the initial state: %d of %d", len(visited), len(rr.nodes))
	}
	// distinct registered sets
	setIdx := map[string]int{}
	var sets [][][2]int
	addSet := func(entries [][3]int) {
		k := setKey(entries)
		if _, ok := setIdx[k]; ok {
			return
		}
		ps := make([][2]int, len(entries))
		for i, e := range entries {
			ps[i] = [2]int{e[0], e[1]}
		}
		setIdx[k] = len(sets)
		sets = append(sets, ps)
	}
	for _, n := range rr.nodes {
		addSet(n.st.Pub)
		for _, t := range n.st.Txn {
			addSet(t.Work)
		}
		for _, s := range n.st.Snap {
			addSet(s.S)
		}
	}
	rr.obs = obsTable{}
	keys := make([]string, len(sets))
	for k, i := range setIdx {
		keys[i] = k
	}
	pres := r.runTLC(tlcOpts{
		Module:  "MC_Probe",
		Gen:     map[string]string{"Gen_Probe.tla": g.probeTLA(sets)},
		Timeout: timeout,
		OnVec: func(b []byte) {
			var o setObs
			if err := json.Unmarshal(b, &o); err != nil {
				failTool("bad observation from TLC: %v", err)
			}
			mu.Lock()
			rr.obs[keys[o.I-1]] = &o
			mu.Unlock()
		},
	})
	pres.mustClean("MC_Probe")
	if len(rr.obs) != len(sets) {
		failTool("MC_Probe answered %d of %d sets", len(rr.obs), len(sets))
	}
	r.addCov("distinct_registered_sets", int64(len(sets)))
	// replay
	edges := rr.edges
	if maxEdges > 0 && len(edges) > maxEdges {
		edges = edges[:maxEdges]
		r.setCov("exhaustive", false)
	} else {
		r.setCov("exhaustive", true)
	}
	parallel(len(edges), func(i int) { rr.replayEdge(edges[i]) })
	// the same edges once more after a call that changes nothing in the specification (one edge in three in the quick
	// tier, every edge in the thorough tier; which no-op is taken depends on the seed)
	selfLoops := map[string][]*redge{}
	for _, e := range rr.edges {
		if e.from == e.to {
			selfLoops[e.from] = append(selfLoops[e.from], e)
		}
	}
	var afterNoop atomic.Int64
	parallel(len(edges), func(i int) {
		e := edges[i]
		sl := selfLoops[e.from]
		if len(sl) == 0 || (r.quick() && (i+int(r.Seed))%3 != 0) {
			return
		}
		q := sl[(i*7+int(r.Seed))%len(sl)]
		if q == e {
			return
		}
		rr.replayEdgeAfter(e, q)
		afterNoop.Add(1)
	})
	r.addCov("edges_replayed_after_a_noop_call", afterNoop.Load())
	r.addCov("traces_validated_against_impl", rr.replayed.Load())
	r.addCov("edges_replayed", rr.replayed.Load())
	r.addCov("edges_with_effect_or_error", rr.nontrivial.Load())
	r.addCov("edge_replays_cut_short_by_an_earlier_divergence", rr.diverged.Load())
	r.addCov("evaluations", rr.calls.Load())
	if len(edges) > 0 {
		e := edges[len(edges)/2]
		r.sample(map[string]any{"behaviour": describePath(g, rr.pathTo(e.from), e), "then": "every live view (router, open transactions, snapshots) is read back and compared"})
	}
	return rr
}
