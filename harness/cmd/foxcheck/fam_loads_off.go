//go:build !verif

package main

// counting the loads of the published tree needs the verification point vpLoad (verif build)
func runSingleLoadPerRead(r *Run) {}
