package main

func init() {
	register("C18", checkC18)
	needsHooks["C18"] = true
}
