//go:build !verif

package main

func selftestHooks(r *Run, report func(name string, ok bool, detail string)) {
	report("hook-dependent self-tests (run by the -tags verif build)", true, "skipped in this build")
}
