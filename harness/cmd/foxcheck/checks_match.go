package main

import (
	"math/rand"
	"os"
	"strings"
	"time"
)

func init() {
	register("C01", checkC01)
	register("C09", checkC09)
	register("C08", checkC08)
	register("C11", checkC11)
}

// C01 - routing selects the documented route with the correct parameters.
func checkC01(r *Run) {
	if os.Getenv("FOXCHECK_ONLY") == "lookupmodel" {
		runLookupModel(r, true)
		return
	}
	rng := rand.New(rand.NewSource(r.Seed))
	g := newMatchGen(rng, pick(r, 20, 46), 0, 3, pick(r, 5, 6), pick(r, 120, 260), false)
	runMatchD1(r, g, "direct", false, pick(r, 5*time.Minute, 40*time.Minute))
	// hostname mode: overlapping host patterns above path patterns with parameters
	gh := newMatchGen(rng, pick(r, 4, 8), pick(r, 12, 24), 3, 3, pick(r, 30, 60), true)
	gh.Hosts = withHostSpellings(append(derivedHostsFirst(gh, pick(r, 8, 14)), "a.b", "a.ab", "a.b.ab", "/a", "a.b/a", "{a.b"), 2)
	runMatchD1(r, gh, "direct", false, pick(r, 5*time.Minute, 40*time.Minute))
	runMatchD2(r, false, false)
	runLookupModel(r, true) // with the negative runs (one per rule of the walk) in the thorough tier
	r.assumption("the reference matcher of spec/FoxMatch.tla is the documented routing rule (DESIGN.md 3.1, 7)")
	r.assumption("requests have no empty path segment")
}

// C09 - hostname routes match the whole host; path-only routes are the fallback.
func checkC09(r *Run) {
	rng := rand.New(rand.NewSource(r.Seed))
	g := newMatchGen(rng, pick(r, 6, 10), pick(r, 12, 28), 3, 3, pick(r, 24, 50), true)
	g.Hosts = withHostSpellings(g.Hosts, 2)
	// a {param} label stands for a label part of any length: the 255-byte limit is a limit of patterns, not of hosts
	g.Hosts = append(g.Hosts, strings.Repeat("a", 256)+".b", "a."+strings.Repeat("ab", 140), strings.Repeat("b", 130)+"."+strings.Repeat("a", 130)+".b:8080")
	runMatchD1(r, g, "all", false, pick(r, 5*time.Minute, 40*time.Minute))
	runMatchD2(r, false, true)
	r.assumption("hostname comparison is exact and case-sensitive after removing one port and one trailing dot")
}

// C08 - trailing-slash actions happen exactly when a slash-adjusted route exists.
func checkC08(r *Run) {
	rng := rand.New(rand.NewSource(r.Seed))
	g := newMatchGen(rng, pick(r, 18, 30), pick(r, 4, 6), 3, pick(r, 5, 6), pick(r, 120, 200), true)
	g.Hosts = derivedHostsFirst(g, pick(r, 4, 8))
	runMatchD1(r, g, "tsr", true, pick(r, 5*time.Minute, 40*time.Minute))
	// hostname mode: trailing-slash matches below overlapping hosts (their parameters come from two stages)
	gh := newMatchGen(rng, pick(r, 4, 8), pick(r, 12, 24), 3, 3, pick(r, 30, 60), true)
	gh.Hosts = append(derivedHostsFirst(gh, pick(r, 8, 14)), "a.b", "a.ab", "a.b.ab")
	runMatchD1(r, gh, "tsr", false, pick(r, 5*time.Minute, 40*time.Minute))
	runServeD1(r, newServeGen(r, rng), "C08", pick(r, 5*time.Minute, 40*time.Minute))
	runServeD1(r, newServeGenHost(r, rng), "C08", pick(r, 5*time.Minute, 40*time.Minute)) // hostname tables; methods GET, HEAD, OPTIONS
	runServeD2(r, rng, "C08")
	runServeDirtyStatic(r, rng)
	runConnectTsr(r)
	if !r.quick() { // the walk model is checked on every quick run of C01; here only in the thorough tier
		runLookupModel(r, false)
	}
	r.assumption("Location is compared after RFC 3986 resolution against the request URL (net/url)")
	r.assumption("CONNECT routes that ignore trailing slashes are not generated (DESIGN.md 7)")
}

// C11 - unserved requests get the right 404/405/OPTIONS answer and Allow header.
func checkC11(r *Run) {
	rng := rand.New(rand.NewSource(r.Seed))
	runServeD1(r, newServeGen(r, rng), "C11", pick(r, 5*time.Minute, 40*time.Minute))
	serveViaCopy.Store(true) // the hostname tables are replayed with every handler working on a CloneWith copy
	runServeD1(r, newServeGenHost(r, rng), "C11", pick(r, 5*time.Minute, 40*time.Minute))
	serveViaCopy.Store(false)
	runServeD2(r, rng, "C11")
	r.assumption("Allow is compared as a set; for 405 with automatic OPTIONS enabled, OPTIONS may additionally be listed")
}
