package main

import (
	"encoding/json"
	"fmt"
	"math/rand"
	"sort"
	"strings"
	"sync"
	"time"

	"github.com/tigerwill90/fox"
)

// D2 for the matcher families: random large tables on real routers, lookups recorded and validated by Obs_Match.

var bigSegs = []string{"a", "b", "ab", "abc", "a:b", "k=v", "v1.2", "x-y", "42", "a%2Fb", "é", "日本", "{x}", "{y}", "{id}", "a{x}", "v{y}", "{x}", "*{w}", "*{rest}", "f=*{w}", "a.b", "$meta", "!x", "%41", "~u", "|p", "(1)"}
var bigLabels = []string{"a", "b", "ab", "api", "{h}", "a{h}", "{g}", "x-{g}"}

func bigPattern(rng *rand.Rand, host bool, maxSegs int) string {
	var sb strings.Builder
	if host {
		n := 1 + rng.Intn(3)
		for i := 0; i < n; i++ {
			if i > 0 {
				sb.WriteByte('.')
			}
			l := bigLabels[rng.Intn(len(bigLabels))]
			if strings.HasPrefix(l, "x-{") { // a label's static text must not end in '-'
				l = "x{g}"
			}
			sb.WriteString(l)
		}
	}
	n := 1 + rng.Intn(maxSegs)
	prevCatch := false
	for i := 0; i < n; i++ {
		sb.WriteByte('/')
		var s string
		for {
			s = bigSegs[rng.Intn(len(bigSegs))]
			if prevCatch && strings.HasPrefix(s, "*") {
				continue
			}
			break
		}
		prevCatch = strings.Contains(s, "*")
		sb.WriteString(s)
	}
	if rng.Intn(3) == 0 {
		sb.WriteByte('/')
	}
	return sb.String()
}

type matchObsDriver struct {
	pool   []string
	pidx   map[string]int
	tables [][]int
	obs    []map[string]any
	desc   []string
}

func (d *matchObsDriver) poolIndex(p string) int {
	if i, ok := d.pidx[p]; ok {
		return i
	}
	d.pool = append(d.pool, p)
	d.pidx[p] = len(d.pool)
	return len(d.pool)
}

func (d *matchObsDriver) record(tab int, who string, rt *fox.Router, method, host, path string) {
	got := obtainLookup(rt, method, host, path)
	route := 0
	if got.Route != "" {
		route = d.pidx[got.Route]
	}
	ps := [][][]string{}
	for _, kv := range got.Params {
		ps = append(ps, [][]string{runeChars(kv[0]), runeChars(kv[1])})
	}
	d.obs = append(d.obs, map[string]any{"tab": tab, "host": runeChars(host), "path": runeChars(path), "route": route, "tsr": got.Tsr, "params": ps})
	d.desc = append(d.desc, fmt.Sprintf("%s: host=%q path=%q -> %v", who, host, path, got))
	// the other entry points must agree with Lookup on the same router
	rv := obtainReverse(rt, method, host, path)
	if rv.Route != got.Route || rv.Tsr != got.Tsr {
		d.obs = append(d.obs, map[string]any{"tab": tab, "host": runeChars(host), "path": runeChars(path), "route": d.pidx[rv.Route], "tsr": rv.Tsr, "params": ps})
		d.desc = append(d.desc, fmt.Sprintf("%s (Reverse disagrees with Lookup): host=%q path=%q -> %v", who, host, path, rv))
	}
}

// buildByHistory reaches the table through a random mutation history (inserts in random order, deletions and
// re-insertions, updates, aborted transactions, detours through routes that are not part of the final set).
func buildByHistory(rng *rand.Rand, pats []string, detours []string, method string) (*fox.Router, error) {
	rt, err := fox.New()
	if err != nil {
		return nil, err
	}
	h := func(p string) fox.HandlerFunc { return routeHandler(p) }
	order := rng.Perm(len(pats))
	for _, i := range order {
		if _, err := rt.Handle(method, pats[i], h(pats[i])); err != nil {
			return nil, err
		}
		switch rng.Intn(6) {
		case 0: // delete and re-insert
			if _, err := rt.Delete(method, pats[i]); err != nil {
				return nil, err
			}
			if _, err := rt.Handle(method, pats[i], h(pats[i])); err != nil {
				return nil, err
			}
		case 1:
			if _, err := rt.Update(method, pats[i], h(pats[i])); err != nil {
				return nil, err
			}
		case 2: // a detour: a route that comes and goes (it may conflict and be refused, which is fine)
			if len(detours) > 0 {
				dp := detours[rng.Intn(len(detours))]
				if _, err := rt.Handle(method, dp, h(dp)); err == nil {
					if _, err := rt.Delete(method, dp); err != nil {
						return nil, err
					}
				}
			}
		case 3: // an aborted transaction that deletes and inserts
			txn := rt.Txn(true)
			txn.Delete(method, pats[i])
			if len(detours) > 0 {
				dp := detours[rng.Intn(len(detours))]
				txn.Handle(method, dp, h(dp))
			}
			txn.Abort()
		}
	}
	// every detour at once in a transaction that is given up, then in a managed one that fails: nothing of either may
	// reach the published tree
	txn := rt.Txn(true)
	for _, dp := range detours {
		txn.Handle(method, dp, h(dp))
	}
	txn.Abort()
	// and each detour alone, as the first write of its transaction (the one that meets the published nodes themselves)
	for _, dp := range detours {
		txn := rt.Txn(true)
		txn.Handle(method, dp, h(dp))
		txn.Abort()
	}
	_ = rt.Updates(func(txn *fox.Txn) error {
		for i := len(detours) - 1; i >= 0; i-- {
			txn.Handle(method, detours[i], h(detours[i]))
		}
		return errSentinel
	})
	return rt, nil
}

func runMatchD2(r *Run, twoRouters bool, hosts bool) {
	rng := rand.New(rand.NewSource(r.Seed*733 + 5))
	d := &matchObsDriver{pidx: map[string]int{}}
	nTables := pick(r, 40, 1200)
	method := "GET"
	vals := []string{"a", "b", "ab", "x:y", "42", "é", "v1.2", "k=v", "{", "*", "a%2Fb"}
	for t := 0; t < nTables; t++ {
		size := 1 + rng.Intn(pick(r, 30, 60))
		if t%7 == 0 {
			size = 55 + rng.Intn(10)
		}
		rt, _ := fox.New()
		var pats, refused []string
		for tries := 0; len(pats) < size && tries < size*6; tries++ {
			var p string
			if t%7 == 0 && len(pats) < 56 {
				p = "/fan/" + string(rune('!'+len(pats))) + "x" // many distinct first bytes below one node
				if strings.ContainsAny(p, "{*/") && strings.Count(p, "/") > 2 {
					continue
				}
				if strings.ContainsAny(p[5:], "{*") {
					continue
				}
			} else {
				p = bigPattern(rng, hosts && rng.Intn(3) == 0, 1+rng.Intn(6))
			}
			if _, err := rt.Handle(method, p, routeHandler(p)); err == nil {
				pats = append(pats, p)
			} else {
				refused = append(refused, p)
			}
		}
		if len(pats) == 0 {
			continue
		}
		ids := make([]int, len(pats))
		for i, p := range pats {
			ids[i] = d.poolIndex(p)
		}
		sort.Ints(ids)
		d.tables = append(d.tables, ids)
		tab := len(d.tables)
		routers := map[string]*fox.Router{"router filled in order": rt}
		if twoRouters {
			hr, err := buildByHistory(rng, pats, refused, method)
			if err != nil {
				r.violation(fmt.Sprintf("history into table %v failed: %v", pats, err), map[string]any{"kind": "trace", "table": pats, "prescribed": "every step of the history is accepted", "obtained": err.Error()})
				continue
			}
			routers["router after a mutation history"] = hr
			fr, _ := fox.New()
			for _, i := range rng.Perm(len(pats)) {
				fr.Handle(method, pats[i], routeHandler(pats[i]))
			}
			routers["fresh router, random order"] = fr
		}
		// probes derived from every pattern: an instance, then mutations of it
		for _, p := range pats {
			host, path := "", p
			if i := strings.IndexByte(p, '/'); i > 0 {
				host, path = instantiatePattern(rng, p[:i], []string{"a", "b", "ab", "api", "x"}), p[i:]
			} else if hosts && rng.Intn(3) == 0 {
				host = []string{"a.b", "api.a", "b", "a.b.c:80", "x.ab."}[rng.Intn(5)]
			}
			inst := instantiatePattern(rng, path, vals)
			probes := []string{inst}
			if strings.HasSuffix(inst, "/") && len(inst) > 1 {
				probes = append(probes, inst[:len(inst)-1])
			} else {
				probes = append(probes, inst+"/")
			}
			switch rng.Intn(4) {
			case 0:
				probes = append(probes, inst+"/extra")
			case 1:
				if k := strings.LastIndexByte(inst, '/'); k > 0 {
					probes = append(probes, inst[:k])
				}
			case 2:
				probes = append(probes, strings.Replace(inst, "/a", "/b", 1))
			}
			for _, q := range probes {
				if strings.Contains(q, "//") || q == "" {
					continue
				}
				hv := host
				if host != "" && rng.Intn(4) == 0 {
					hv = []string{host + ":8080", host + ".", "x." + host, host + ".x", host[1:]}[rng.Intn(5)]
				}
				for who, x := range routers {
					r.guard(fmt.Sprintf("lookup on table %v host=%q path=%q", pats, hv, q), func() map[string]any {
						return map[string]any{"kind": "trace", "table": pats, "host": hv, "path": q, "router": who}
					}, func() { d.record(tab, who, x, method, hv, q) })
				}
			}
		}
	}
	// Gen_ObsMatch
	var sb strings.Builder
	sb.WriteString("---- MODULE Gen_ObsMatch ----\n")
	fmt.Fprintf(&sb, "GenPool == %s\n", tlaSeqOfRunes(d.pool))
	ts := make([]string, len(d.tables))
	for i, t := range d.tables {
		ts[i] = tlaIntSet(t)
	}
	fmt.Fprintf(&sb, "GenTables == <<%s>>\n====\n", strings.Join(ts, ",\n  "))
	rejected := map[int]json.RawMessage{}
	var mu sync.Mutex
	res := r.runTLC(tlcOpts{Module: "Obs_Match", Gen: map[string]string{"Gen_ObsMatch.tla": sb.String()}, Files: map[string]string{"obs.ndjson": obsFile(d.obs)},
		Timeout: pick(r, 8*time.Minute, 45*time.Minute),
		OnVec: func(b []byte) {
			var v struct {
				I    int             `json:"i"`
				Want json.RawMessage `json:"want"`
			}
			if json.Unmarshal(b, &v) == nil {
				mu.Lock()
				rejected[v.I] = v.Want
				mu.Unlock()
			}
		}})
	res.mustClean("Obs_Match")
	if res.Distinct < 2*int64(len(d.obs)) {
		failTool("Obs_Match examined %d of %d observations", res.Distinct/2, len(d.obs))
	}
	ids := make([]int, 0, len(rejected))
	for i := range rejected {
		ids = append(ids, i)
	}
	sort.Ints(ids)
	for _, i := range ids {
		o := d.obs[i-1]
		var pats []string
		for _, id := range d.tables[o["tab"].(int)-1] {
			pats = append(pats, d.pool[id-1])
		}
		r.violation("recorded lookup "+d.desc[i-1], map[string]any{"kind": "trace", "table": pats, "observation": d.desc[i-1], "prescribed": rejected[i], "obtained": o})
	}
	r.addCov("recorded_lookups_validated", int64(len(d.obs)))
	r.addCov("recorded_tables", int64(len(d.tables)))
	r.addCov("traces_validated_against_impl", int64(len(d.tables)))
	if len(d.desc) > 10 {
		r.sample(map[string]any{"recorded_lookup": d.desc[len(d.desc)/2]})
	}
}

// tlaSeqOfRunes renders strings as sequences of one-rune strings (non-ASCII runes are kept as atoms).
func tlaSeqOfRunes(ss []string) string {
	parts := make([]string, len(ss))
	for i, s := range ss {
		var b strings.Builder
		b.WriteString("<<")
		first := true
		for _, rn := range s {
			if !first {
				b.WriteByte(',')
			}
			first = false
			b.WriteString(tlaStr(runeAtom(rn)))
		}
		b.WriteString(">>")
		parts[i] = b.String()
	}
	return "<<" + strings.Join(parts, ",\n  ") + ">>"
}
