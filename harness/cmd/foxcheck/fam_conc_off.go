//go:build !verif

package main

func checkC05(r *Run) { failTool("C05 needs the hook build (-tags verif)") }
func checkC06(r *Run) { failTool("C06 needs the hook build (-tags verif)") }
