//go:build verif

package main

const hooksCompiled = true
