// foxcheck runs one property check of the model-based verification of tigerwill90/fox.
//
//	foxcheck <ID> [--tier quick|thorough] [--replay file]
//	foxcheck --setup | --selftest
//
// Every verdict comes from running the real fox code (module replaced by /repo) against what the TLA+
// specification under /verif/spec prescribes or accepts.
package main

import (
	"encoding/json"
	"io"
	"log"
	"os"
	"os/exec"
	"path/filepath"
	"sort"
	"strconv"
	"strings"
)

type checkFn func(r *Run)

var checks = map[string]checkFn{}

func register(id string, f checkFn) { checks[id] = f }

func main() {
	os.Exit(realMain())
}

func realMain() (code int) {
	isolateStdout()
	log.SetOutput(io.Discard) // fox logs superfluous WriteHeader calls through the standard logger
	args := os.Args[1:]
	if len(args) == 0 {
		outln("usage: foxcheck <ID>|--setup|--selftest [--tier quick|thorough] [--replay file]")
		return exitTool
	}
	tier := os.Getenv("VERIF_TIER")
	replay := ""
	id := ""
	for i := 0; i < len(args); i++ {
		switch args[i] {
		case "--tier":
			i++
			if i < len(args) {
				tier = args[i]
			}
		case "--replay":
			i++
			if i < len(args) {
				replay = args[i]
			}
		default:
			if id == "" {
				id = args[i]
			}
		}
	}
	if tier == "" {
		tier = "quick"
	}
	seed := int64(1)
	if s := os.Getenv("VERIF_SEED"); s != "" {
		if v, err := strconv.ParseInt(s, 10, 64); err == nil {
			seed = v
		}
	}
	switch id {
	case "--stress":
		if len(args) < 4 {
			return exitTool
		}
		sd, _ := strconv.ParseInt(args[2], 10, 64)
		return stressEntry(args[1], sd, args[3])
	case "--setup":
		return setup()
	case "--selftest":
		return selftest(seed)
	case "--genwitness":
		return genWitness()
	case "--list":
		ids := make([]string, 0, len(checks))
		for k := range checks {
			ids = append(ids, k)
		}
		sort.Strings(ids)
		outln(strings.Join(ids, " "))
		return exitOK
	}
	f, ok := checks[id]
	if !ok {
		outf("unknown check %q\n", id)
		return exitTool
	}
	// Checks that need the hook build re-exec the tagged binary.
	if needsHooks[id] && !hooksCompiled {
		bin := os.Getenv("FOXCHECK_VERIF_BIN")
		if needsRace[id] {
			bin = os.Getenv("FOXCHECK_RACE_BIN")
		}
		if bin == "" {
			outln("hook build not available")
			return exitTool
		}
		if _, err := os.Stat(bin); err != nil {
			outln("hook build not available:", err)
			return exitTool
		}
		cmd := exec.Command(bin, os.Args[1:]...)
		cmd.Stdout, cmd.Stderr, cmd.Stdin = out, out, os.Stdin
		if needsRace[id] {
			rl, _ := os.MkdirTemp("", "foxverif-race-")
			defer os.RemoveAll(rl)
			cmd.Env = append(os.Environ(), "GORACE=halt_on_error=0 exitcode=0 log_path="+filepath.Join(rl, "race"), "FOXCHECK_RACE_LOG="+rl)
		}
		if err := cmd.Run(); err != nil {
			if ee, ok := err.(*exec.ExitError); ok {
				return ee.ExitCode()
			}
			return exitTool
		}
		return exitOK
	}
	r := newRun(id, tier, seed)
	defer r.cleanup()
	defer func() {
		if p := recover(); p != nil {
			if tf, ok := p.(toolFailure); ok {
				outf("TOOL-FAILURE property=%s: %s\n", id, tf.msg)
				code = exitTool
				return
			}
			panic(p)
		}
	}()
	if replay != "" {
		return doReplay(r, replay)
	}
	f(r)
	return r.finish()
}

var needsHooks = map[string]bool{}
var needsRace = map[string]bool{}

func setup() int {
	// Parse every module with SANY so that a broken specification is caught at setup time.
	ents, _ := os.ReadDir(specDir())
	bad := 0
	tmp, _ := os.MkdirTemp("", "foxverif-setup-")
	defer os.RemoveAll(tmp)
	for _, e := range ents {
		if strings.HasSuffix(e.Name(), ".tla") {
			b, _ := os.ReadFile(filepath.Join(specDir(), e.Name()))
			os.WriteFile(filepath.Join(tmp, e.Name()), b, 0o644)
		}
	}
	for n, c := range setupGenStubs() {
		os.WriteFile(filepath.Join(tmp, n), []byte(c), 0o644)
	}
	for _, e := range ents {
		if !strings.HasSuffix(e.Name(), ".tla") || strings.HasSuffix(e.Name(), "_proofs.tla") {
			continue // *_proofs.tla extend the TLAPS module, which only tlapm ships; they are checked by tlapm (C05)
		}
		cmd := exec.Command("tla-sany", e.Name())
		cmd.Dir = tmp
		out, err := cmd.CombinedOutput()
		if err != nil || strings.Contains(string(out), "*** Errors") || strings.Contains(string(out), "Fatal errors") {
			outf("SANY failed on %s:\n%s\n", e.Name(), tail(string(out), 15))
			bad++
		}
	}
	if bad > 0 {
		return exitTool
	}
	outln("setup ok")
	return exitOK
}

func doReplay(r *Run, path string) int {
	b, err := os.ReadFile(path)
	if err != nil {
		outln("cannot read replay file:", err)
		return exitTool
	}
	var rec struct {
		Seed int64  `json:"seed"`
		Tier string `json:"tier"`
	}
	if json.Unmarshal(b, &rec) == nil && rec.Tier != "" {
		r.Seed, r.Tier = rec.Seed, rec.Tier
	}
	outf("replay: re-running check %s with the recorded seed=%d tier=%s of %s\n", r.ID, r.Seed, r.Tier, path)
	f := checks[r.ID]
	f(r)
	return r.finish()
}
