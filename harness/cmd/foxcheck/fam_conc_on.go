//go:build verif

package main

import (
	"bytes"
	"encoding/json"
	"errors"
	"fmt"
	"runtime"
	"slices"
	"strconv"
	"strings"
	"sync"
	"sync/atomic"
	"time"

	"github.com/tigerwill90/fox"
)

// ---- goroutine identity and the global hook ---------------------------------------------------------

func goid() uint64 {
	var buf [64]byte
	n := runtime.Stack(buf[:], false)
	// "goroutine 123 [running]:"
	b := buf[:n]
	b = b[len("goroutine "):]
	i := bytes.IndexByte(b, ' ')
	id, _ := strconv.ParseUint(string(b[:i]), 10, 64)
	return id
}

var procByGoid sync.Map // goid -> *proc

var hookOnce sync.Once

func installHook() {
	hookOnce.Do(func() {
		fox.VerifSetHook(func(r *fox.Router, point int) {
			v, ok := procByGoid.Load(goid())
			if !ok {
				return
			}
			v.(*proc).atGate(point)
		})
	})
}

var pointNames = map[int]string{
	fox.VerifLockWait: "vpLockWait", fox.VerifLockAcquired: "vpLockAcquired", fox.VerifLoad: "vpLoad",
	fox.VerifBeforeStore: "vpBeforeStore", fox.VerifAfterStore: "vpAfterStore", fox.VerifAbort: "vpAbort", fox.VerifUnlocked: "vpUnlocked",
}

// harness-level gates of transaction writers (not hooks)
const (
	hgTxnReady = 100 + iota // Router.Txn(true) returned
	hgOpDone                // one write of the transaction performed
)

type proc struct {
	name    string
	gates   chan int      // gate reached (buffered)
	release chan struct{} // controller lets the goroutine continue
	cmd     chan string   // commands for transaction writers
	done    chan []any    // result of the call
	stopAt  func(point int) bool
	fin     bool // the call returned and its result was taken
}

func newProc(name string, stopAt func(int) bool) *proc {
	return &proc{name: name, gates: make(chan int, 4), release: make(chan struct{}), cmd: make(chan string), done: make(chan []any, 1), stopAt: stopAt}
}

func (p *proc) atGate(point int) {
	if p.stopAt != nil && !p.stopAt(point) {
		return
	}
	p.gates <- point
	<-p.release
}

func (p *proc) run(f func() []any) {
	go func() {
		id := goid()
		procByGoid.Store(id, p)
		defer procByGoid.Delete(id)
		var res []any
		defer func() {
			if x := recover(); x != nil {
				res = []any{"panic: " + fmt.Sprint(x)}
			}
			p.done <- res
		}()
		res = f()
	}()
}

var errStepTimeout = errors.New("step did not complete")

const stepTimeout = 5 * time.Second

func (p *proc) waitGate(want ...int) (int, error) {
	select {
	case g := <-p.gates:
		if !slices.Contains(want, g) {
			return g, fmt.Errorf("%s reached %s, the specification expects %v", p.name, pointName(g), pointNamesOf(want))
		}
		return g, nil
	case res := <-p.done:
		p.done <- res
		return -1, fmt.Errorf("%s returned (%v) before reaching %v", p.name, res, pointNamesOf(want))
	case <-time.After(stepTimeout):
		return -1, errStepTimeout
	}
}

func pointName(g int) string {
	if n, ok := pointNames[g]; ok {
		return n
	}
	return fmt.Sprintf("gate(%d)", g)
}

func pointNamesOf(gs []int) []string {
	out := make([]string, len(gs))
	for i, g := range gs {
		out[i] = pointName(g)
	}
	return out
}

func (p *proc) waitDone() ([]any, error) {
	select {
	case res := <-p.done:
		p.fin = true
		return res, nil
	case g := <-p.gates:
		return nil, fmt.Errorf("%s stopped at %s instead of returning", p.name, pointName(g))
	case <-time.After(stepTimeout):
		return nil, errStepTimeout
	}
}

// ---- constants of MC_Conc -----------------------------------------------------------------------

type concProg struct {
	Single  bool
	Managed bool // transaction writers only: Updates instead of Txn(true)
	Ops     [][2]any
	End     string
}

type concGen struct {
	Keys     []string // patterns; key k is Keys[k-1]
	Progs    []concProg
	Readers  int
	Calls    [][]any
	MaxReads int
	Broken   string
	Init     []int // tag of each key in the initially published set (0 = absent)
}

func (g *concGen) tla() string {
	var sb strings.Builder
	sb.WriteString("---- MODULE Gen_Conc ----\n")
	ks := make([]int, len(g.Keys))
	for i := range ks {
		ks[i] = i + 1
	}
	fmt.Fprintf(&sb, "GenKeys == %s\n", tlaIntSet(ks))
	ws := make([]int, len(g.Progs))
	for i := range ws {
		ws[i] = i + 1
	}
	fmt.Fprintf(&sb, "GenWriters == %s\n", tlaIntSet(ws))
	rs := make([]int, g.Readers)
	for i := range rs {
		rs[i] = i + 1
	}
	fmt.Fprintf(&sb, "GenReaders == %s\n", tlaIntSet(rs))
	var ps []string
	for _, p := range g.Progs {
		var ops []string
		for _, o := range p.Ops {
			ops = append(ops, fmt.Sprintf("<<%s, %d>>", tlaStr(o[0].(string)), o[1].(int)))
		}
		ps = append(ps, fmt.Sprintf("[single |-> %s, ops |-> <<%s>>, end |-> %s]", tlaBool(p.Single), strings.Join(ops, ", "), tlaStr(p.End)))
	}
	fmt.Fprintf(&sb, "GenProg == <<%s>>\n", strings.Join(ps, ",\n  "))
	var cs []string
	for _, c := range g.Calls {
		if len(c) == 2 {
			cs = append(cs, fmt.Sprintf("<<%s, %d>>", tlaStr(c[0].(string)), c[1].(int)))
		} else {
			cs = append(cs, fmt.Sprintf("<<%s>>", tlaStr(c[0].(string))))
		}
	}
	fmt.Fprintf(&sb, "GenReadCalls == {%s}\n", strings.Join(cs, ", "))
	init := make([]string, len(g.Keys))
	for i := range init {
		v := 0
		if i < len(g.Init) {
			v = g.Init[i]
		}
		init[i] = fmt.Sprintf("%d", v)
	}
	fmt.Fprintf(&sb, "GenInit == <<%s>>\n", strings.Join(init, ", "))
	fmt.Fprintf(&sb, "GenMaxReads == %d\nGenBroken == %s\n====\n", g.MaxReads, tlaStr(g.Broken))
	return sb.String()
}

// ---- projected state ----------------------------------------------------------------------------------

type concW struct {
	Pc   string `json:"pc"`
	Step int    `json:"step"`
	Res  []any  `json:"res"`
	Work []int  `json:"work"`
	Base int    `json:"base"`
}

type concR struct {
	Pc   string `json:"pc"`
	Seen int    `json:"seen"`
	N    int    `json:"n"`
	Call []any  `json:"call"`
}

type concState struct {
	Pub  []int   `json:"pub"`
	Ver  int     `json:"ver"`
	Lock int     `json:"lock"`
	W    []concW `json:"w"`
	Rd   []concR `json:"rd"`
}

func (s *concState) key() string { b, _ := json.Marshal(s); return string(b) }

type concOp struct {
	Proc string `json:"proc"`
	ID   int    `json:"id"`
	Act  string `json:"act"`
	Arg  []any  `json:"arg"`
	Res  []any  `json:"res"`
}

type concEdge struct {
	From concState `json:"from"`
	Op   concOp    `json:"op"`
	To   concState `json:"to"`
}

type cnode struct {
	st     concState
	parent *cedge
}

type cedge struct {
	from, to string
	op       concOp
	idx      int
}

// ---- one schedule replay ----------------------------------------------------------------------------------

type tagKey struct{}

type schedRun struct {
	g       *concGen
	r       *fox.Router
	writers map[int]*proc
	readers map[int]*proc
	variant int // rotates the real entry points used for abstract calls
}

func newSchedRun(g *concGen, variant int) *schedRun {
	r, err := fox.New(fox.WithNoMethod(true), fox.WithAutoOptions(true), fox.WithRedirectTrailingSlash(true))
	if err != nil {
		failTool("fox.New: %v", err)
	}
	for i, tag := range g.Init {
		if tag != 0 {
			r.MustHandle("GET", g.Keys[i], tagHandler(tag), fox.WithAnnotation(tagKey{}, tag))
		}
	}
	return &schedRun{g: g, r: r, writers: map[int]*proc{}, readers: map[int]*proc{}, variant: variant}
}

func tagOf(rt *fox.Route) int {
	if rt == nil {
		return 0
	}
	t, _ := rt.Annotation(tagKey{}).(int)
	return t
}

func tagHandler(tag int) fox.HandlerFunc {
	return func(c fox.Context) {
		c.Writer().Header().Set("X-Tag", strconv.Itoa(tag))
		c.Writer().Header().Set("X-Pat", c.Pattern())
	}
}

func (s *schedRun) doOp(w writer, i, step int, o [2]any) string {
	kind, k := o[0].(string), o[1].(int)
	tag := i*10 + step
	pat := s.g.Keys[k-1]
	var err error
	switch kind {
	case "Handle":
		_, err = w.Handle("GET", pat, tagHandler(tag), fox.WithAnnotation(tagKey{}, tag))
	case "Update":
		_, err = w.Update("GET", pat, tagHandler(tag), fox.WithAnnotation(tagKey{}, tag))
	case "Delete":
		_, err = w.Delete("GET", pat)
	case "Truncate":
		if t, ok := w.(*fox.Txn); ok {
			err = t.Truncate("GET")
		} else {
			err = errors.New("Truncate outside a transaction")
		}
	}
	return errClass(err)
}

// writerBody is what writer i executes on its own goroutine.
func (s *schedRun) writerBody(i int, p *proc) func() []any {
	prog := s.g.Progs[i-1]
	if prog.Single {
		return func() []any { return []any{s.doOp(s.r, i, 1, prog.Ops[0])} }
	}
	body := func(txn *fox.Txn) (res []any, abort bool) {
		p.gates <- hgTxnReady
		<-p.release
		for {
			c := <-p.cmd
			if c == "end" {
				return res, prog.End != "commit"
			}
			step := len(res) + 1
			res = append(res, s.doOp(txn, i, step, prog.Ops[step-1]))
			p.gates <- hgOpDone
			<-p.release
		}
	}
	if prog.Managed {
		return func() []any {
			var res []any
			err := s.r.Updates(func(txn *fox.Txn) error {
				var abort bool
				res, abort = body(txn)
				if abort {
					return errSentinel
				}
				return nil
			})
			if (err != nil) != (prog.End != "commit") {
				res = append(res, "Updates returned "+fmt.Sprint(err))
			}
			return res
		}
	}
	return func() []any {
		txn := s.r.Txn(true)
		res, abort := body(txn)
		if abort {
			txn.Abort()
		} else {
			txn.Commit()
		}
		return res
	}
}

// readerBody performs one abstract read through one of the real entry points.
func (s *schedRun) readerBody(call []any, variant int) func() []any {
	kind := call[0].(string)
	switch kind {
	case "has":
		k := int(call[1].(float64))
		pat := s.g.Keys[k-1]
		switch variant % nHasVariants {
		case 0:
			return func() []any { return []any{tagOf(s.r.Route("GET", pat))} }
		case 1:
			return func() []any {
				rt, _ := s.r.Reverse("GET", "", pat)
				if rt != nil && rt.Pattern() != pat {
					rt = nil
				}
				return []any{tagOf(rt)}
			}
		case 2:
			return func() []any {
				req, _ := newRequest("GET", "", pat, "")
				rt, cc, _ := s.r.Lookup(nil, req)
				if cc != nil {
					cc.Close()
				}
				if rt != nil && rt.Pattern() != pat {
					rt = nil
				}
				return []any{tagOf(rt)}
			}
		case 3:
			return func() []any {
				req, _ := newRequest("GET", "", pat, "")
				w := newPlainWriter()
				s.r.ServeHTTP(w, req)
				t, _ := strconv.Atoi(w.h.Get("X-Tag"))
				if w.h.Get("X-Pat") != pat {
					t = 0
				}
				return []any{t}
			}
		case 4:
			return func() []any {
				t := 0
				_ = s.r.View(func(txn *fox.Txn) error { t = tagOf(txn.Route("GET", pat)); return nil })
				return []any{t}
			}
		case 5:
			return func() []any {
				t := 0
				for _, rt := range s.r.Iter().Routes(slices.Values([]string{"GET"}), pat) {
					t = tagOf(rt)
				}
				return []any{t}
			}
		case 6:
			return func() []any {
				has := s.r.Has("GET", pat) // one load; only presence is observable
				_ = s.r.Stats()
				return []any{has}
			}
		case 7:
			return func() []any {
				t := 0
				for _, rt := range s.r.Iter().Reverse(slices.Values([]string{"GET"}), "", pat) {
					if rt.Pattern() == pat {
						t = tagOf(rt)
					}
				}
				return []any{t}
			}
		case 8:
			return func() []any {
				txn := s.r.Txn(false)
				defer txn.Abort()
				rt, _ := txn.Reverse("GET", "", pat)
				if rt != nil && rt.Pattern() != pat {
					rt = nil
				}
				if txn.Has("GET", pat) != (rt != nil) {
					return []any{"Txn.Has and Txn.Reverse disagree"}
				}
				return []any{tagOf(rt)}
			}
		default:
			// the special handlers are reads too: 404, 405, automatic OPTIONS, slash redirect
			return func() []any {
				t := tagOf(s.r.Route("GET", pat)) // the gated load; the requests below load again, freely
				for _, q := range [][2]string{{"POST", pat}, {"OPTIONS", pat}, {"GET", pat + "/"}, {"GET", "/no/such/route"}, {"OPTIONS", "*"}, {"FOO", pat}} {
					req, _ := newRequest(q[0], "", q[1], "")
					s.r.ServeHTTP(newPlainWriter(), req)
				}
				return []any{t}
			}
		}
	case "len":
		if variant%2 == 0 {
			return func() []any { return []any{s.r.Len()} }
		}
		return func() []any {
			n := 0
			for range s.r.Iter().All() {
				n++
			}
			return []any{n}
		}
	default: // "all"
		return func() []any {
			m := make([]any, len(s.g.Keys))
			for i := range m {
				m[i] = 0
			}
			collect := func(it fox.Iter) {
				for _, rt := range it.All() {
					for i, p := range s.g.Keys {
						if p == rt.Pattern() {
							m[i] = tagOf(rt)
						}
					}
				}
			}
			if variant%2 == 0 {
				collect(s.r.Iter())
			} else {
				txn := s.r.Txn(false)
				collect(txn.Iter())
				txn.Abort()
			}
			return []any{m}
		}
	}
}

const nHasVariants = 10

func writerStops(point int) bool { return true }
func readerStops(point int) bool { return point == fox.VerifLoad }

// readerGate stops a reader at its first load only (an abstract read may be implemented by several real reads).
func readerGate() func(int) bool {
	first := true
	return func(point int) bool {
		if point == fox.VerifLoad && first {
			first = false
			return true
		}
		return false
	}
}

// published reads the published map from the controller goroutine (not a registered process: no gate).
func (s *schedRun) published() []int {
	out := make([]int, len(s.g.Keys))
	for i, p := range s.g.Keys {
		out[i] = tagOf(s.r.Route("GET", p))
	}
	return out
}

// stepProblem describes why a step of the schedule did not go as the specification says.
type stepProblem struct {
	What    string
	Waiting bool // the step the specification enables did not complete (progress problem)
	Reader  bool
}

func normRes(v []any) string { b, _ := json.Marshal(v); return string(b) }

// step performs one specification step on the real goroutines.
func (s *schedRun) step(op concOp, to *concState) *stepProblem {
	fail := func(err error, reader bool) *stepProblem {
		return &stepProblem{What: err.Error(), Waiting: errors.Is(err, errStepTimeout), Reader: reader}
	}
	if op.Proc == "w" {
		i := op.ID
		p := s.writers[i]
		prog := s.g.Progs[i-1]
		switch op.Act {
		case "CallBegin":
			p = newProc(fmt.Sprintf("writer %d", i), writerStops)
			s.writers[i] = p
			p.run(s.writerBody(i, p))
			if _, err := p.waitGate(fox.VerifLockWait); err != nil {
				return fail(err, false)
			}
		case "Acquire":
			p.release <- struct{}{}
			if _, err := p.waitGate(fox.VerifLockAcquired); err != nil {
				return fail(err, false)
			}
		case "TryAcquire":
			// the lock is held by another writer: this goroutine must stay inside mu.Lock()
			p.release <- struct{}{}
			time.Sleep(500 * time.Microsecond)
			select {
			case g := <-p.gates:
				return &stepProblem{What: fmt.Sprintf("%s passed the writer lock (reached %s) while writer %d holds it", p.name, pointName(g), to.Lock)}
			default:
			}
		case "LoadRoot":
			p.release <- struct{}{}
			if _, err := p.waitGate(fox.VerifLoad); err != nil {
				return fail(err, false)
			}
			if !prog.Single {
				p.release <- struct{}{}
				if _, err := p.waitGate(hgTxnReady); err != nil {
					return fail(err, false)
				}
			}
		case "RunSingle":
			want := fox.VerifBeforeStore
			if op.Res[0].(string) != "ok" {
				want = fox.VerifAbort
			}
			p.release <- struct{}{}
			if _, err := p.waitGate(want); err != nil {
				return fail(err, false)
			}
		case "TxnOp":
			p.release <- struct{}{}
			p.cmd <- "op"
			if _, err := p.waitGate(hgOpDone); err != nil {
				return fail(err, false)
			}
		case "CallEnd":
			want := fox.VerifBeforeStore
			if prog.End != "commit" {
				want = fox.VerifAbort
			}
			p.release <- struct{}{}
			p.cmd <- "end"
			if _, err := p.waitGate(want); err != nil {
				return fail(err, false)
			}
		case "Store":
			p.release <- struct{}{}
			if _, err := p.waitGate(fox.VerifAfterStore); err != nil {
				return fail(err, false)
			}
		case "Unlock":
			p.release <- struct{}{}
			if _, err := p.waitGate(fox.VerifUnlocked); err != nil {
				return fail(err, false)
			}
			if to.Lock != 0 { // the blocked writer gets the mutex
				if _, err := s.writers[to.Lock].waitGate(fox.VerifLockAcquired); err != nil {
					return fail(fmt.Errorf("after the unlock: %w", err), false)
				}
			}
		case "Return":
			p.release <- struct{}{}
			res, err := p.waitDone()
			if err != nil {
				return fail(err, false)
			}
			if normRes(res) != normRes(op.Res) {
				return &stepProblem{What: fmt.Sprintf("%s returned %s, the specification prescribes %s", p.name, normRes(res), normRes(op.Res))}
			}
		default:
			failTool("unknown writer action %q", op.Act)
		}
	} else {
		j := op.ID
		switch op.Act {
		case "RLoad":
			p := newProc(fmt.Sprintf("reader %d", j), readerGate())
			s.readers[j] = p
			p.run(s.readerBody(op.Arg, s.variant+j))
			if _, err := p.waitGate(fox.VerifLoad); err != nil {
				return fail(err, true)
			}
		case "RReturn":
			p := s.readers[j]
			p.release <- struct{}{}
			res, err := p.waitDone()
			if err != nil {
				return fail(err, true)
			}
			if b, isBool := res[0].(bool); isBool && len(op.Res) == 1 {
				if t, isNum := op.Res[0].(float64); isNum && b == (t != 0) {
					res = op.Res
				}
			}
			if normRes(res) != normRes(op.Res) {
				return &stepProblem{What: fmt.Sprintf("%s %v returned %s, the specification prescribes %s (the version loaded was %d)", p.name, op.Arg, normRes(res), normRes(op.Res), to.Rd[j-1].Seen), Reader: true}
			}
		default:
			failTool("unknown reader action %q", op.Act)
		}
	}
	// the published state of the real router must be the model's after every step
	if got := s.published(); !slices.Equal(got, to.Pub) {
		return &stepProblem{What: fmt.Sprintf("after %s %d %s the router publishes %v, the specification %v", op.Proc, op.ID, op.Act, got, to.Pub)}
	}
	return nil
}

// drain lets every parked goroutine run to completion (used at the end of a replay and to confirm waits).
func (s *schedRun) drain() bool {
	all := true
	deadline := time.Now().Add(stepTimeout)
	pending := []*proc{}
	for _, p := range s.writers {
		pending = append(pending, p)
	}
	for _, p := range s.readers {
		pending = append(pending, p)
	}
	finished := map[*proc]bool{}
	for _, p := range pending {
		if p.fin {
			finished[p] = true
		}
	}
	for len(finished) < len(pending) && time.Now().Before(deadline) {
		progressed := false
		for _, p := range pending {
			if finished[p] {
				continue
			}
			select {
			case <-p.done:
				finished[p] = true
				progressed = true
			case p.release <- struct{}{}:
				progressed = true
			case <-p.gates:
				progressed = true
			case p.cmd <- "end":
				progressed = true
			default:
			}
		}
		if !progressed {
			time.Sleep(200 * time.Microsecond)
		}
	}
	if len(finished) < len(pending) {
		all = false
	}
	return all
}

// ---- graph exploration and replay ------------------------------------------------------------------------

type concReplayer struct {
	r        *Run
	g        *concGen
	nodes    map[string]*cnode
	edges    []*cedge
	replayed atomic.Int64
	steps    atomic.Int64
	readerEd atomic.Int64
	negEd    atomic.Int64
	acts     sync.Map
}

func (cr *concReplayer) pathTo(key string) []*cedge {
	var rev []*cedge
	for n := cr.nodes[key]; n != nil && n.parent != nil; n = cr.nodes[n.parent.from] {
		rev = append(rev, n.parent)
	}
	slices.Reverse(rev)
	return rev
}

func describeSched(path []*cedge, last *cedge) []string {
	var out []string
	d := func(e *cedge) string {
		s := fmt.Sprintf("%s%d.%s", e.op.Proc, e.op.ID, e.op.Act)
		if len(e.op.Arg) > 0 {
			s += fmt.Sprint(e.op.Arg)
		}
		return s
	}
	for _, e := range path {
		out = append(out, d(e))
	}
	if last != nil {
		out = append(out, d(last))
	}
	return out
}

// replayEdge replays the BFS interleaving into the edge's source state, then the edge's step.
// only: "" = report every disagreement; "reader-wait" = only reads that wait / second writers that proceed (C06).
func (cr *concReplayer) replayEdge(e *cedge, only string, variant int) {
	if cr.r.tooManyViolations() {
		return
	}
	s := newSchedRun(cr.g, variant)
	defer s.drain()
	path := cr.pathTo(e.from)
	for _, pe := range path {
		to := cr.nodes[pe.to].st
		if pb := s.step(pe.op, &to); pb != nil {
			return // reported by the replay of that edge
		}
		cr.steps.Add(1)
	}
	to := cr.nodes[e.to].st
	pb := s.step(e.op, &to)
	cr.replayed.Add(1)
	cr.steps.Add(1)
	if e.op.Proc == "r" {
		cr.readerEd.Add(1)
	}
	if e.op.Act == "TryAcquire" {
		cr.negEd.Add(1)
	}
	if pb == nil {
		return
	}
	sched := describeSched(path, e)
	if pb.Waiting {
		// confirm causally: does the step complete once every other goroutine has been let go?
		ok := s.drain()
		if !ok {
			failTool("schedule %v: step never completed, even after releasing everybody (%s)", sched, pb.What)
		}
		if !pb.Reader && only == "reader-wait" {
			return
		}
		pb.What = "the step completed only after the parked goroutines were released: " + pb.What
	} else if only == "reader-wait" && e.op.Act != "TryAcquire" {
		return
	}
	key := "schedule " + strings.Join(sched, " ")
	cr.r.violation(key, map[string]any{"kind": "schedule", "schedule": sched, "step": len(sched),
		"keys": cr.g.Keys, "programs": cr.g.Progs,
		"prescribed": map[string]any{"state_after": e.to, "result": e.op.Res}, "obtained": pb.What})
}

func exploreConc(r *Run, g *concGen, only string, timeout time.Duration) *concReplayer {
	installHook()
	cr := &concReplayer{r: r, g: g, nodes: map[string]*cnode{}}
	var mu sync.Mutex
	res := r.runTLC(tlcOpts{
		Module:  "MC_Conc",
		Gen:     map[string]string{"Gen_Conc.tla": g.tla()},
		Timeout: timeout,
		Tag:     fmt.Sprint(len(g.Progs), g.Readers),
		OnVec: func(b []byte) {
			var e concEdge
			if err := json.Unmarshal(b, &e); err != nil {
				failTool("bad edge from TLC: %v: %.300s", err, b)
			}
			fk, tk := e.From.key(), e.To.key()
			mu.Lock()
			if _, ok := cr.nodes[fk]; !ok {
				cr.nodes[fk] = &cnode{st: e.From}
			}
			if _, ok := cr.nodes[tk]; !ok {
				cr.nodes[tk] = &cnode{st: e.To}
			}
			cr.edges = append(cr.edges, &cedge{from: fk, to: tk, op: e.Op, idx: len(cr.edges)})
			mu.Unlock()
		},
	})
	res.mustClean("MC_Conc")
	// liveness under reader-only fairness on the same constants
	live := r.runTLC(tlcOpts{Module: "MC_Conc", Cfg: "MC_ConcLive.cfg", Gen: map[string]string{"Gen_Conc.tla": g.tla()}, Timeout: timeout, Tag: "live" + fmt.Sprint(len(g.Progs), g.Readers)})
	live.mustClean("MC_Conc (liveness, reader-only fairness)")
	r.addCov("states", res.Distinct)
	r.addCov("transitions", res.Generated)
	r.addCov("liveness_states", live.Distinct)
	// BFS tree
	var initKey string
	for k, n := range cr.nodes {
		idle := n.st.Ver == 1 && n.st.Lock == 0
		for _, w := range n.st.W {
			idle = idle && w.Pc == "idle"
		}
		for _, x := range n.st.Rd {
			idle = idle && x.Pc == "idle" && x.N == 0
		}
		if idle {
			initKey = k
		}
	}
	if initKey == "" {
		failTool("initial state not found")
	}
	out := map[string][]*cedge{}
	for _, e := range cr.edges {
		out[e.from] = append(out[e.from], e)
	}
	visited := map[string]bool{initKey: true}
	queue := []string{initKey}
	for len(queue) > 0 {
		k := queue[0]
		queue = queue[1:]
		for _, e := range out[k] {
			if !visited[e.to] {
				visited[e.to] = true
				cr.nodes[e.to].parent = e
				queue = append(queue, e.to)
			}
		}
	}
	if len(visited) != len(cr.nodes) {
		failTool("schedule graph not connected: %d of %d", len(visited), len(cr.nodes))
	}
	edges := cr.edges
	if only == "reader-wait" {
		edges = nil
		for _, e := range cr.edges {
			if e.op.Proc == "r" || e.op.Act == "TryAcquire" {
				edges = append(edges, e)
			}
		}
	}
	if only == "reader-wait" {
		// every read entry point in every state of every parked writer
		parallel(len(edges)*nHasVariants, func(i int) { cr.replayEdge(edges[i/nHasVariants], only, i%nHasVariants) })
	} else {
		parallel(len(edges), func(i int) { cr.replayEdge(edges[i], only, edges[i].idx) })
	}
	r.addCov("traces_validated_against_impl", cr.replayed.Load())
	r.addCov("schedule_edges_replayed", cr.replayed.Load())
	r.addCov("schedule_steps_executed", cr.steps.Load())
	r.addCov("reader_edges_replayed", cr.readerEd.Load())
	r.addCov("blocked_writer_edges_replayed", cr.negEd.Load())
	r.addCov("evaluations", cr.steps.Load())
	if len(edges) > 0 {
		e := edges[len(edges)*2/3]
		r.sample(map[string]any{"schedule": describeSched(cr.pathTo(e.from), e), "keys": g.Keys})
	}
	return cr
}
