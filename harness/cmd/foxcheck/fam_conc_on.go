//go:build verif

package main

import (
	"bytes"
	"encoding/json"
	"errors"
	"fmt"
	"iter"
	"math/rand"
	"os"
	"os/exec"
	"path/filepath"
	"runtime"
	"slices"
	"strconv"
	"strings"
	"sync"
	"sync/atomic"
	"time"

	"github.com/tigerwill90/fox"
)

// ---- goroutine identity and the global hook ---------------------------------------------------------

func goid() uint64 {
	var buf [64]byte
	n := runtime.Stack(buf[:], false)
	// "goroutine 123 [running]:"
	b := buf[:n]
	b = b[len("goroutine "):]
	i := bytes.IndexByte(b, ' ')
	id, _ := strconv.ParseUint(string(b[:i]), 10, 64)
	return id
}

var procByGoid sync.Map // goid -> *proc

var hookOnce sync.Once

func installHook() {
	hookOnce.Do(func() {
		fox.VerifSetHook(func(r *fox.Router, point int) {
			v, ok := procByGoid.Load(goid())
			if !ok {
				return
			}
			v.(*proc).atGate(point)
		})
	})
}

var pointNames = map[int]string{
	fox.VerifLockWait: "vpLockWait", fox.VerifLockAcquired: "vpLockAcquired", fox.VerifLoad: "vpLoad",
	fox.VerifBeforeStore: "vpBeforeStore", fox.VerifAfterStore: "vpAfterStore", fox.VerifAbort: "vpAbort", fox.VerifUnlocked: "vpUnlocked",
}

// harness-level gates of transaction writers (not hooks)
const (
	hgTxnReady = 100 + iota // Router.Txn(true) returned
	hgOpDone                // one write of the transaction performed
)

type proc struct {
	name    string
	gates   chan int      // gate reached (buffered)
	release chan struct{} // controller lets the goroutine continue
	cmd     chan string   // commands for transaction writers
	done    chan []any    // result of the call
	stopAt  func(point int) bool
	fin     bool // the call returned and its result was taken
}

func newProc(name string, stopAt func(int) bool) *proc {
	return &proc{name: name, gates: make(chan int, 4), release: make(chan struct{}), cmd: make(chan string), done: make(chan []any, 1), stopAt: stopAt}
}

func (p *proc) atGate(point int) {
	if p.stopAt != nil && !p.stopAt(point) {
		return
	}
	p.gates <- point
	<-p.release
}

func (p *proc) run(f func() []any) {
	go func() {
		id := goid()
		procByGoid.Store(id, p)
		defer procByGoid.Delete(id)
		var res []any
		defer func() {
			if x := recover(); x != nil {
				res = []any{"panic: " + fmt.Sprint(x)}
			}
			p.done <- res
		}()
		res = f()
	}()
}

var errStepTimeout = errors.New("step did not complete")

const stepTimeout = 5 * time.Second

func (p *proc) waitGate(want ...int) (int, error) {
	select {
	case g := <-p.gates:
		if !slices.Contains(want, g) {
			return g, fmt.Errorf("%s reached %s, the specification expects %v", p.name, pointName(g), pointNamesOf(want))
		}
		return g, nil
	case res := <-p.done:
		p.done <- res
		return -1, fmt.Errorf("%s returned (%v) before reaching %v", p.name, res, pointNamesOf(want))
	case <-time.After(stepTimeout):
		return -1, errStepTimeout
	}
}

func pointName(g int) string {
	if n, ok := pointNames[g]; ok {
		return n
	}
	return fmt.Sprintf("gate(%d)", g)
}

func pointNamesOf(gs []int) []string {
	out := make([]string, len(gs))
	for i, g := range gs {
		out[i] = pointName(g)
	}
	return out
}

func (p *proc) waitDone() ([]any, error) {
	select {
	case res := <-p.done:
		p.fin = true
		return res, nil
	case g := <-p.gates:
		return nil, fmt.Errorf("%s stopped at %s instead of returning", p.name, pointName(g))
	case <-time.After(stepTimeout):
		return nil, errStepTimeout
	}
}

// ---- constants of MC_Conc -----------------------------------------------------------------------

type concProg struct {
	Single  bool
	Managed bool // transaction writers only: Updates instead of Txn(true)
	Ops     [][2]any
	End     string
}

type concGen struct {
	Keys     []string // patterns; key k is Keys[k-1]
	Progs    []concProg
	Readers  int
	Calls    [][]any
	MaxReads int
	Broken   string
	Init     []int // tag of each key in the initially published set (0 = absent)
}

func (g *concGen) tla() string {
	var sb strings.Builder
	sb.WriteString("---- MODULE Gen_Conc ----\n")
	ks := make([]int, len(g.Keys))
	for i := range ks {
		ks[i] = i + 1
	}
	fmt.Fprintf(&sb, "GenKeys == %s\n", tlaIntSet(ks))
	ws := make([]int, len(g.Progs))
	for i := range ws {
		ws[i] = i + 1
	}
	fmt.Fprintf(&sb, "GenWriters == %s\n", tlaIntSet(ws))
	rs := make([]int, g.Readers)
	for i := range rs {
		rs[i] = i + 1
	}
	fmt.Fprintf(&sb, "GenReaders == %s\n", tlaIntSet(rs))
	var ps []string
	for _, p := range g.Progs {
		var ops []string
		for si, o := range p.Ops {
			ops = append(ops, fmt.Sprintf("<<%s, %d, %d>>", tlaStr(o[0].(string)), o[1].(int), (len(ps)+1)*10+si+1))
		}
		ps = append(ps, fmt.Sprintf("[single |-> %s, ops |-> <<%s>>, end |-> %s]", tlaBool(p.Single), strings.Join(ops, ", "), tlaStr(p.End)))
	}
	fmt.Fprintf(&sb, "GenProg == <<%s>>\n", strings.Join(ps, ",\n  "))
	var cs []string
	for _, c := range g.Calls {
		if len(c) == 2 {
			cs = append(cs, fmt.Sprintf("<<%s, %d>>", tlaStr(c[0].(string)), c[1].(int)))
		} else {
			cs = append(cs, fmt.Sprintf("<<%s>>", tlaStr(c[0].(string))))
		}
	}
	fmt.Fprintf(&sb, "GenReadCalls == {%s}\n", strings.Join(cs, ", "))
	init := make([]string, len(g.Keys))
	for i := range init {
		v := 0
		if i < len(g.Init) {
			v = g.Init[i]
		}
		init[i] = fmt.Sprintf("%d", v)
	}
	fmt.Fprintf(&sb, "GenInit == <<%s>>\n", strings.Join(init, ", "))
	fmt.Fprintf(&sb, "GenMaxReads == %d\nGenBroken == %s\n====\n", g.MaxReads, tlaStr(g.Broken))
	return sb.String()
}

// ---- projected state ----------------------------------------------------------------------------------

type concW struct {
	Pc   string `json:"pc"`
	Step int    `json:"step"`
	Res  []any  `json:"res"`
	Work []int  `json:"work"`
	Base int    `json:"base"`
}

type concR struct {
	Pc   string `json:"pc"`
	Seen int    `json:"seen"`
	N    int    `json:"n"`
	Call []any  `json:"call"`
}

type concState struct {
	Pub  []int   `json:"pub"`
	Ver  int     `json:"ver"`
	Lock int     `json:"lock"`
	W    []concW `json:"w"`
	Rd   []concR `json:"rd"`
}

func (s *concState) key() string { b, _ := json.Marshal(s); return string(b) }

type concOp struct {
	Proc string `json:"proc"`
	ID   int    `json:"id"`
	Act  string `json:"act"`
	Arg  []any  `json:"arg"`
	Res  []any  `json:"res"`
}

type concEdge struct {
	From concState `json:"from"`
	Op   concOp    `json:"op"`
	To   concState `json:"to"`
}

type cnode struct {
	st     concState
	parent *cedge
}

type cedge struct {
	from, to string
	op       concOp
	idx      int
}

// ---- one schedule replay ----------------------------------------------------------------------------------

type tagKey struct{}

type schedRun struct {
	g       *concGen
	r       *fox.Router
	writers map[int]*proc
	readers map[int]*proc
	variant int // rotates the real entry points used for abstract calls
}

func newSchedRun(g *concGen, variant int) *schedRun {
	r, err := fox.New(fox.WithNoMethod(true), fox.WithAutoOptions(true), fox.WithRedirectTrailingSlash(true))
	if err != nil {
		failTool("fox.New: %v", err)
	}
	for i, tag := range g.Init {
		if tag != 0 {
			r.MustHandle("GET", g.Keys[i], tagHandler(tag), fox.WithAnnotation(tagKey{}, tag))
		}
	}
	return &schedRun{g: g, r: r, writers: map[int]*proc{}, readers: map[int]*proc{}, variant: variant}
}

func tagOf(rt *fox.Route) int {
	if rt == nil {
		return 0
	}
	t, _ := rt.Annotation(tagKey{}).(int)
	return t
}

func tagHandler(tag int) fox.HandlerFunc {
	return func(c fox.Context) {
		c.Writer().Header().Set("X-Tag", strconv.Itoa(tag))
		c.Writer().Header().Set("X-Pat", c.Pattern())
	}
}

func (s *schedRun) doOp(w writer, i, step int, o [2]any) string {
	kind, k := o[0].(string), o[1].(int)
	tag := i*10 + step
	pat := s.g.Keys[k-1]
	var err error
	switch kind {
	case "Handle":
		_, err = w.Handle("GET", pat, tagHandler(tag), fox.WithAnnotation(tagKey{}, tag))
	case "Update":
		_, err = w.Update("GET", pat, tagHandler(tag), fox.WithAnnotation(tagKey{}, tag))
	case "Delete":
		_, err = w.Delete("GET", pat)
	case "Truncate":
		if t, ok := w.(*fox.Txn); ok {
			err = t.Truncate("GET")
		} else {
			err = errors.New("Truncate outside a transaction")
		}
	case "Iter": // the transaction reads its own state through an iterator (and, every other time, a snapshot)
		if t, ok := w.(*fox.Txn); ok {
			if step%2 == 0 {
				for range t.Iter().All() {
				}
			} else if sn := t.Snapshot(); sn != nil {
				_ = sn.Len()
			}
		} else {
			err = errors.New("Iter outside a transaction")
		}
	}
	return errClass(err)
}

// writerBody is what writer i executes on its own goroutine.
func (s *schedRun) writerBody(i int, p *proc) func() []any {
	prog := s.g.Progs[i-1]
	if prog.Single {
		return func() []any { return []any{s.doOp(s.r, i, 1, prog.Ops[0])} }
	}
	body := func(txn *fox.Txn) (res []any, abort bool) {
		p.gates <- hgTxnReady
		<-p.release
		for {
			c := <-p.cmd
			if c == "end" {
				return res, prog.End != "commit"
			}
			step := len(res) + 1
			res = append(res, s.doOp(txn, i, step, prog.Ops[step-1]))
			p.gates <- hgOpDone
			<-p.release
		}
	}
	if prog.Managed {
		return func() []any {
			var res []any
			err := s.r.Updates(func(txn *fox.Txn) error {
				var abort bool
				res, abort = body(txn)
				if abort {
					return errSentinel
				}
				return nil
			})
			if (err != nil) != (prog.End != "commit") {
				res = append(res, "Updates returned "+fmt.Sprint(err))
			}
			return res
		}
	}
	return func() []any {
		txn := s.r.Txn(true)
		res, abort := body(txn)
		if abort {
			txn.Abort()
		} else {
			txn.Commit()
		}
		return res
	}
}

// readerBody performs one abstract read through one of the real entry points.
func (s *schedRun) readerBody(call []any, variant int) func() []any {
	kind := call[0].(string)
	switch kind {
	case "has":
		k := int(call[1].(float64))
		pat := s.g.Keys[k-1]
		switch variant % nHasVariants {
		case 0:
			return func() []any { return []any{tagOf(s.r.Route("GET", pat))} }
		case 1:
			return func() []any {
				rt, _ := s.r.Reverse("GET", "", pat)
				if rt != nil && rt.Pattern() != pat {
					rt = nil
				}
				return []any{tagOf(rt)}
			}
		case 2:
			return func() []any {
				req, _ := newRequest("GET", "", pat, "")
				rt, cc, _ := s.r.Lookup(nil, req)
				if cc != nil {
					cc.Close()
				}
				if rt != nil && rt.Pattern() != pat {
					rt = nil
				}
				return []any{tagOf(rt)}
			}
		case 3:
			return func() []any {
				req, _ := newRequest("GET", "", pat, "")
				w := newPlainWriter()
				s.r.ServeHTTP(w, req)
				t, _ := strconv.Atoi(w.h.Get("X-Tag"))
				if w.h.Get("X-Pat") != pat {
					t = 0
				}
				return []any{t}
			}
		case 4:
			return func() []any {
				t := 0
				_ = s.r.View(func(txn *fox.Txn) error { t = tagOf(txn.Route("GET", pat)); return nil })
				return []any{t}
			}
		case 5:
			return func() []any {
				t := 0
				for _, rt := range s.r.Iter().Routes(slices.Values([]string{"GET"}), pat) {
					t = tagOf(rt)
				}
				return []any{t}
			}
		case 6:
			return func() []any {
				has := s.r.Has("GET", pat) // one load; only presence is observable
				_ = s.r.Stats()
				return []any{has}
			}
		case 7:
			return func() []any {
				t := 0
				for _, rt := range s.r.Iter().Reverse(slices.Values([]string{"GET"}), "", pat) {
					if rt.Pattern() == pat {
						t = tagOf(rt)
					}
				}
				return []any{t}
			}
		case 8:
			return func() []any {
				txn := s.r.Txn(false)
				defer txn.Abort()
				rt, _ := txn.Reverse("GET", "", pat)
				if rt != nil && rt.Pattern() != pat {
					rt = nil
				}
				if snap := txn.Snapshot(); snap == nil || snap.Has("GET", pat) != (rt != nil) { // a snapshot of a read-only transaction is a read too
					return []any{"Txn.Snapshot of a read-only transaction disagrees with it"}
				}
				if txn.Has("GET", pat) != (rt != nil) {
					return []any{"Txn.Has and Txn.Reverse disagree"}
				}
				return []any{tagOf(rt)}
			}
		default:
			// the special handlers are reads too: 404, 405, automatic OPTIONS, slash redirect
			return func() []any {
				t := tagOf(s.r.Route("GET", pat)) // the gated load; the requests below load again, freely
				for _, q := range [][2]string{{"POST", pat}, {"OPTIONS", pat}, {"GET", pat + "/"}, {"GET", "/no/such/route"}, {"OPTIONS", "*"}, {"FOO", pat}} {
					req, _ := newRequest(q[0], "", q[1], "")
					s.r.ServeHTTP(newPlainWriter(), req)
				}
				return []any{t}
			}
		}
	case "len":
		if variant%2 == 0 {
			return func() []any { return []any{s.r.Len()} }
		}
		return func() []any {
			n := 0
			for range s.r.Iter().All() {
				n++
			}
			return []any{n}
		}
	default: // "all"
		return func() []any {
			m := make([]any, len(s.g.Keys))
			for i := range m {
				m[i] = 0
			}
			collect := func(it fox.Iter) {
				for _, rt := range it.All() {
					for i, p := range s.g.Keys {
						if p == rt.Pattern() {
							m[i] = tagOf(rt)
						}
					}
				}
			}
			if variant%2 == 0 {
				collect(s.r.Iter())
			} else {
				txn := s.r.Txn(false)
				collect(txn.Iter())
				txn.Abort()
			}
			return []any{m}
		}
	}
}

const nHasVariants = 10

func writerStops(point int) bool { return true }
func readerStops(point int) bool { return point == fox.VerifLoad }

// readerGate stops a reader at its first load only (an abstract read may be implemented by several real reads).
func readerGate() func(int) bool {
	first := true
	return func(point int) bool {
		if point == fox.VerifLoad && first {
			first = false
			return true
		}
		return false
	}
}

// published reads the published map from the controller goroutine (not a registered process: no gate).
func (s *schedRun) published() []int {
	out := make([]int, len(s.g.Keys))
	for i, p := range s.g.Keys {
		out[i] = tagOf(s.r.Route("GET", p))
	}
	return out
}

// stepProblem describes why a step of the schedule did not go as the specification says.
type stepProblem struct {
	What    string
	Waiting bool // the step the specification enables did not complete (progress problem)
	Reader  bool
}

func normRes(v []any) string { b, _ := json.Marshal(v); return string(b) }

// step performs one specification step on the real goroutines.
func (s *schedRun) step(op concOp, to *concState) *stepProblem {
	fail := func(err error, reader bool) *stepProblem {
		return &stepProblem{What: err.Error(), Waiting: errors.Is(err, errStepTimeout), Reader: reader}
	}
	if op.Proc == "w" {
		i := op.ID
		p := s.writers[i]
		prog := s.g.Progs[i-1]
		switch op.Act {
		case "CallBegin":
			p = newProc(fmt.Sprintf("writer %d", i), writerStops)
			s.writers[i] = p
			p.run(s.writerBody(i, p))
			if _, err := p.waitGate(fox.VerifLockWait); err != nil {
				return fail(err, false)
			}
		case "Acquire":
			p.release <- struct{}{}
			if _, err := p.waitGate(fox.VerifLockAcquired); err != nil {
				return fail(err, false)
			}
		case "TryAcquire":
			// the lock is held by another writer: this goroutine must stay inside mu.Lock()
			p.release <- struct{}{}
			time.Sleep(500 * time.Microsecond)
			select {
			case g := <-p.gates:
				return &stepProblem{What: fmt.Sprintf("%s passed the writer lock (reached %s) while writer %d holds it", p.name, pointName(g), to.Lock)}
			default:
			}
		case "LoadRoot":
			p.release <- struct{}{}
			if _, err := p.waitGate(fox.VerifLoad); err != nil {
				return fail(err, false)
			}
			if !prog.Single {
				p.release <- struct{}{}
				if _, err := p.waitGate(hgTxnReady); err != nil {
					return fail(err, false)
				}
			}
		case "RunSingle":
			want := fox.VerifBeforeStore
			if op.Res[0].(string) != "ok" {
				want = fox.VerifAbort
			}
			p.release <- struct{}{}
			if _, err := p.waitGate(want); err != nil {
				return fail(err, false)
			}
		case "TxnOp":
			p.release <- struct{}{}
			p.cmd <- "op"
			if _, err := p.waitGate(hgOpDone); err != nil {
				return fail(err, false)
			}
		case "CallEnd":
			want := fox.VerifBeforeStore
			if prog.End != "commit" {
				want = fox.VerifAbort
			}
			p.release <- struct{}{}
			p.cmd <- "end"
			if _, err := p.waitGate(want); err != nil {
				return fail(err, false)
			}
		case "Store":
			p.release <- struct{}{}
			if _, err := p.waitGate(fox.VerifAfterStore); err != nil {
				return fail(err, false)
			}
		case "Unlock":
			p.release <- struct{}{}
			if _, err := p.waitGate(fox.VerifUnlocked); err != nil {
				return fail(err, false)
			}
			if to.Lock != 0 { // the blocked writer gets the mutex
				if _, err := s.writers[to.Lock].waitGate(fox.VerifLockAcquired); err != nil {
					return fail(fmt.Errorf("after the unlock: %w", err), false)
				}
			}
		case "Return":
			p.release <- struct{}{}
			res, err := p.waitDone()
			if err != nil {
				return fail(err, false)
			}
			if normRes(res) != normRes(op.Res) {
				return &stepProblem{What: fmt.Sprintf("%s returned %s, the specification prescribes %s", p.name, normRes(res), normRes(op.Res))}
			}
		default:
			failTool("unknown writer action %q", op.Act)
		}
	} else {
		j := op.ID
		switch op.Act {
		case "RLoad":
			p := newProc(fmt.Sprintf("reader %d", j), readerGate())
			s.readers[j] = p
			p.run(s.readerBody(op.Arg, s.variant+j))
			if _, err := p.waitGate(fox.VerifLoad); err != nil {
				return fail(err, true)
			}
		case "RReturn":
			p := s.readers[j]
			p.release <- struct{}{}
			res, err := p.waitDone()
			if err != nil {
				return fail(err, true)
			}
			if b, isBool := res[0].(bool); isBool && len(op.Res) == 1 {
				if t, isNum := op.Res[0].(float64); isNum && b == (t != 0) {
					res = op.Res
				}
			}
			if normRes(res) != normRes(op.Res) {
				return &stepProblem{What: fmt.Sprintf("%s %v returned %s, the specification prescribes %s (the version loaded was %d)", p.name, op.Arg, normRes(res), normRes(op.Res), to.Rd[j-1].Seen), Reader: true}
			}
		default:
			failTool("unknown reader action %q", op.Act)
		}
	}
	// the published state of the real router must be the model's after every step
	if got := s.published(); !slices.Equal(got, to.Pub) {
		return &stepProblem{What: fmt.Sprintf("after %s %d %s the router publishes %v, the specification %v", op.Proc, op.ID, op.Act, got, to.Pub)}
	}
	return nil
}

// drain lets every parked goroutine run to completion (used at the end of a replay and to confirm waits).
func (s *schedRun) drain() bool {
	all := true
	deadline := time.Now().Add(stepTimeout)
	pending := []*proc{}
	for _, p := range s.writers {
		pending = append(pending, p)
	}
	for _, p := range s.readers {
		pending = append(pending, p)
	}
	finished := map[*proc]bool{}
	for _, p := range pending {
		if p.fin {
			finished[p] = true
		}
	}
	for len(finished) < len(pending) && time.Now().Before(deadline) {
		progressed := false
		for _, p := range pending {
			if finished[p] {
				continue
			}
			select {
			case <-p.done:
				finished[p] = true
				progressed = true
			case p.release <- struct{}{}:
				progressed = true
			case <-p.gates:
				progressed = true
			case p.cmd <- "end":
				progressed = true
			default:
			}
		}
		if !progressed {
			time.Sleep(200 * time.Microsecond)
		}
	}
	if len(finished) < len(pending) {
		all = false
	}
	return all
}

// ---- graph exploration and replay ------------------------------------------------------------------------

type concReplayer struct {
	r        *Run
	g        *concGen
	nodes    map[string]*cnode
	edges    []*cedge
	replayed atomic.Int64
	steps    atomic.Int64
	readerEd atomic.Int64
	negEd    atomic.Int64
	acts     sync.Map
}

func (cr *concReplayer) pathTo(key string) []*cedge {
	var rev []*cedge
	for n := cr.nodes[key]; n != nil && n.parent != nil; n = cr.nodes[n.parent.from] {
		rev = append(rev, n.parent)
	}
	slices.Reverse(rev)
	return rev
}

func describeSched(path []*cedge, last *cedge) []string {
	var out []string
	d := func(e *cedge) string {
		s := fmt.Sprintf("%s%d.%s", e.op.Proc, e.op.ID, e.op.Act)
		if len(e.op.Arg) > 0 {
			s += fmt.Sprint(e.op.Arg)
		}
		return s
	}
	for _, e := range path {
		out = append(out, d(e))
	}
	if last != nil {
		out = append(out, d(last))
	}
	return out
}

// replayEdge replays the BFS interleaving into the edge's source state, then the edge's step.
// only: "" = report every disagreement; "reader-wait" = only reads that wait / second writers that proceed (C06).
func (cr *concReplayer) replayEdge(e *cedge, only string, variant int) {
	if cr.r.tooManyViolations() {
		return
	}
	s := newSchedRun(cr.g, variant)
	defer s.drain()
	path := cr.pathTo(e.from)
	for _, pe := range path {
		to := cr.nodes[pe.to].st
		if pb := s.step(pe.op, &to); pb != nil {
			return // reported by the replay of that edge
		}
		cr.steps.Add(1)
	}
	to := cr.nodes[e.to].st
	pb := s.step(e.op, &to)
	cr.replayed.Add(1)
	cr.steps.Add(1)
	if e.op.Proc == "r" {
		cr.readerEd.Add(1)
	}
	if e.op.Act == "TryAcquire" {
		cr.negEd.Add(1)
	}
	if pb == nil {
		return
	}
	sched := describeSched(path, e)
	if pb.Waiting {
		// confirm causally: does the step complete once every other goroutine has been let go?
		ok := s.drain()
		if !ok {
			failTool("schedule %v: step never completed, even after releasing everybody (%s)", sched, pb.What)
		}
		if !pb.Reader && only == "reader-wait" {
			return
		}
		pb.What = "the step completed only after the parked goroutines were released: " + pb.What
	} else if only == "reader-wait" && e.op.Act != "TryAcquire" {
		return
	}
	key := "schedule " + strings.Join(sched, " ")
	cr.r.violation(key, map[string]any{"kind": "schedule", "schedule": sched, "step": len(sched),
		"keys": cr.g.Keys, "programs": cr.g.Progs,
		"prescribed": map[string]any{"state_after": e.to, "result": e.op.Res}, "obtained": pb.What})
}

func exploreConc(r *Run, g *concGen, only string, timeout time.Duration) *concReplayer {
	installHook()
	cr := &concReplayer{r: r, g: g, nodes: map[string]*cnode{}}
	var mu sync.Mutex
	res := r.runTLC(tlcOpts{
		Module:  "MC_Conc",
		Gen:     map[string]string{"Gen_Conc.tla": g.tla()},
		Timeout: timeout,
		Tag:     fmt.Sprint(len(g.Progs), g.Readers),
		OnVec: func(b []byte) {
			var e concEdge
			if err := json.Unmarshal(b, &e); err != nil {
				failTool("bad edge from TLC: %v: %.300s", err, b)
			}
			fk, tk := e.From.key(), e.To.key()
			mu.Lock()
			if _, ok := cr.nodes[fk]; !ok {
				cr.nodes[fk] = &cnode{st: e.From}
			}
			if _, ok := cr.nodes[tk]; !ok {
				cr.nodes[tk] = &cnode{st: e.To}
			}
			cr.edges = append(cr.edges, &cedge{from: fk, to: tk, op: e.Op, idx: len(cr.edges)})
			mu.Unlock()
		},
	})
	res.mustClean("MC_Conc")
	// liveness under reader-only fairness on the same constants
	live := r.runTLC(tlcOpts{Module: "MC_Conc", Cfg: "MC_ConcLive.cfg", Gen: map[string]string{"Gen_Conc.tla": g.tla()}, Timeout: timeout, Tag: "live" + fmt.Sprint(len(g.Progs), g.Readers)})
	live.mustClean("MC_Conc (liveness, reader-only fairness)")
	r.addCov("states", res.Distinct)
	r.addCov("transitions", res.Generated)
	r.addCov("liveness_states", live.Distinct)
	// BFS tree
	var initKey string
	for k, n := range cr.nodes {
		idle := n.st.Ver == 1 && n.st.Lock == 0
		for _, w := range n.st.W {
			idle = idle && w.Pc == "idle"
		}
		for _, x := range n.st.Rd {
			idle = idle && x.Pc == "idle" && x.N == 0
		}
		if idle {
			initKey = k
		}
	}
	if initKey == "" {
		failTool("initial state not found")
	}
	out := map[string][]*cedge{}
	for _, e := range cr.edges {
		out[e.from] = append(out[e.from], e)
	}
	visited := map[string]bool{initKey: true}
	queue := []string{initKey}
	for len(queue) > 0 {
		k := queue[0]
		queue = queue[1:]
		for _, e := range out[k] {
			if !visited[e.to] {
				visited[e.to] = true
				cr.nodes[e.to].parent = e
				queue = append(queue, e.to)
			}
		}
	}
	if len(visited) != len(cr.nodes) {
		failTool("schedule graph not connected: %d of %d", len(visited), len(cr.nodes))
	}
	edges := cr.edges
	if only == "reader-wait" {
		edges = nil
		for _, e := range cr.edges {
			if e.op.Proc == "r" || e.op.Act == "TryAcquire" {
				edges = append(edges, e)
			}
		}
	}
	if only == "reader-wait" {
		// every read entry point in every state of every parked writer
		parallel(len(edges)*nHasVariants, func(i int) { cr.replayEdge(edges[i/nHasVariants], only, i%nHasVariants) })
	} else {
		parallel(len(edges), func(i int) { cr.replayEdge(edges[i], only, edges[i].idx) })
	}
	r.addCov("traces_validated_against_impl", cr.replayed.Load())
	r.addCov("schedule_edges_replayed", cr.replayed.Load())
	r.addCov("schedule_steps_executed", cr.steps.Load())
	r.addCov("reader_edges_replayed", cr.readerEd.Load())
	r.addCov("blocked_writer_edges_replayed", cr.negEd.Load())
	r.addCov("evaluations", cr.steps.Load())
	if len(edges) > 0 {
		e := edges[len(edges)*2/3]
		r.sample(map[string]any{"schedule": describeSched(cr.pathTo(e.from), e), "keys": g.Keys})
	}
	return cr
}

// ---- D2: free-running stress under the race detector, recorded and validated by Trace_Conc ---------------

type stressEvent struct {
	Seq    int64   `json:"-"`
	E      string  `json:"e"`
	G      int     `json:"g"`
	Single bool    `json:"single"`
	Ops    [][]any `json:"ops"`
	End    string  `json:"end"`
	Res    any     `json:"res"`
	Call   []any   `json:"call"`
}

type stressWorker struct {
	role   string // "w" or "r"
	id     int
	events []stressEvent
}

var stressCtr atomic.Int64
var stressByGoid sync.Map

func (sw *stressWorker) log(e stressEvent) {
	e.Seq = stressCtr.Add(1)
	e.G = sw.id
	if e.Ops == nil {
		e.Ops = [][]any{}
	}
	if e.Call == nil {
		e.Call = []any{}
	}
	if e.Res == nil {
		e.Res = []any{}
	}
	sw.events = append(sw.events, e)
}

var stressHookNames = map[int]string{fox.VerifLockWait: "lw", fox.VerifLockAcquired: "la", fox.VerifLoad: "ld", fox.VerifBeforeStore: "bs",
	fox.VerifAfterStore: "as", fox.VerifAbort: "ab", fox.VerifUnlocked: "ul"}

// runStress drives nW writers and nR readers freely on one router and returns the merged event trace.
// Echo traffic: requests on routes no writer touches (method ECHO: a static hostname, a parameter hostname, several
// path parameters, an infix catch-all), sent by goroutines outside the recorded history while the tree below them is
// being replaced. The handler reports the parameters it sees; they must be the ones of its own request (C05: no data
// race, every request is routed atomically on one version; C12 under real concurrency).
var stressEchoRoutes = []string{"static.example/e/{x}/{y}", "{h}.example/p/{x}", "/e/{x}/*{w}/end", "/q/{x}/{y}/{z}", "/i/{x}/", "/rd/{x}/"}

type echoMismatch struct {
	Route string `json:"route"`
	Want  string `json:"want"`
	Got   string `json:"got"`
}

var stressEchoMu sync.Mutex
var stressEchoBad []echoMismatch
var stressEchoCount atomic.Int64

func echoHandler(c fox.Context) {
	var sb strings.Builder
	for p := range c.Params() {
		sb.WriteString(p.Key + "=" + p.Value + ";")
	}
	runtime.Gosched() // leave room for another request to reuse a pooled context
	var sb2 strings.Builder
	for p := range c.Params() {
		sb2.WriteString(p.Key + "=" + p.Value + ";")
	}
	if sb.String() != sb2.String() {
		c.Writer().Header().Set("X-Echo", "changed while in flight: "+sb.String()+" -> "+sb2.String())
		return
	}
	c.Writer().Header().Set("X-Echo", sb.String())
}

func echoOnce(rt *fox.Router, rng *rand.Rand) {
	tok := func() string { return fmt.Sprintf("t%d", rng.Intn(1000000)) }
	a, b, cc := tok(), tok(), tok()
	var host, path, want, route string
	switch rng.Intn(7) {
	case 6: // answered by the trailing-slash redirect handler: no route handler runs
		route, host, path, want = stressEchoRoutes[5], "", "/rd/"+a, ""
	case 0:
		route, host, path, want = stressEchoRoutes[0], "static.example", "/e/"+a+"/"+b, "x="+a+";y="+b+";"
	case 1:
		route, host, path, want = stressEchoRoutes[1], a+".example", "/p/"+b, "h="+a+";x="+b+";"
	case 2:
		route, host, path, want = stressEchoRoutes[2], "other.test", "/e/"+a+"/"+b+"/"+cc+"/end", "x="+a+";w="+b+"/"+cc+";"
	case 3:
		route, host, path, want = stressEchoRoutes[3], "", "/q/"+a+"/"+b+"/"+cc, "x="+a+";y="+b+";z="+cc+";"
	case 4:
		route, host, path, want = stressEchoRoutes[4], "", "/i/"+a, "x="+a+";" // through the ignored trailing slash
	default:
		route, host, path, want = stressEchoRoutes[4], a+".example", "/i/"+b+"/", "x="+b+";"
	}
	req, _ := newRequest("ECHO", host, path, "")
	pw := newPlainWriter()
	rt.ServeHTTP(pw, req)
	stressEchoCount.Add(1)
	if got := pw.h.Get("X-Echo"); got != want {
		stressEchoMu.Lock()
		if len(stressEchoBad) < 5 {
			stressEchoBad = append(stressEchoBad, echoMismatch{Route: route, Want: want, Got: got})
		}
		stressEchoMu.Unlock()
	}
}

func runStress(seed int64, keys []string, nW, nR, opsPerWorker int, yield bool) []stressEvent {
	stressCtr.Store(0)
	rt, err := fox.New()
	if err != nil {
		failTool("fox.New: %v", err)
	}
	for _, p := range stressEchoRoutes {
		var ro []fox.RouteOption
		if strings.HasPrefix(p, "/rd/") {
			ro = append(ro, fox.WithRedirectTrailingSlash(true))
		} else if strings.HasSuffix(p, "/") {
			ro = append(ro, fox.WithIgnoreTrailingSlash(true))
		}
		if _, err := rt.Handle("ECHO", p, echoHandler, ro...); err != nil {
			failTool("echo route %s: %v", p, err)
		}
	}
	fox.VerifSetHook(func(r *fox.Router, point int) {
		if r != rt {
			return
		}
		v, ok := stressByGoid.Load(goid())
		if !ok {
			return
		}
		sw := v.(*stressWorker)
		if sw.role == "r" {
			if point == fox.VerifLoad {
				sw.log(stressEvent{E: "rload"})
			}
		} else {
			sw.log(stressEvent{E: stressHookNames[point]})
		}
		if yield {
			runtime.Gosched() // widen the windows around the critical sections
		}
	})
	defer func() { hookOnce = sync.Once{}; fox.VerifSetHook(nil) }()
	var wg, wwg sync.WaitGroup
	var writersDone atomic.Bool
	workers := []*stressWorker{}
	var tagCtr atomic.Int64
	tagCtr.Store(100)
	kinds := []string{"Handle", "Handle", "Update", "Delete", "Delete"}
	for i := 1; i <= nW; i++ {
		sw := &stressWorker{role: "w", id: i}
		workers = append(workers, sw)
		wg.Add(1)
		wwg.Add(1)
		go func(sw *stressWorker) {
			defer wg.Done()
			defer wwg.Done()
			id := goid()
			stressByGoid.Store(id, sw)
			defer stressByGoid.Delete(id)
			rng := rand.New(rand.NewSource(seed*1000 + int64(sw.id)))
			for n := 0; n < opsPerWorker; n++ {
				single := rng.Intn(3) > 0
				nops := 1
				if !single {
					nops = 1 + rng.Intn(3)
				}
				ops := make([][]any, nops)
				for k := range ops {
					kind := kinds[rng.Intn(len(kinds))]
					if !single && rng.Intn(12) == 0 {
						kind = "Truncate"
					}
					ops[k] = []any{kind, 1 + rng.Intn(len(keys)), int(tagCtr.Add(1))}
				}
				end := "commit"
				if !single && rng.Intn(3) == 0 {
					end = "abort"
				}
				sw.log(stressEvent{E: "wcall", Single: single, Ops: ops, End: end})
				apply := func(w writer, o []any) string {
					kind, k, tag := o[0].(string), o[1].(int), o[2].(int)
					pat := keys[k-1]
					var err error
					switch kind {
					case "Handle":
						_, err = w.Handle("GET", pat, tagHandler(tag), fox.WithAnnotation(tagKey{}, tag))
					case "Update":
						_, err = w.Update("GET", pat, tagHandler(tag), fox.WithAnnotation(tagKey{}, tag))
					case "Delete":
						_, err = w.Delete("GET", pat)
					case "Truncate":
						err = w.(*fox.Txn).Truncate("GET")
					}
					return errClass(err)
				}
				var res []any
				if single {
					res = []any{apply(rt, ops[0])}
				} else {
					txn := rt.Txn(true)
					for _, o := range ops {
						e := apply(txn, o)
						res = append(res, e)
						sw.log(stressEvent{E: "wop", Res: e})
					}
					sw.log(stressEvent{E: "wend"})
					if end == "commit" {
						txn.Commit()
					} else {
						txn.Abort()
					}
				}
				sw.log(stressEvent{E: "wret", Res: res})
			}
		}(sw)
	}
	for j := 1; j <= nR; j++ {
		sw := &stressWorker{role: "r", id: j}
		workers = append(workers, sw)
		wg.Add(1)
		go func(sw *stressWorker) {
			defer wg.Done()
			id := goid()
			stressByGoid.Store(id, sw)
			defer stressByGoid.Delete(id)
			rng := rand.New(rand.NewSource(seed*7777 + int64(sw.id)))
			// readers keep reading for as long as the writers write (bounded, so that traces stay short)
			for n := 0; n < opsPerWorker*6 && !writersDone.Load(); n++ {
				time.Sleep(time.Duration(20+rng.Intn(200)) * time.Microsecond)
				switch rng.Intn(4) {
				case 0:
					sw.log(stressEvent{E: "rcall", Call: []any{"all"}})
					m := make([]any, len(keys))
					for i := range m {
						m[i] = 0
					}
					for _, rte := range rt.Iter().All() {
						for i, p := range keys {
							if p == rte.Pattern() {
								m[i] = tagOf(rte)
							}
						}
					}
					sw.log(stressEvent{E: "rret", Res: []any{m}})
				case 1:
					sw.log(stressEvent{E: "rcall", Call: []any{"len"}})
					n := rt.Len() - len(stressEchoRoutes) // the echo routes are not part of the recorded history
					sw.log(stressEvent{E: "rret", Res: []any{n}})
				default:
					k := 1 + rng.Intn(len(keys))
					sw.log(stressEvent{E: "rcall", Call: []any{"has", k}})
					var t int
					switch rng.Intn(3) {
					case 0:
						t = tagOf(rt.Route("GET", keys[k-1]))
					case 1:
						req, _ := newRequest("GET", "", keys[k-1], "")
						pw := newPlainWriter()
						rt.ServeHTTP(pw, req)
						t, _ = strconv.Atoi(pw.h.Get("X-Tag"))
						if pw.h.Get("X-Pat") != keys[k-1] {
							t = 0
						}
					default:
						rte, _ := rt.Reverse("GET", "", keys[k-1])
						if rte != nil && rte.Pattern() == keys[k-1] {
							t = tagOf(rte)
						}
					}
					sw.log(stressEvent{E: "rret", Res: []any{t}})
				}
			}
		}(sw)
	}
	// one iterator sequence, created once on the initial tree, ranged by several goroutines at the same time (the
	// documentation promises that): every pass must yield the routes the tree had when the sequence was created
	sharedAll := rt.Iter().All()
	sharedPrefix := rt.Iter().Prefix(slices.Values([]string{"ECHO"}), "/")
	countSeq := func(seq iter.Seq2[string, *fox.Route]) int {
		n := 0
		for range seq {
			n++
			if n%2 == 0 {
				runtime.Gosched()
			}
		}
		return n
	}
	wantAll, wantPrefix := countSeq(sharedAll), countSeq(sharedPrefix)
	for e := 0; e < 4; e++ {
		wg.Add(1)
		go func(e int) {
			defer wg.Done()
			rng := rand.New(rand.NewSource(seed*31337 + int64(e)))
			for n := 0; n < opsPerWorker*40 && !writersDone.Load(); n++ {
				echoOnce(rt, rng)
				if n%8 == 0 {
					if a, p := countSeq(sharedAll), countSeq(sharedPrefix); a != wantAll || p != wantPrefix {
						stressEchoMu.Lock()
						if len(stressEchoBad) < 5 {
							stressEchoBad = append(stressEchoBad, echoMismatch{Route: "one Iter sequence ranged by several goroutines", Want: fmt.Sprintf("%d routes (All), %d (Prefix)", wantAll, wantPrefix), Got: fmt.Sprintf("%d, %d", a, p)})
						}
						stressEchoMu.Unlock()
					}
				}
			}
		}(e)
	}
	go func() { wwg.Wait(); writersDone.Store(true) }()
	wg.Wait()
	var all []stressEvent
	for _, sw := range workers {
		all = append(all, sw.events...)
	}
	slices.SortFunc(all, func(a, b stressEvent) int { return int(a.Seq - b.Seq) })
	// the result of a read is what places its atomic load: copy it from the "rret" line onto the "rload" line
	pending := map[int]int{}
	for i := range all {
		switch all[i].E {
		case "rload":
			pending[all[i].G] = i
		case "rret":
			if k, ok := pending[all[i].G]; ok {
				all[k].Res = all[i].Res
				delete(pending, all[i].G)
			}
		}
	}
	return all
}

// stressMain is the entry point of `foxcheck --stress <dir> <seed> <tier>` (run in the -race build): it
// writes trace-<n>.ndjson files and a matching Gen_Conc.tla into dir.
func stressMain(dir string, seed int64, tier string) int {
	runs := 6
	ops := 40
	if tier == "thorough" {
		runs, ops = 60, 150
	}
	keySets := [][]string{{"/a", "/a/b", "/a/c", "/ab"}, {"/a/{x}", "/a/b", "/a/b/c", "/a/*{w}/z"}, {"/x/a", "/x/b", "/x/c", "/x/d", "/x"}}
	for n := 0; n < runs; n++ {
		keys := keySets[(int(seed)+n)%len(keySets)]
		nW, nR := []int{2, 3, 4}[n%3], []int{2, 4, 8}[(n/2)%3]
		procs := []int{2, 4, 16}[n%3]
		old := runtime.GOMAXPROCS(procs)
		evs := runStress(seed*100+int64(n), keys, nW, nR, ops, n%2 == 0)
		runtime.GOMAXPROCS(old)
		var sb strings.Builder
		for _, e := range evs {
			b, _ := json.Marshal(e)
			sb.Write(b)
			sb.WriteByte('\n')
		}
		os.WriteFile(filepath.Join(dir, fmt.Sprintf("trace-%d.ndjson", n)), []byte(sb.String()), 0o644)
		g := &concGen{Keys: keys, Readers: nR, MaxReads: 1000000, Broken: "none", Init: make([]int, len(keys))}
		for i := 0; i < nW; i++ {
			g.Progs = append(g.Progs, concProg{Single: true, End: "commit", Ops: [][2]any{{"Handle", 1}}})
		}
		g.Calls = [][]any{{"len"}}
		os.WriteFile(filepath.Join(dir, fmt.Sprintf("gen-%d.tla", n)), []byte(g.tla()), 0o644)
		stressEchoMu.Lock()
		echo, _ := json.Marshal(map[string]any{"requests": stressEchoCount.Load(), "mismatches": stressEchoBad})
		stressEchoBad = nil
		stressEchoMu.Unlock()
		os.WriteFile(filepath.Join(dir, fmt.Sprintf("echo-%d.json", n)), echo, 0o644)
		meta, _ := json.Marshal(map[string]any{"keys": keys, "writers": nW, "readers": nR, "gomaxprocs": procs, "events": len(evs)})
		os.WriteFile(filepath.Join(dir, fmt.Sprintf("meta-%d.json", n)), meta, 0o644)
	}
	return exitOK
}

// runStressD2 runs the stress driver in the race build, then validates every trace with Trace_Conc.
func runStressD2(r *Run) {
	dir := filepath.Join(r.Scratch, "stress")
	os.MkdirAll(dir, 0o755)
	raceLog := filepath.Join(r.Scratch, "race")
	os.MkdirAll(raceLog, 0o755)
	bin := os.Getenv("FOXCHECK_RACE_BIN")
	if _, err := os.Stat(bin); err != nil {
		failTool("race build of the harness not available: %v", err)
	}
	cmd := exec.Command(bin, "--stress", dir, fmt.Sprint(r.Seed), r.Tier)
	cmd.Env = append(os.Environ(), "GORACE=halt_on_error=0 exitcode=0 log_path="+filepath.Join(raceLog, "race"))
	outb, err := cmd.CombinedOutput()
	if err != nil {
		// a crash of the driver is a panic inside fox under concurrency
		r.violation("stress driver crashed", map[string]any{"kind": "trace", "prescribed": "no panic under concurrent use", "obtained": tail(string(outb), 30)})
		return
	}
	os.Setenv("FOXCHECK_RACE_LOG", raceLog)
	reportRaces(r, "concurrent stress (writers, readers, transactions)")
	files, _ := filepath.Glob(filepath.Join(dir, "trace-*.ndjson"))
	var events int64
	for n := range files {
		tr, _ := os.ReadFile(filepath.Join(dir, fmt.Sprintf("trace-%d.ndjson", n)))
		gen, _ := os.ReadFile(filepath.Join(dir, fmt.Sprintf("gen-%d.tla", n)))
		meta, _ := os.ReadFile(filepath.Join(dir, fmt.Sprintf("meta-%d.json", n)))
		res := r.runTLC(tlcOpts{Module: "Trace_Conc", Gen: map[string]string{"Gen_Conc.tla": string(gen)}, Files: map[string]string{"trace.ndjson": string(tr)},
			Workers: 1, DFS: true, Timeout: pick(r, 5*time.Minute, 20*time.Minute), Tag: fmt.Sprint(n)})
		nev := int64(strings.Count(string(tr), "\n"))
		events += nev
		accepted := res.ExitCode == 0 && !res.Error && res.InvViol == "" && !strings.Contains(res.Output, "Postcondition") && !strings.Contains(res.Output, "postcondition")
		if !accepted {
			if res.InvViol == "" && !strings.Contains(strings.ToLower(res.Output), "postcondition") {
				failTool("Trace_Conc did not run cleanly on trace %d:\n%s", n, tail(res.Output, 40))
			}
			keep := filepath.Join(verifDir, "evidence", "replays", fmt.Sprintf("C05-trace-%d-%d.ndjson", r.Seed, n))
			os.MkdirAll(filepath.Dir(keep), 0o755)
			os.WriteFile(keep, tr, 0o644)
			r.violation(fmt.Sprintf("stress trace %d rejected", n), map[string]any{"kind": "trace", "trace_file": keep, "setup": json.RawMessage(meta),
				"prescribed": "some placement of the unlogged steps (lock, load, store, unlock, reader load) explains every recorded event with every invariant holding",
				"obtained":   tail(res.Output, 25)})
		}
		if eb, err := os.ReadFile(filepath.Join(dir, fmt.Sprintf("echo-%d.json", n))); err == nil {
			var er struct {
				Requests   int64          `json:"requests"`
				Mismatches []echoMismatch `json:"mismatches"`
			}
			json.Unmarshal(eb, &er)
			r.setCov("echo_requests_under_stress", er.Requests)
			for _, mm := range er.Mismatches {
				r.violation(fmt.Sprintf("stress echo route=%s: a request or an iteration saw the data of another one", mm.Route), map[string]any{"kind": "trace", "setup": json.RawMessage(meta),
					"prescribed": mm.Want, "obtained": mm.Got})
			}
		}
		if n == 0 {
			lines := strings.SplitN(string(tr), "\n", 12)
			r.sample(map[string]any{"trace_setup": json.RawMessage(meta), "first_events": lines[:min(len(lines), 10)]})
		}
		r.addCov("trace_states", res.Distinct)
	}
	r.addCov("stress_traces_validated", int64(len(files)))
	r.addCov("stress_events_validated", events)
	r.addCov("traces_validated_against_impl", int64(len(files)))
}
