//go:build !verif

package main

// stopping a read right after its load needs the verification point vpLoad (verif build)
func runRequestKeepsItsState(r *Run) {}
