//go:build verif

package main

func stressEntry(dir string, seed int64, tier string) int { return stressMain(dir, seed, tier) }
