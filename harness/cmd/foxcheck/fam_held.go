package main

import (
	"context"
	"errors"
	"fmt"
	"iter"
	"net/http"
	"net/http/httptest"
	"runtime"
	"slices"
	"strings"
	"sync"
	"time"

	"github.com/tigerwill90/fox"
)

// C06, second sentence ("writers wait only for other writers"), replayed from FoxConc's WritersWaitOnlyForWriters:
// in every state in which a reader is between its load and its return - a Lookup context not closed yet, an iterator
// half consumed, a read-only transaction open, a View callback or a request handler still running - every writer
// step is enabled. Each kind of held read is combined with each write entry point; the write must return while the
// read is still held.

type heldRead struct {
	name string
	// hold starts the read and returns when it is in flight; release lets it finish and waits for it
	hold func(rt *fox.Router) (release func())
}

func heldReads() []heldRead {
	parked := func(run func(rt *fox.Router, entered chan<- struct{}, resume <-chan struct{})) func(rt *fox.Router) func() {
		return func(rt *fox.Router) func() {
			entered, resume, done := make(chan struct{}), make(chan struct{}), make(chan struct{})
			go func() {
				defer close(done)
				run(rt, entered, resume)
			}()
			<-entered
			return func() { close(resume); <-done }
		}
	}
	return []heldRead{
		{"Router.Lookup context not closed", func(rt *fox.Router) func() {
			req := httptest.NewRequest(http.MethodGet, "/held/a", nil)
			_, cc, _ := rt.Lookup(nil, req)
			return func() {
				if cc != nil {
					_ = cc.Param("x")
					cc.Close()
				}
			}
		}},
		{"Router.Lookup with trailing slash, context not closed", func(rt *fox.Router) func() {
			req := httptest.NewRequest(http.MethodGet, "/held/a/", nil)
			_, cc, _ := rt.Lookup(nil, req)
			return func() {
				if cc != nil {
					cc.Close()
				}
			}
		}},
		{"Router.Iter half consumed", func(rt *fox.Router) func() {
			next, stop := iter.Pull2(rt.Iter().All())
			next()
			return func() {
				for {
					if _, _, ok := next(); !ok {
						break
					}
				}
				stop()
			}
		}},
		{"read-only Txn open", func(rt *fox.Router) func() {
			tx := rt.Txn(false)
			_ = tx.Has(http.MethodGet, "/held/{x}")
			return func() { _ = tx.Len(); tx.Abort() }
		}},
		{"read-only Txn with a Lookup context not closed", func(rt *fox.Router) func() {
			tx := rt.Txn(false)
			req := httptest.NewRequest(http.MethodGet, "/held/a", nil)
			_, cc, _ := tx.Lookup(nil, req)
			return func() {
				if cc != nil {
					cc.Close()
				}
				tx.Abort()
			}
		}},
		{"View callback running", parked(func(rt *fox.Router, entered chan<- struct{}, resume <-chan struct{}) {
			_ = rt.View(func(txn *fox.Txn) error {
				_ = txn.Len()
				close(entered)
				<-resume
				_ = txn.Has(http.MethodGet, "/held/{x}")
				return nil
			})
		})},
		{"request handler running", parked(func(rt *fox.Router, entered chan<- struct{}, resume <-chan struct{}) {
			w := httptest.NewRecorder()
			req := httptest.NewRequest(http.MethodGet, "/park/1", nil)
			req = req.WithContext(withPark(req.Context(), entered, resume))
			rt.ServeHTTP(w, req)
		})},
		{"request handler running (ignored trailing slash)", parked(func(rt *fox.Router, entered chan<- struct{}, resume <-chan struct{}) {
			w := httptest.NewRecorder()
			req := httptest.NewRequest(http.MethodGet, "/park/1/", nil)
			req = req.WithContext(withPark(req.Context(), entered, resume))
			rt.ServeHTTP(w, req)
		})},
	}
}

type heldWrite struct {
	name string
	run  func(rt *fox.Router) error
}

func heldWrites() []heldWrite {
	h := routeHandler("held")
	return []heldWrite{
		{"Router.Handle", func(rt *fox.Router) error { _, err := rt.Handle(http.MethodGet, "/new", h); return err }},
		{"Router.Update", func(rt *fox.Router) error { _, err := rt.Update(http.MethodGet, "/held/{x}", h); return err }},
		{"Router.Delete", func(rt *fox.Router) error { _, err := rt.Delete(http.MethodGet, "/held/{x}"); return err }},
		{"Router.Delete of the last route of a method", func(rt *fox.Router) error { _, err := rt.Delete("FOO", "/foo"); return err }},
		{"Txn(true) two writes and Commit", func(rt *fox.Router) error {
			tx := rt.Txn(true)
			defer tx.Abort()
			if _, err := tx.Handle(http.MethodGet, "/new", h); err != nil {
				return err
			}
			if _, err := tx.Delete(http.MethodGet, "/held/{x}"); err != nil {
				return err
			}
			tx.Commit()
			return nil
		}},
		{"Txn(true) Truncate and Commit", func(rt *fox.Router) error {
			tx := rt.Txn(true)
			defer tx.Abort()
			if err := tx.Truncate(); err != nil {
				return err
			}
			tx.Commit()
			return nil
		}},
		{"Txn(true) and Abort", func(rt *fox.Router) error {
			tx := rt.Txn(true)
			_, err := tx.Handle(http.MethodGet, "/new", h)
			tx.Abort()
			return err
		}},
		{"Updates", func(rt *fox.Router) error {
			return rt.Updates(func(txn *fox.Txn) error {
				_, err := txn.Handle(http.MethodGet, "/new", h)
				return err
			})
		}},
		{"Updates returning an error", func(rt *fox.Router) error {
			err := rt.Updates(func(txn *fox.Txn) error {
				if _, err := txn.Handle(http.MethodGet, "/new", h); err != nil {
					return err
				}
				return errSentinel
			})
			if errors.Is(err, errSentinel) {
				return nil
			}
			return fmt.Errorf("Updates returned %v", err)
		}},
	}
}

func withPark(ctx context.Context, entered chan<- struct{}, resume <-chan struct{}) context.Context {
	return context.WithValue(ctx, parkKey{}, parkPoint{entered, resume})
}

type parkKey struct{}
type parkPoint struct {
	entered chan<- struct{}
	resume  <-chan struct{}
}

func runWritersVsHeldReaders(r *Run) {
	limit := 3 * time.Second
	for _, hr := range heldReads() {
		for _, hw := range heldWrites() {
			if r.tooManyViolations() {
				return
			}
			detail := func() map[string]any {
				return map[string]any{"family": "held-readers", "read": hr.name, "write": hw.name}
			}
			r.guard("writer against a held read", detail, func() {
				rt, err := fox.New(fox.WithIgnoreTrailingSlash(true))
				if err != nil {
					failTool("fox.New: %v", err)
				}
				park := func(c fox.Context) {
					if pp, ok := c.Request().Context().Value(parkKey{}).(parkPoint); ok {
						close(pp.entered)
						<-pp.resume
					}
				}
				for _, rte := range []struct{ m, p string }{{http.MethodGet, "/held/{x}"}, {http.MethodGet, "/held/a/b"}, {"FOO", "/foo"}} {
					if _, err := rt.Handle(rte.m, rte.p, routeHandler(rte.p)); err != nil {
						failTool("setup: %v", err)
					}
				}
				if _, err := rt.Handle(http.MethodGet, "/park/{id}", park); err != nil {
					failTool("setup: %v", err)
				}
				release := hr.hold(rt)
				var werr error
				returned := make(chan struct{})
				go func() {
					defer close(returned)
					defer func() {
						if p := recover(); p != nil {
							werr = fmt.Errorf("panic: %v", p)
						}
					}()
					werr = hw.run(rt)
				}()
				select {
				case <-returned:
					r.addCov("writes_against_held_reads", 1)
					release()
					if werr != nil {
						d := detail()
						d["prescribed"] = "the write succeeds"
						d["obtained"] = werr.Error()
						r.violation(fmt.Sprintf("held read=%s write=%s: the write failed", hr.name, hw.name), d)
					}
				case <-time.After(limit):
					release() // lets the writer finish if it was waiting for the reader
					late := false
					select {
					case <-returned:
						late = true
					case <-time.After(limit):
					}
					d := detail()
					d["prescribed"] = "the write returns while the read is still in flight (writers wait only for other writers)"
					d["obtained"] = fmt.Sprintf("not returned after %v; returned once the read was released: %v", limit, late)
					r.violation(fmt.Sprintf("held read=%s write=%s: the writer waits for the reader", hr.name, hw.name), d)
				}
			})
		}
	}
}

// The converse, with a routing tree deeper than any internal threshold: a write transaction held open in every state
// it can be parked in by its caller - just opened, with uncommitted writes, half way through its own iteration
// (Txn.Iter), inside an Updates callback, with a snapshot taken - while every read entry point must complete.

type heldWrite2 struct {
	name string
	hold func(rt *fox.Router) (release func())
}

func heldWriters() []heldWrite2 {
	h := routeHandler("held")
	inTxn := func(f func(txn *fox.Txn) func()) func(rt *fox.Router) func() {
		return func(rt *fox.Router) func() {
			txn := rt.Txn(true)
			after := f(txn)
			return func() {
				if after != nil {
					after()
				}
				txn.Abort()
			}
		}
	}
	halfIter := func(txn *fox.Txn, prefix bool) func() {
		seq := txn.Iter().All()
		if prefix {
			seq = txn.Iter().Prefix(txn.Iter().Methods(), "/deep")
		}
		next, stop := iter.Pull2(seq)
		next()
		next()
		return func() {
			for {
				if _, _, ok := next(); !ok {
					break
				}
			}
			stop()
		}
	}
	parkedUpdates := func(inside func(txn *fox.Txn) func()) func(rt *fox.Router) func() {
		return func(rt *fox.Router) func() {
			entered, resume, done := make(chan struct{}), make(chan struct{}), make(chan struct{})
			go func() {
				defer close(done)
				_ = rt.Updates(func(txn *fox.Txn) error {
					var after func()
					if inside != nil {
						after = inside(txn)
					}
					close(entered)
					<-resume
					if after != nil {
						after()
					}
					return errSentinel // nothing is published
				})
			}()
			<-entered
			return func() { close(resume); <-done }
		}
	}
	return []heldWrite2{
		{"Txn(true) just opened", inTxn(func(txn *fox.Txn) func() { return nil })},
		{"Txn(true) with uncommitted writes", inTxn(func(txn *fox.Txn) func() {
			txn.Handle(http.MethodGet, "/new", h)
			txn.Delete(http.MethodGet, "/held/a/b")
			return nil
		})},
		{"Txn(true) half way through its own Iter.All", inTxn(func(txn *fox.Txn) func() { return halfIter(txn, false) })},
		{"Txn(true) half way through its own Iter.Prefix", inTxn(func(txn *fox.Txn) func() { return halfIter(txn, true) })},
		{"Txn(true) with a Snapshot taken and written again", inTxn(func(txn *fox.Txn) func() {
			txn.Handle(http.MethodGet, "/new", h)
			sn := txn.Snapshot()
			txn.Handle(http.MethodGet, "/new2", h)
			return func() { _ = sn.Len() }
		})},
		{"Txn(true) after Truncate of everything", inTxn(func(txn *fox.Txn) func() { txn.Truncate(); return nil })},
		{"Txn(true) after Truncate of one method", inTxn(func(txn *fox.Txn) func() { txn.Truncate(http.MethodGet); return nil })},
		{"Txn(true) after an Update and a refused write", inTxn(func(txn *fox.Txn) func() {
			txn.Update(http.MethodGet, "/held/a/b", h)
			txn.Handle(http.MethodGet, "/held/{y}", h) // conflicts
			txn.Delete(http.MethodGet, "/nowhere")
			return nil
		})},
		{"Updates callback after Truncate of everything", parkedUpdates(func(txn *fox.Txn) func() { txn.Truncate(); return nil })},
		{"Updates callback running", parkedUpdates(nil)},
		{"Updates callback half way through Iter.All", parkedUpdates(func(txn *fox.Txn) func() { return halfIter(txn, false) })},
	}
}

type heldRead2 struct {
	name string
	run  func(rt *fox.Router)
}

// readers that pinned a version of the tree which a later commit has retired (set up before the writer is held)
type retiredHandles struct {
	ro *fox.Txn
	it fox.Iter
}

var retiredByRouter sync.Map // *fox.Router -> *retiredHandles

func heldReaders() []heldRead2 {
	serve := func(m, p string) func(rt *fox.Router) {
		return func(rt *fox.Router) {
			req := httptest.NewRequest(m, p, nil)
			rt.ServeHTTP(httptest.NewRecorder(), req)
		}
	}
	all := func(it fox.Iter) {
		for range it.All() {
		}
		for range it.Prefix(it.Methods(), "/deep") {
		}
		for range it.Reverse(it.Methods(), "", "/held/a") {
		}
	}
	return []heldRead2{
		{"ServeHTTP (route)", serve(http.MethodGet, "/held/a")},
		{"ServeHTTP (deep route)", serve(http.MethodGet, deepPath(30))},
		{"ServeHTTP (404)", serve(http.MethodGet, "/nope")},
		{"ServeHTTP (405)", serve(http.MethodPost, "/held/a")},
		{"ServeHTTP (OPTIONS)", serve(http.MethodOptions, "/held/a")},
		{"ServeHTTP (ignored trailing slash)", serve(http.MethodGet, "/held/a/")},
		{"Router.Lookup", func(rt *fox.Router) {
			if _, cc, _ := rt.Lookup(nil, httptest.NewRequest(http.MethodGet, "/held/a", nil)); cc != nil {
				cc.Close()
			}
		}},
		{"Router.Reverse / Has / Route / Len / Stats", func(rt *fox.Router) {
			rt.Reverse(http.MethodGet, "", "/held/a")
			rt.Has(http.MethodGet, "/held/{x}")
			rt.Route(http.MethodGet, "/held/{x}")
			rt.Len()
			rt.Stats()
		}},
		{"Router.Iter All / Prefix / Reverse", func(rt *fox.Router) { all(rt.Iter()) }},
		{"read-only Txn: reads, Iter, Snapshot", func(rt *fox.Router) {
			tx := rt.Txn(false)
			defer tx.Abort()
			tx.Has(http.MethodGet, "/held/{x}")
			tx.Reverse(http.MethodGet, "", "/held/a")
			all(tx.Iter())
			if sn := tx.Snapshot(); sn != nil {
				all(sn.Iter())
			}
		}},
		{"read-only Txn opened before the last commit: Reverse, Lookup", func(rt *fox.Router) {
			v, ok := retiredByRouter.Load(rt)
			if !ok {
				return
			}
			h := v.(*retiredHandles)
			h.ro.Reverse(http.MethodGet, "", "/held/a")
			h.ro.Reverse(http.MethodGet, "", deepPath(30))
			if _, cc, _ := h.ro.Lookup(nil, httptest.NewRequest(http.MethodGet, "/held/a", nil)); cc != nil {
				cc.Close()
			}
		}},
		{"Iter created before the last commit: Reverse, All", func(rt *fox.Router) {
			v, ok := retiredByRouter.Load(rt)
			if !ok {
				return
			}
			all(v.(*retiredHandles).it)
		}},
		{"View: reads, Iter, Snapshot", func(rt *fox.Router) {
			_ = rt.View(func(tx *fox.Txn) error {
				tx.Len()
				all(tx.Iter())
				if sn := tx.Snapshot(); sn != nil {
					sn.Len()
				}
				return nil
			})
		}},
	}
}

func deepPath(n int) string {
	var sb strings.Builder
	sb.WriteString("/deep")
	for i := 0; i < n; i++ {
		sb.WriteString("/" + string(rune('a'+i%26)))
	}
	return sb.String()
}

func runReadersVsHeldWriters(r *Run) {
	limit := 3 * time.Second
	for _, hw := range heldWriters() {
		for _, hr := range heldReaders() {
			if r.tooManyViolations() {
				return
			}
			detail := func() map[string]any {
				return map[string]any{"family": "held-writers", "write": hw.name, "read": hr.name}
			}
			r.guard("reader against a held writer", detail, func() {
				rt, err := fox.New(fox.WithIgnoreTrailingSlash(true), fox.WithNoMethod(true), fox.WithAutoOptions(true))
				if err != nil {
					failTool("fox.New: %v", err)
				}
				for _, p := range []string{"/held/{x}", "/held/a/b"} {
					rt.MustHandle(http.MethodGet, p, routeHandler(p))
				}
				// a chain of routes, each one level below the previous: the tree gets one node per level
				for i := 1; i <= 30; i++ {
					rt.MustHandle(http.MethodGet, deepPath(i), routeHandler("deep"))
				}
				// two readers pin the current version, then a commit retires it (its context pool has never been used)
				rh := &retiredHandles{ro: rt.Txn(false), it: rt.Iter()}
				rt.MustHandle(http.MethodGet, "/held/later", routeHandler("later"))
				retiredByRouter.Store(rt, rh)
				defer retiredByRouter.Delete(rt)
				defer rh.ro.Abort()
				release := hw.hold(rt)
				done := make(chan struct{})
				go func() {
					defer close(done)
					defer func() { recover() }()
					hr.run(rt)
				}()
				select {
				case <-done:
					r.addCov("reads_against_held_writes", 1)
					release()
				case <-time.After(limit):
					release()
					late := false
					select {
					case <-done:
						late = true
					case <-time.After(limit):
					}
					d := detail()
					d["prescribed"] = "the read completes while the write transaction is held open"
					d["obtained"] = fmt.Sprintf("not completed after %v; completed once the writer was released: %v", limit, late)
					r.violation(fmt.Sprintf("held write=%s read=%s: the reader waits for the writer", hw.name, hr.name), d)
				}
			})
		}
	}
}

// C04: "after any of these endings the router accepts new write transactions". The one-call writes are transactions
// of one operation, and user code runs inside them while the writer lock is held (middleware constructors are called
// at registration). A panic there must end the transaction like any other ending: nothing published, the lock
// released.
func runPanicInsideWrites(r *Run) {
	boom := fox.WithMiddleware(func(next fox.HandlerFunc) fox.HandlerFunc { panic("constructor gives up") })
	h := routeHandler("p")
	writes := []struct {
		name string
		run  func(rt *fox.Router)
	}{
		{"Router.Handle", func(rt *fox.Router) { rt.Handle(http.MethodGet, "/new", h, boom) }},
		{"Router.Update", func(rt *fox.Router) { rt.Update(http.MethodGet, "/old", h, boom) }},
		{"Router.MustHandle", func(rt *fox.Router) { rt.MustHandle(http.MethodGet, "/new", h, boom) }},
		{"Updates: Handle", func(rt *fox.Router) {
			rt.Updates(func(txn *fox.Txn) error { _, err := txn.Handle(http.MethodGet, "/new", h, boom); return err })
		}},
		{"Updates: a write, then Update", func(rt *fox.Router) {
			rt.Updates(func(txn *fox.Txn) error {
				txn.Handle(http.MethodGet, "/new2", h)
				_, err := txn.Update(http.MethodGet, "/old", h, boom)
				return err
			})
		}},
		{"Updates: Truncate, then Handle", func(rt *fox.Router) {
			rt.Updates(func(txn *fox.Txn) error {
				txn.Truncate()
				_, err := txn.Handle(http.MethodGet, "/new", h, boom)
				return err
			})
		}},
	}
	for _, w := range writes {
		detail := func() map[string]any { return map[string]any{"family": "panic-inside-write", "write": w.name} }
		r.guard("panic inside a write", detail, func() {
			rt, err := fox.New()
			if err != nil {
				failTool("fox.New: %v", err)
			}
			rt.MustHandle(http.MethodGet, "/old", routeHandler("old"))
			rt.MustHandle("FOO", "/foo", routeHandler("foo"))
			panicked := false
			func() {
				defer func() {
					if recover() != nil {
						panicked = true
					}
				}()
				w.run(rt)
			}()
			r.addCov("writes_ended_by_a_panic", 1)
			var problem []string
			if !panicked {
				problem = append(problem, "the panic of the user's code was swallowed")
			}
			if rt.Len() != 2 || !rt.Has(http.MethodGet, "/old") || !rt.Has("FOO", "/foo") || rt.Has(http.MethodGet, "/new") || rt.Has(http.MethodGet, "/new2") {
				problem = append(problem, fmt.Sprintf("the interrupted write left something behind: Len=%d", rt.Len()))
			}
			done := make(chan error, 1)
			go func() { _, err := rt.Handle(http.MethodGet, "/after", h); done <- err }()
			select {
			case err := <-done:
				if err != nil {
					problem = append(problem, "a later write fails: "+err.Error())
				}
			case <-time.After(3 * time.Second):
				problem = append(problem, "a later write never returns: the writer lock is still held")
			}
			if len(problem) > 0 {
				d := detail()
				d["prescribed"] = "the panic propagates, nothing is published, the router accepts new write transactions"
				d["obtained"] = problem
				r.violation(fmt.Sprintf("write=%s interrupted by a panic of user code: %s", w.name, problem[0]), d)
			}
		})
	}
}

// C04 / C06: however a write transaction ends - committed with or without writes, given up, a managed one returning
// nil or an error, with or without writes, its goroutine leaving through runtime.Goexit in the middle - nothing of an
// unfinished one is published and the next writer gets the lock: writers wait only for writers that are still there.
func runWriterAfterEndings(r *Run) {
	h := routeHandler("e")
	type ending struct {
		name      string
		run       func(rt *fox.Router)
		published []string // of /e1, /e2: what must be visible afterwards
	}
	endings := []ending{
		{"Txn(true), Commit at once", func(rt *fox.Router) { rt.Txn(true).Commit() }, nil},
		{"Txn(true), Abort at once", func(rt *fox.Router) { rt.Txn(true).Abort() }, nil},
		{"Txn(true), reads only, Commit", func(rt *fox.Router) {
			txn := rt.Txn(true)
			txn.Has(http.MethodGet, "/old")
			for range txn.Iter().All() {
			}
			txn.Commit()
		}, nil},
		{"Txn(true), a refused write, Commit", func(rt *fox.Router) {
			txn := rt.Txn(true)
			txn.Handle(http.MethodGet, "/old", h)
			txn.Commit()
		}, nil},
		{"Txn(true), writes, Commit, Abort", func(rt *fox.Router) {
			txn := rt.Txn(true)
			txn.Handle(http.MethodGet, "/e1", h)
			txn.Commit()
			txn.Abort()
		}, []string{"/e1"}},
		{"Txn(true), a write undone, Commit", func(rt *fox.Router) {
			txn := rt.Txn(true)
			txn.Handle(http.MethodGet, "/e1", h)
			txn.Delete(http.MethodGet, "/e1")
			txn.Commit()
		}, nil},
		{"Updates returning nil without a write", func(rt *fox.Router) { rt.Updates(func(txn *fox.Txn) error { return nil }) }, nil},
		{"Updates: register unless present", func(rt *fox.Router) {
			rt.Updates(func(txn *fox.Txn) error {
				if !txn.Has(http.MethodGet, "/old") {
					txn.Handle(http.MethodGet, "/old", h)
				}
				return nil
			})
		}, nil},
		{"Updates returning an error after writes", func(rt *fox.Router) {
			rt.Updates(func(txn *fox.Txn) error { txn.Handle(http.MethodGet, "/e1", h); return errSentinel })
		}, nil},
		{"Updates with writes", func(rt *fox.Router) {
			rt.Updates(func(txn *fox.Txn) error {
				txn.Handle(http.MethodGet, "/e1", h)
				txn.Handle(http.MethodGet, "/e2", h)
				return nil
			})
		}, []string{"/e1", "/e2"}},
		{"View", func(rt *fox.Router) {
			rt.View(func(txn *fox.Txn) error { txn.Has(http.MethodGet, "/old"); return nil })
		}, nil},
		{"Updates left through runtime.Goexit between two writes", func(rt *fox.Router) {
			done := make(chan struct{})
			go func() {
				defer close(done)
				rt.Updates(func(txn *fox.Txn) error {
					txn.Handle(http.MethodGet, "/e1", h)
					runtime.Goexit()
					txn.Handle(http.MethodGet, "/e2", h)
					return nil
				})
			}()
			<-done
		}, nil},
		{"View left through runtime.Goexit", func(rt *fox.Router) {
			done := make(chan struct{})
			go func() {
				defer close(done)
				rt.View(func(txn *fox.Txn) error { runtime.Goexit(); return nil })
			}()
			<-done
		}, nil},
	}
	for _, e := range endings {
		detail := func() map[string]any { return map[string]any{"family": "writer-after-endings", "ending": e.name} }
		r.guard("a writer after a transaction has ended", detail, func() {
			rt, err := fox.New()
			if err != nil {
				failTool("fox.New: %v", err)
			}
			rt.MustHandle(http.MethodGet, "/old", routeHandler("old"))
			ended := make(chan struct{})
			go func() {
				defer close(ended)
				defer func() { recover() }()
				e.run(rt)
			}()
			var problem []string
			select {
			case <-ended:
			case <-time.After(3 * time.Second):
				problem = append(problem, "the transaction itself never ends")
			}
			r.addCov("transaction_endings", 1)
			if len(problem) == 0 {
				for _, p := range []string{"/e1", "/e2"} {
					if want := slices.Contains(e.published, p); rt.Has(http.MethodGet, p) != want {
						problem = append(problem, fmt.Sprintf("%s visible afterwards: %v, want %v", p, !want, want))
					}
				}
				if want := 1 + len(e.published); rt.Len() != want {
					problem = append(problem, fmt.Sprintf("Len=%d afterwards, want %d", rt.Len(), want))
				}
				done := make(chan error, 1)
				go func() { _, err := rt.Handle(http.MethodGet, "/after", h); done <- err }()
				select {
				case err := <-done:
					if err != nil {
						problem = append(problem, "a later write fails: "+err.Error())
					}
				case <-time.After(3 * time.Second):
					problem = append(problem, "a later writer never gets the lock although no write transaction is open")
				}
			}
			if len(problem) > 0 {
				d := detail()
				d["prescribed"] = map[string]any{"published": e.published, "then": "the next writer proceeds"}
				d["obtained"] = problem
				r.violation(fmt.Sprintf("ending=%s: %s", e.name, problem[0]), d)
			}
		})
	}
}

// C04: a Txn.Snapshot of a write transaction is a read-only view: writes through it are refused with ErrReadOnlyTxn,
// Commit and Abort on it do nothing (in particular they neither publish the parent's writes nor release its lock).
func runSnapshotIsReadOnly(r *Run) {
	detail := func() map[string]any { return map[string]any{"family": "snapshot-read-only"} }
	r.guard("snapshot of a write transaction", detail, func() {
		rt, err := fox.New()
		if err != nil {
			failTool("fox.New: %v", err)
		}
		h := routeHandler("s")
		rt.MustHandle(http.MethodGet, "/old", h)
		txn := rt.Txn(true)
		txn.Handle(http.MethodGet, "/new", h)
		sn := txn.Snapshot()
		var problem []string
		if _, err := sn.Handle(http.MethodGet, "/viasnap", h); !errors.Is(err, fox.ErrReadOnlyTxn) {
			problem = append(problem, fmt.Sprintf("Handle through the snapshot: %v", err))
		}
		if _, err := sn.Update(http.MethodGet, "/old", h); !errors.Is(err, fox.ErrReadOnlyTxn) {
			problem = append(problem, fmt.Sprintf("Update through the snapshot: %v", err))
		}
		if _, err := sn.Delete(http.MethodGet, "/old"); !errors.Is(err, fox.ErrReadOnlyTxn) {
			problem = append(problem, fmt.Sprintf("Delete through the snapshot: %v", err))
		}
		if err := sn.Truncate(); !errors.Is(err, fox.ErrReadOnlyTxn) {
			problem = append(problem, fmt.Sprintf("Truncate through the snapshot: %v", err))
		}
		sn.Commit()
		if rt.Has(http.MethodGet, "/new") || rt.Len() != 1 {
			problem = append(problem, "Commit on the snapshot published the parent's uncommitted writes")
		}
		sn.Abort()
		// the parent still holds the writer lock: another writer must wait until it ends
		got := make(chan struct{})
		go func() { rt.Handle(http.MethodGet, "/other", h); close(got) }()
		select {
		case <-got:
			// the parent transaction must not be ended now: unlocking the mutex a second time is a fatal error of the
			// Go runtime, which no harness can turn into a verdict
			d := detail()
			d["prescribed"] = "Commit and Abort on a snapshot do nothing"
			d["obtained"] = append(problem, "Commit / Abort on the snapshot released the writer lock of the open parent transaction")
			r.violation("snapshot of a write transaction: Commit / Abort on it released the writer lock of the open parent", d)
			return
		case <-time.After(300 * time.Millisecond):
		}
		if !txn.Has(http.MethodGet, "/new") || txn.Has(http.MethodGet, "/viasnap") || txn.Len() != 2 {
			problem = append(problem, "the parent transaction lost or gained routes")
		}
		txn.Commit()
		<-got
		if !rt.Has(http.MethodGet, "/new") || !rt.Has(http.MethodGet, "/other") || rt.Len() != 3 {
			problem = append(problem, fmt.Sprintf("after the parent's Commit: Len=%d", rt.Len()))
		}
		r.addCov("snapshot_read_only_checks", 1)
		if len(problem) > 0 {
			d := detail()
			d["prescribed"] = "ErrReadOnlyTxn for writes; Commit and Abort without effect"
			d["obtained"] = problem
			r.violation("snapshot of a write transaction: "+problem[0], d)
		}
	})
}
