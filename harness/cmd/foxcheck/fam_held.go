package main

import (
	"context"
	"errors"
	"fmt"
	"iter"
	"net/http"
	"net/http/httptest"
	"time"

	"github.com/tigerwill90/fox"
)

// C06, second sentence ("writers wait only for other writers"), replayed from FoxConc's WritersWaitOnlyForWriters:
// in every state in which a reader is between its load and its return - a Lookup context not closed yet, an iterator
// half consumed, a read-only transaction open, a View callback or a request handler still running - every writer
// step is enabled. Each kind of held read is combined with each write entry point; the write must return while the
// read is still held.

type heldRead struct {
	name string
	// hold starts the read and returns when it is in flight; release lets it finish and waits for it
	hold func(rt *fox.Router) (release func())
}

func heldReads() []heldRead {
	parked := func(run func(rt *fox.Router, entered chan<- struct{}, resume <-chan struct{})) func(rt *fox.Router) func() {
		return func(rt *fox.Router) func() {
			entered, resume, done := make(chan struct{}), make(chan struct{}), make(chan struct{})
			go func() {
				defer close(done)
				run(rt, entered, resume)
			}()
			<-entered
			return func() { close(resume); <-done }
		}
	}
	return []heldRead{
		{"Router.Lookup context not closed", func(rt *fox.Router) func() {
			req := httptest.NewRequest(http.MethodGet, "/held/a", nil)
			_, cc, _ := rt.Lookup(nil, req)
			return func() {
				if cc != nil {
					_ = cc.Param("x")
					cc.Close()
				}
			}
		}},
		{"Router.Lookup with trailing slash, context not closed", func(rt *fox.Router) func() {
			req := httptest.NewRequest(http.MethodGet, "/held/a/", nil)
			_, cc, _ := rt.Lookup(nil, req)
			return func() {
				if cc != nil {
					cc.Close()
				}
			}
		}},
		{"Router.Iter half consumed", func(rt *fox.Router) func() {
			next, stop := iter.Pull2(rt.Iter().All())
			next()
			return func() {
				for {
					if _, _, ok := next(); !ok {
						break
					}
				}
				stop()
			}
		}},
		{"read-only Txn open", func(rt *fox.Router) func() {
			tx := rt.Txn(false)
			_ = tx.Has(http.MethodGet, "/held/{x}")
			return func() { _ = tx.Len(); tx.Abort() }
		}},
		{"read-only Txn with a Lookup context not closed", func(rt *fox.Router) func() {
			tx := rt.Txn(false)
			req := httptest.NewRequest(http.MethodGet, "/held/a", nil)
			_, cc, _ := tx.Lookup(nil, req)
			return func() {
				if cc != nil {
					cc.Close()
				}
				tx.Abort()
			}
		}},
		{"View callback running", parked(func(rt *fox.Router, entered chan<- struct{}, resume <-chan struct{}) {
			_ = rt.View(func(txn *fox.Txn) error {
				_ = txn.Len()
				close(entered)
				<-resume
				_ = txn.Has(http.MethodGet, "/held/{x}")
				return nil
			})
		})},
		{"request handler running", parked(func(rt *fox.Router, entered chan<- struct{}, resume <-chan struct{}) {
			w := httptest.NewRecorder()
			req := httptest.NewRequest(http.MethodGet, "/park/1", nil)
			req = req.WithContext(withPark(req.Context(), entered, resume))
			rt.ServeHTTP(w, req)
		})},
		{"request handler running (ignored trailing slash)", parked(func(rt *fox.Router, entered chan<- struct{}, resume <-chan struct{}) {
			w := httptest.NewRecorder()
			req := httptest.NewRequest(http.MethodGet, "/park/1/", nil)
			req = req.WithContext(withPark(req.Context(), entered, resume))
			rt.ServeHTTP(w, req)
		})},
	}
}

type heldWrite struct {
	name string
	run  func(rt *fox.Router) error
}

func heldWrites() []heldWrite {
	h := routeHandler("held")
	return []heldWrite{
		{"Router.Handle", func(rt *fox.Router) error { _, err := rt.Handle(http.MethodGet, "/new", h); return err }},
		{"Router.Update", func(rt *fox.Router) error { _, err := rt.Update(http.MethodGet, "/held/{x}", h); return err }},
		{"Router.Delete", func(rt *fox.Router) error { _, err := rt.Delete(http.MethodGet, "/held/{x}"); return err }},
		{"Router.Delete of the last route of a method", func(rt *fox.Router) error { _, err := rt.Delete("FOO", "/foo"); return err }},
		{"Txn(true) two writes and Commit", func(rt *fox.Router) error {
			tx := rt.Txn(true)
			defer tx.Abort()
			if _, err := tx.Handle(http.MethodGet, "/new", h); err != nil {
				return err
			}
			if _, err := tx.Delete(http.MethodGet, "/held/{x}"); err != nil {
				return err
			}
			tx.Commit()
			return nil
		}},
		{"Txn(true) Truncate and Commit", func(rt *fox.Router) error {
			tx := rt.Txn(true)
			defer tx.Abort()
			if err := tx.Truncate(); err != nil {
				return err
			}
			tx.Commit()
			return nil
		}},
		{"Txn(true) and Abort", func(rt *fox.Router) error {
			tx := rt.Txn(true)
			_, err := tx.Handle(http.MethodGet, "/new", h)
			tx.Abort()
			return err
		}},
		{"Updates", func(rt *fox.Router) error {
			return rt.Updates(func(txn *fox.Txn) error {
				_, err := txn.Handle(http.MethodGet, "/new", h)
				return err
			})
		}},
		{"Updates returning an error", func(rt *fox.Router) error {
			err := rt.Updates(func(txn *fox.Txn) error {
				if _, err := txn.Handle(http.MethodGet, "/new", h); err != nil {
					return err
				}
				return errSentinel
			})
			if errors.Is(err, errSentinel) {
				return nil
			}
			return fmt.Errorf("Updates returned %v", err)
		}},
	}
}

func withPark(ctx context.Context, entered chan<- struct{}, resume <-chan struct{}) context.Context {
	return context.WithValue(ctx, parkKey{}, parkPoint{entered, resume})
}

type parkKey struct{}
type parkPoint struct {
	entered chan<- struct{}
	resume  <-chan struct{}
}

func runWritersVsHeldReaders(r *Run) {
	limit := 3 * time.Second
	for _, hr := range heldReads() {
		for _, hw := range heldWrites() {
			if r.tooManyViolations() {
				return
			}
			detail := func() map[string]any {
				return map[string]any{"family": "held-readers", "read": hr.name, "write": hw.name}
			}
			r.guard("writer against a held read", detail, func() {
				rt, err := fox.New(fox.WithIgnoreTrailingSlash(true))
				if err != nil {
					failTool("fox.New: %v", err)
				}
				park := func(c fox.Context) {
					if pp, ok := c.Request().Context().Value(parkKey{}).(parkPoint); ok {
						close(pp.entered)
						<-pp.resume
					}
				}
				for _, rte := range []struct{ m, p string }{{http.MethodGet, "/held/{x}"}, {http.MethodGet, "/held/a/b"}, {"FOO", "/foo"}} {
					if _, err := rt.Handle(rte.m, rte.p, routeHandler(rte.p)); err != nil {
						failTool("setup: %v", err)
					}
				}
				if _, err := rt.Handle(http.MethodGet, "/park/{id}", park); err != nil {
					failTool("setup: %v", err)
				}
				release := hr.hold(rt)
				var werr error
				returned := make(chan struct{})
				go func() {
					defer close(returned)
					defer func() {
						if p := recover(); p != nil {
							werr = fmt.Errorf("panic: %v", p)
						}
					}()
					werr = hw.run(rt)
				}()
				select {
				case <-returned:
					r.addCov("writes_against_held_reads", 1)
					release()
					if werr != nil {
						d := detail()
						d["prescribed"] = "the write succeeds"
						d["obtained"] = werr.Error()
						r.violation(fmt.Sprintf("held read=%s write=%s: the write failed", hr.name, hw.name), d)
					}
				case <-time.After(limit):
					release() // lets the writer finish if it was waiting for the reader
					late := false
					select {
					case <-returned:
						late = true
					case <-time.After(limit):
					}
					d := detail()
					d["prescribed"] = "the write returns while the read is still in flight (writers wait only for other writers)"
					d["obtained"] = fmt.Sprintf("not returned after %v; returned once the read was released: %v", limit, late)
					r.violation(fmt.Sprintf("held read=%s write=%s: the writer waits for the reader", hr.name, hw.name), d)
				}
			})
		}
	}
}
