package main

import (
	"context"
	"os"
	"os/exec"
	"path/filepath"
	"regexp"
	"strconv"
	"strings"
	"time"
)

// FoxProto is FoxConc reduced to lock, version counter and loaded version. Its invariant is proved inductive with
// TLAPS for any set of writers and any number of versions (FoxProto_proofs), checked by Apalache for three writers
// and unbounded versions (thorough tier), and MC_Conc checks with TLC that FoxConc refines it (RefinesProto).
// These are statements about the specification; a failure is a tool failure, never a verdict about fox.

var reObligations = regexp.MustCompile(`All (\d+) obligations? proved`)

func specScratch(r *Run, tag string) string {
	wd := filepath.Join(r.Scratch, tag)
	os.RemoveAll(wd)
	if err := os.MkdirAll(wd, 0o755); err != nil {
		failTool("mkdir: %v", err)
	}
	ents, err := os.ReadDir(specDir())
	if err != nil {
		failTool("spec dir: %v", err)
	}
	for _, e := range ents {
		if n := e.Name(); strings.HasSuffix(n, ".tla") || strings.HasSuffix(n, ".cfg") {
			b, _ := os.ReadFile(filepath.Join(specDir(), n))
			os.WriteFile(filepath.Join(wd, n), b, 0o644)
		}
	}
	return wd
}

func runTool(wd string, timeout time.Duration, name string, args ...string) (string, int) {
	ctx, cancel := context.WithTimeout(context.Background(), timeout)
	defer cancel()
	cmd := exec.CommandContext(ctx, name, args...)
	cmd.Dir = wd
	cmd.WaitDelay = 5 * time.Second
	out, err := cmd.CombinedOutput()
	if ctx.Err() != nil {
		failTool("%s timed out after %v", name, timeout)
	}
	code := 0
	if err != nil {
		if ee, ok := err.(*exec.ExitError); ok {
			code = ee.ExitCode()
		} else {
			failTool("cannot run %s: %v", name, err)
		}
	}
	return string(out), code
}

func runProtoProofs(r *Run) {
	wd := specScratch(r, "proto")
	out, code := runTool(wd, 15*time.Minute, "tlapm", "--threads", "16", "FoxProto_proofs.tla")
	m := reObligations.FindStringSubmatch(out)
	if code != 0 || m == nil {
		failTool("tlapm did not prove FoxProto_proofs (exit %d):\n%s", code, tail(out, 20))
	}
	n, _ := strconv.ParseInt(m[1], 10, 64)
	r.addCov("tlaps_obligations_proved", n)
	if r.quick() {
		return
	}
	for _, a := range [][]string{
		{"--init=Init", "--inv=IndInv", "--length=0"},    // the initial states satisfy the invariant
		{"--init=IndInit", "--inv=IndInv", "--length=1"}, // every step preserves it
		{"--init=IndInit", "--inv=Safety", "--length=0"}, // it implies the safety properties
	} {
		args := append([]string{"check", "--cinit=ConstInit"}, a...)
		args = append(args, "--out-dir="+filepath.Join(wd, "apalache-out"), "MC_Proto.tla")
		out, code := runTool(wd, 15*time.Minute, "apalache-mc", args...)
		if code != 0 || !strings.Contains(out, "EXITCODE: OK") {
			failTool("apalache %v failed (exit %d):\n%s", a, code, tail(out, 15))
		}
		r.addCov("apalache_inductive_checks_passed", 1)
	}
}
