package main

import (
	"fmt"
	"math/rand"
	"sort"
	"strings"

	"github.com/tigerwill90/fox"
)

// Nodes wider than any small-node shortcut of the implementation. FoxRadix has no notion of node width: its
// Canonicity theorem (the tree, hence routing, is a function of the registered set) and the result classes of
// Insert / Update / Remove hold for any number of children. The exhaustive replay of MC_Radix only reaches nodes of a
// few children; this family replays the same two statements on random histories over one node with more than sixty
// static children, a parameter child and a catch-all child, with routes below the wildcards:
//   - every call returns the class the set semantics prescribes (the pool is conflict-free), and
//   - the router reached by the history routes every probe like a fresh router filled with the same set in sorted order.
func runWideNodes(r *Run) {
	rng := rand.New(rand.NewSource(r.Seed + 7077))
	var statics []string
	for c := 0x21; c < 0x7f; c++ {
		if strings.ContainsRune("/{}*%?#", rune(c)) {
			continue
		}
		statics = append(statics, fmt.Sprintf("/w/%cs", c))
	}
	statics = append(statics, "/w/és", "/w/üs")
	wild := []string{"/w/*{a}", "/w/*{a}/x", "/w/{p}", "/w/{p}/y", "/w/{p}/y/z", "/w/*{a}/x/{q}"}
	probes := [][2]string{{"", "/w/-/foo"}, {"", "/w/q/y"}, {"", "/w/q/y/z"}, {"", "/w/q"}, {"", "/w/a/b/x"}, {"", "/w/a/b/x/7"}, {"", "/w/~s"}, {"", "/w/!s"}, {"", "/w/zs"},
		{"", "/w/|s"}, {"", "/w/és"}, {"", "/w/zs/x"}, {"", "/w/zz"}, {"", "/w/"}, {"", "/w/q/"}}
	for _, s := range statics {
		if rng.Intn(6) == 0 {
			probes = append(probes, [2]string{"", s})
		}
	}
	h := routeHandler("w")
	class := func(err error) string { return errClass(err) }
	for round := 0; round < pick(r, 12, 120); round++ {
		if r.tooManyViolations() {
			return
		}
		detail := func() map[string]any { return map[string]any{"family": "wide-nodes", "round": round} }
		r.guard("wide node history", detail, func() {
			rt, err := fox.New()
			if err != nil {
				failTool("fox.New: %v", err)
			}
			set := map[string]bool{}
			var hist []string
			do := func(op, p string) bool {
				var err error
				want := "ok"
				switch op {
				case "Insert":
					if set[p] {
						want = "exist"
					}
					_, err = rt.Handle("GET", p, h)
					if want == "ok" {
						set[p] = true
					}
				case "Update":
					if !set[p] {
						want = "notfound"
					}
					_, err = rt.Update("GET", p, h)
				case "Remove":
					if !set[p] {
						want = "notfound"
					}
					_, err = rt.Delete("GET", p)
					delete(set, p)
				}
				hist = append(hist, op+" "+p)
				r.addCov("wide_node_calls", 1)
				if got := class(err); got != want {
					d := detail()
					d["history_tail"], d["prescribed"], d["obtained"] = lastN(hist, 12), want, got
					r.violation(fmt.Sprintf("wide node: %s %s returns %s, the registered set prescribes %s", op, p, got, want), d)
					return false
				}
				if has := rt.Has("GET", p); has != set[p] {
					d := detail()
					d["history_tail"], d["prescribed"], d["obtained"] = lastN(hist, 12), set[p], has
					r.violation(fmt.Sprintf("wide node: Has(%s) after %s", p, op), d)
					return false
				}
				return true
			}
			// three kinds of history: the wildcards first, the wildcards last, everything shuffled; then churn
			first := append([]string(nil), statics...)
			rng.Shuffle(len(first), func(i, j int) { first[i], first[j] = first[j], first[i] })
			ws := append([]string(nil), wild...)
			rng.Shuffle(len(ws), func(i, j int) { ws[i], ws[j] = ws[j], ws[i] })
			var order []string
			switch round % 3 {
			case 0:
				order = append(ws, first...)
			case 1:
				order = append(first, ws...)
			default:
				order = append(first, ws...)
				rng.Shuffle(len(order), func(i, j int) { order[i], order[j] = order[j], order[i] })
			}
			for _, p := range order {
				if !do("Insert", p) {
					return
				}
			}
			all := append(append([]string(nil), statics...), wild...)
			for k := 0; k < 40; k++ {
				p := all[rng.Intn(len(all))]
				if rng.Intn(3) > 0 {
					p = wild[rng.Intn(len(wild))]
				}
				if !do([]string{"Insert", "Update", "Remove", "Update"}[rng.Intn(4)], p) {
					return
				}
			}
			// the oracle of C07: a fresh router holding the same set, filled in sorted order
			var pats []string
			for p := range set {
				pats = append(pats, p)
			}
			sort.Strings(pats)
			fresh, _ := fox.New()
			for _, p := range pats {
				if _, err := fresh.Handle("GET", p, h); err != nil {
					failTool("fresh router refuses %s: %v", p, err)
				}
			}
			for _, pr := range probes {
				a, b := obtainLookup(rt, "GET", pr[0], pr[1]), obtainLookup(fresh, "GET", pr[0], pr[1])
				r.addCov("wide_node_probes", 1)
				if fmt.Sprint(a) != fmt.Sprint(b) {
					d := detail()
					d["history_tail"], d["path"], d["by_history"], d["fresh_sorted_order"] = lastN(hist, 12), pr[1], a, b
					r.violation(fmt.Sprintf("wide node: path=%q routed differently by two routers holding the same %d routes", pr[1], len(pats)), d)
					return
				}
			}
		})
	}
}

func lastN(s []string, n int) []string {
	if len(s) > n {
		return s[len(s)-n:]
	}
	return s
}
