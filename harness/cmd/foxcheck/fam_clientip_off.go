//go:build !verif

package main

func checkC18(r *Run) { failTool("C18 needs the hook build (-tags verif)") }
