//go:build verif

package main

import (
	"fmt"
	"net/http"
	"net/http/httptest"
	"sync/atomic"

	"github.com/tigerwill90/fox"
)

// FoxConc models every read as ONE atomic load of the published tree followed by work on that version only (RLoad,
// then RReturn): that is what makes a read linearizable and lets it see one committed version. The verification point
// vpLoad fires at every load of the tree pointer; each read entry point must fire it exactly once per call, whatever
// the reply (route, 404, 405 with its Allow header, automatic OPTIONS, redirect), and transactions and iterators load
// once when they are created and never again.

func runSingleLoadPerRead(r *Run) {
	rt, err := fox.New(fox.WithNoMethod(true), fox.WithAutoOptions(true), fox.WithRedirectTrailingSlash(true))
	if err != nil {
		failTool("fox.New: %v", err)
	}
	for _, rte := range [][2]string{{"GET", "/a/{x}"}, {"POST", "/a/{x}"}, {"GET", "/b/"}, {"FOO", "/c"}, {"GET", "h.example/d/{y}"}, {"PUT", "/e/*{w}/end"}} {
		rt.MustHandle(rte[0], rte[1], routeHandler(rte[1]))
	}
	var loads atomic.Int64
	fox.VerifSetHook(func(rr *fox.Router, point int) {
		if rr == rt && point == fox.VerifLoad {
			loads.Add(1)
		}
	})
	defer fox.VerifSetHook(nil)
	serve := func(m, host, p string) func() {
		return func() {
			req := httptest.NewRequest(m, p, nil)
			if host != "" {
				req.Host = host
			}
			rt.ServeHTTP(httptest.NewRecorder(), req)
		}
	}
	reads := []struct {
		name string
		want int64
		run  func()
	}{
		{"ServeHTTP route", 1, serve("GET", "", "/a/1")},
		{"ServeHTTP hostname route", 1, serve("GET", "h.example", "/d/1")},
		{"ServeHTTP 404", 1, serve("GET", "", "/nope")},
		{"ServeHTTP 405", 1, serve("PUT", "", "/a/1")},
		{"ServeHTTP 405 on a catch-all", 1, serve("GET", "", "/e/x/y/end")},
		{"ServeHTTP automatic OPTIONS", 1, serve("OPTIONS", "", "/a/1")},
		{"ServeHTTP OPTIONS *", 1, serve("OPTIONS", "", "*")},
		{"ServeHTTP trailing-slash redirect", 1, serve("GET", "", "/b")},
		{"ServeHTTP unknown method", 1, serve("BAR", "", "/a/1")},
		{"Router.Lookup", 1, func() {
			if _, cc, _ := rt.Lookup(nil, httptest.NewRequest("GET", "/a/1", nil)); cc != nil {
				cc.Close()
			}
		}},
		{"Router.Reverse", 1, func() { rt.Reverse("GET", "", "/a/1") }},
		{"Router.Has", 1, func() { rt.Has("GET", "/a/{x}") }},
		{"Router.Route", 1, func() { rt.Route("GET", "/a/{x}") }},
		{"Router.Len", 1, func() { rt.Len() }},
		{"Router.Iter and everything ranged over it", 1, func() {
			it := rt.Iter()
			for range it.All() {
			}
			for range it.Methods() {
			}
			for range it.Prefix(it.Methods(), "/a") {
			}
			for range it.Reverse(it.Methods(), "", "/a/1") {
			}
		}},
		{"read-only Txn and everything read through it", 1, func() {
			tx := rt.Txn(false)
			tx.Has("GET", "/a/{x}")
			tx.Reverse("GET", "", "/a/1")
			tx.Len()
			for range tx.Iter().All() {
			}
			if sn := tx.Snapshot(); sn != nil {
				sn.Len()
			}
			tx.Abort()
		}},
		{"View and everything read through it", 1, func() {
			_ = rt.View(func(tx *fox.Txn) error {
				tx.Route("GET", "/a/{x}")
				if _, cc, _ := tx.Lookup(nil, httptest.NewRequest("GET", "/a/1", nil)); cc != nil {
					cc.Close()
				}
				return nil
			})
		}},
	}
	for _, rd := range reads {
		detail := func() map[string]any { return map[string]any{"family": "single-load", "read": rd.name} }
		r.guard("single load per read", detail, func() {
			loads.Store(0)
			rd.run()
			r.addCov("reads_checked_for_a_single_load", 1)
			if got := loads.Load(); got != rd.want {
				d := detail()
				d["prescribed"] = fmt.Sprintf("%d load of the published tree", rd.want)
				d["obtained"] = got
				r.violation(fmt.Sprintf("read=%s loads the published tree %d times: parts of one read may come from different versions", rd.name, got), d)
			}
		})
	}
	_ = http.MethodGet
}
