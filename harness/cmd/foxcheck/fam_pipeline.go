package main

import (
	"context"
	"encoding/json"
	"errors"
	"fmt"
	"io"
	"log/slog"
	"math/rand"
	"net"
	"net/http"
	"net/url"
	"os"
	"runtime"
	"slices"
	"strconv"
	"strings"
	"sync"
	"sync/atomic"
	"syscall"
	"testing/iotest"
	"time"

	"github.com/tigerwill90/fox"
)

// ---- shared: capturing slog handler, identity-tagged resolvers ------------------------------------------

type capturedRecord struct {
	Level string
	Msg   string
	Attrs map[string]string
	Seq   int
}

type captureHandler struct {
	mu   sync.Mutex
	recs []capturedRecord
	seq  *atomic.Int64
}

func (h *captureHandler) Enabled(context.Context, slog.Level) bool { return true }
func (h *captureHandler) Handle(_ context.Context, r slog.Record) error {
	rec := capturedRecord{Level: r.Level.String(), Msg: r.Message, Attrs: map[string]string{}}
	var walk func(prefix string, a slog.Attr)
	walk = func(prefix string, a slog.Attr) {
		if a.Value.Kind() == slog.KindGroup {
			for _, g := range a.Value.Group() {
				walk(prefix+a.Key+".", g)
			}
			return
		}
		rec.Attrs[prefix+a.Key] = a.Value.String()
	}
	r.Attrs(func(a slog.Attr) bool { walk("", a); return true })
	if h.seq != nil {
		rec.Seq = int(h.seq.Add(1))
	}
	h.mu.Lock()
	h.recs = append(h.recs, rec)
	h.mu.Unlock()
	return nil
}
func (h *captureHandler) WithAttrs([]slog.Attr) slog.Handler { return h }
func (h *captureHandler) WithGroup(string) slog.Handler      { return h }
func (h *captureHandler) take() []capturedRecord {
	h.mu.Lock()
	defer h.mu.Unlock()
	out := h.recs
	h.recs = nil
	return out
}

type idResolver struct {
	id   int
	fail bool
}

var errResolverFails = errors.New("verif: resolver fails")

func (r idResolver) ClientIP(fox.Context) (*net.IPAddr, error) {
	if r.fail {
		return nil, errResolverFails
	}
	return &net.IPAddr{IP: net.IPv4(10, 0, 0, byte(r.id))}, nil
}

// whichResolver calls c.ClientIP() and tells which resolver answered: 0 none, id otherwise, -1 failing resolver.
func whichResolver(c fox.Context) int {
	ip, err := c.ClientIP()
	switch {
	case errors.Is(err, fox.ErrNoClientIPResolver):
		return 0
	case errors.Is(err, errResolverFails):
		return -1
	case err != nil:
		return -2
	}
	return int(ip.IP.To4()[3])
}

// ---- C19 -------------------------------------------------------------------------------------------------

type annKey1 struct{}
type annKey2 struct{}
type badStruct struct{ v any }

var badKeys = []func() any{
	func() any { return nil },
	func() any { return []int{1} },
	func() any { return map[string]int{} },
	func() any { return func() {} },
	func() any { return badStruct{v: []int{1}} },
	func() any { return [1]any{[]int{1}} },
}

type optVec struct {
	G      [][]any `json:"g"`
	Router struct {
		Ign bool `json:"ign"`
		Red bool `json:"red"`
		Res int  `json:"res"`
	} `json:"router"`
	Routes []struct {
		R   [][]any `json:"r"`
		Cfg struct {
			Ign bool   `json:"ign"`
			Red bool   `json:"red"`
			Res int    `json:"res"`
			Err string `json:"err"`
			Ann []int  `json:"ann"`
		} `json:"cfg"`
	} `json:"routes"`
	Acc []struct {
		Pat   string `json:"pat"`
		Host  string `json:"host"`
		Path  string `json:"path"`
		NWild int    `json:"nwild"`
		Valid bool   `json:"valid"`
	} `json:"acc"`
}

func globalOpt(o []any) fox.GlobalOption {
	switch o[0].(string) {
	case "ign":
		return fox.WithIgnoreTrailingSlash(o[1].(bool))
	case "red":
		return fox.WithRedirectTrailingSlash(o[1].(bool))
	case "res":
		if id := int(o[1].(float64)); id > 0 {
			return fox.WithClientIPResolver(idResolver{id: id})
		}
		return fox.WithClientIPResolver(nil)
	}
	failTool("unknown global option %v", o)
	return nil
}

func routeOpt(o []any, rng *rand.Rand) fox.RouteOption {
	switch o[0].(string) {
	case "ign":
		return fox.WithIgnoreTrailingSlash(o[1].(bool))
	case "red":
		return fox.WithRedirectTrailingSlash(o[1].(bool))
	case "res":
		if id := int(o[1].(float64)); id > 0 {
			return fox.WithClientIPResolver(idResolver{id: id})
		}
		return fox.WithClientIPResolver(nil)
	case "ann":
		var v any = int(o[2].(float64))
		if v == 0 {
			v = nil // value 0 in the specification = a nil value: the key reads back as nil
		}
		switch o[1].(string) {
		case "k1":
			return fox.WithAnnotation(annKey1{}, v)
		case "k2":
			return fox.WithAnnotation(annKey2{}, v)
		default:
			return fox.WithAnnotation(badKeys[rng.Intn(len(badKeys))](), v)
		}
	}
	failTool("unknown route option %v", o)
	return nil
}

func optsDesc(os [][]any) string {
	var parts []string
	for _, o := range os {
		parts = append(parts, fmt.Sprint(o))
	}
	return strings.Join(parts, "")
}

func replayOptVec(r *Run, v optVec, rng *rand.Rand, evals *atomic.Int64) {
	if v.Acc != nil {
		rt, _ := fox.New()
		for _, a := range v.Acc {
			rte, err := rt.NewRoute(a.Pat, func(fox.Context) {})
			evals.Add(1)
			if (err == nil) != a.Valid {
				r.violation(fmt.Sprintf("options accessors pattern=%q", a.Pat), map[string]any{"prescribed": a, "obtained": fmt.Sprint(err)})
				continue
			}
			if err != nil {
				continue
			}
			got := map[string]any{"host": rte.Hostname(), "path": rte.Path(), "nwild": rte.ParamsLen(), "concat": rte.Hostname()+rte.Path() == rte.Pattern()}
			if rte.Hostname() != a.Host || rte.Path() != a.Path || rte.ParamsLen() != a.NWild || rte.Hostname()+rte.Path() != rte.Pattern() || rte.Pattern() != a.Pat {
				r.violation(fmt.Sprintf("options accessors pattern=%q", a.Pat), map[string]any{"prescribed": a, "obtained": got})
			}
		}
		return
	}
	var gopts []fox.GlobalOption
	for _, o := range v.G {
		gopts = append(gopts, globalOpt(o))
	}
	seen := map[string]int{}
	record := func(kind string) fox.HandlerFunc {
		return func(c fox.Context) { seen[kind] = whichResolver(c); c.Writer().WriteHeader(200) }
	}
	gopts = append(gopts, fox.WithNoRouteHandler(record("noroute")), fox.WithNoMethodHandler(record("nomethod")), fox.WithOptionsHandler(record("options")),
		fox.WithMiddlewareFor(fox.RedirectHandler, func(next fox.HandlerFunc) fox.HandlerFunc {
			return func(c fox.Context) { seen["redirect"] = whichResolver(c); next(c) }
		}))
	for _, rc := range v.Routes {
		key := fmt.Sprintf("options global=%s route=%s", optsDesc(v.G), optsDesc(rc.R))
		var problem []string
		func() {
			defer func() {
				if p := recover(); p != nil {
					problem = append(problem, "panic: "+fmt.Sprint(p))
				}
			}()
			rt, err := fox.New(gopts...)
			if err != nil {
				problem = append(problem, "New: "+err.Error())
				return
			}
			st := rt.Stats()
			if st.IgnoreTrailingSlash != v.Router.Ign || st.RedirectTrailingSlash != v.Router.Red || st.ClientIP != (v.Router.Res != 0) {
				problem = append(problem, fmt.Sprintf("router Stats()=%+v", st))
			}
			var ropts []fox.RouteOption
			for _, o := range rc.R {
				ropts = append(ropts, routeOpt(o, rng))
			}
			rte, err := rt.Handle("GET", "/t", record("route"), ropts...)
			evals.Add(1)
			if errClass(err) != rc.Cfg.Err {
				problem = append(problem, "Handle: "+errClass(err))
				return
			}
			if _, err2 := rt.NewRoute("/t", record("route"), ropts...); errClass(err2) != rc.Cfg.Err {
				problem = append(problem, "NewRoute: "+errClass(err2))
			}
			if err != nil {
				return
			}
			check := func(what string, rte *fox.Route) {
				if rte.IgnoreTrailingSlashEnabled() != rc.Cfg.Ign || rte.RedirectTrailingSlashEnabled() != rc.Cfg.Red {
					problem = append(problem, fmt.Sprintf("%s: ignore=%v redirect=%v", what, rte.IgnoreTrailingSlashEnabled(), rte.RedirectTrailingSlashEnabled()))
				}
				res := rte.ClientIPResolver()
				got := 0
				if ir, ok := res.(idResolver); ok {
					got = ir.id
				} else if res != nil {
					got = -3
				}
				if got != rc.Cfg.Res {
					problem = append(problem, fmt.Sprintf("%s: ClientIPResolver()=%d", what, got))
				}
				for i, k := range []any{annKey1{}, annKey2{}} {
					gv, _ := rte.Annotation(k).(int)
					if gv != rc.Cfg.Ann[i] || (rc.Cfg.Ann[i] == 0 && rte.Annotation(k) != nil) {
						problem = append(problem, fmt.Sprintf("%s: Annotation(k%d)=%v", what, i+1, rte.Annotation(k)))
					}
				}
			}
			check("Handle", rte)
			up, err := rt.Update("GET", "/t", record("route"), ropts...)
			if err != nil {
				problem = append(problem, "Update: "+err.Error())
			} else {
				check("Update", up)
			}
			// which resolver Context.ClientIP uses, per handler kind
			rt.MustHandle("GET", "/h", record("helper"), fox.WithRedirectTrailingSlash(true))
			path := "/t"
			for k := range seen {
				delete(seen, k)
			}
			for _, q := range [][2]string{{"GET", path}, {"GET", "/nope"}, {"POST", "/h"}, {"GET", "/h/"}, {"OPTIONS", "/h"}} {
				req, _ := newRequest(q[0], "", q[1], "")
				rt.ServeHTTP(newPlainWriter(), req)
			}
			want := map[string]int{"route": rc.Cfg.Res, "noroute": v.Router.Res, "nomethod": v.Router.Res, "redirect": v.Router.Res, "options": v.Router.Res}
			for k, w := range want {
				if g, ok := seen[k]; !ok || g != w {
					problem = append(problem, fmt.Sprintf("ClientIP in %s handler used resolver %d (ran=%v), want %d", k, g, ok, w))
				}
			}
			// the route's options also hold when the route is dispatched by hand after a Lookup, directly or through a
			// trailing-slash recommendation, and on a CloneWith copy of such a context (done from inside a handler, which has a
			// ResponseWriter to pass on)
			rt.MustHandle("GET", "/dispatch", func(c fox.Context) {
				for _, target := range []string{"/t", "/t/"} {
					for _, viaCopy := range []bool{false, true} {
						delete(seen, "route")
						inner, _ := newRequest("GET", "", target, "")
						rte2, cc, _ := c.Fox().Lookup(c.Writer(), inner)
						if rte2 == nil || cc == nil {
							problem = append(problem, "Lookup of "+target+" found nothing")
							continue
						}
						if viaCopy {
							cp := cc.CloneWith(c.Writer(), inner)
							rte2.Handle(cp)
							cp.Close()
						} else {
							rte2.Handle(cc)
						}
						cc.Close()
						if g, ok := seen["route"]; !ok || g != rc.Cfg.Res {
							problem = append(problem, fmt.Sprintf("ClientIP in the route handler dispatched by hand for %s (copy=%v) used resolver %d (ran=%v), want %d", target, viaCopy, g, ok, rc.Cfg.Res))
						}
					}
				}
			})
			dreq, _ := newRequest("GET", "", "/dispatch", "")
			rt.ServeHTTP(newPlainWriter(), dreq)
		}()
		if len(problem) > 0 {
			r.violation(key, map[string]any{"kind": "vector", "global_options": v.G, "route_options": rc.R,
				"prescribed": map[string]any{"router": v.Router, "route": rc.Cfg}, "obtained": problem})
		}
	}
}

func staticInvalidCases(r *Run, evals *atomic.Int64) {
	h := func(fox.Context) {}
	type tc struct {
		name string
		want string
		f    func() error
	}
	newErr := func(o ...fox.GlobalOption) error { _, err := fox.New(o...); return err }
	rt, _ := fox.New()
	cases := []tc{
		{"Handle with nil handler", "invalid", func() error { _, err := rt.Handle("GET", "/x", nil); return err }},
		{"Update with nil handler", "invalid", func() error { _, err := rt.Update("GET", "/x", nil); return err }},
		{"NewRoute with nil handler", "invalid", func() error { _, err := rt.NewRoute("/x", nil); return err }},
		{"NewRoute with nil handler and a route middleware", "invalid", func() error {
			_, err := rt.NewRoute("a.b/{x}", nil, fox.WithMiddleware(func(n fox.HandlerFunc) fox.HandlerFunc { return n }))
			return err
		}},
		{"a route created with a nil handler is never served", "invalid", func() error {
			r2, _ := fox.New()
			rte, err := r2.NewRoute("/x", nil)
			if err != nil {
				return err
			}
			if err = r2.HandleRoute("GET", rte); err != nil {
				return err
			}
			req, _ := http.NewRequest("GET", "/x", nil)
			r2.ServeHTTP(newPlainWriter(), req) // panics when the nil handler was accepted
			return nil
		}},
		{"HandleRoute with nil route", "invalid", func() error { return rt.HandleRoute("GET", nil) }},
		{"UpdateRoute with nil route", "invalid", func() error { return rt.UpdateRoute("GET", nil) }},
		{"global nil middleware", "invalidconfig", func() error { return newErr(fox.WithMiddleware(nil)) }},
		{"global nil scoped middleware", "invalidconfig", func() error { return newErr(fox.WithMiddlewareFor(fox.RouteHandler, nil)) }},
		{"route nil middleware", "invalidconfig", func() error { _, err := rt.NewRoute("/x", h, fox.WithMiddleware(nil)); return err }},
		{"nil no-route handler", "invalidconfig", func() error { return newErr(fox.WithNoRouteHandler(nil)) }},
		{"nil no-method handler", "invalidconfig", func() error { return newErr(fox.WithNoMethodHandler(nil)) }},
		{"nil options handler", "invalidconfig", func() error { return newErr(fox.WithOptionsHandler(nil)) }},
	}
	// the ends of the default limits: ParamsLen is the number of wildcards up to the largest number a route may have, and
	// one more is refused
	many := func(n int) string { return strings.Repeat("/{p}", n) }
	for _, n := range []int{255, 256, 65535} {
		n := n
		cases = append(cases, tc{fmt.Sprintf("route with %d wildcards", n), "ok", func() error {
			rte, err := rt.NewRoute(many(n), h)
			if err == nil && rte.ParamsLen() != n {
				return fmt.Errorf("ParamsLen()=%d for a pattern with %d wildcards", rte.ParamsLen(), n)
			}
			return err
		}})
	}
	for _, n := range []int{65536, 65537, 65541} {
		n := n
		cases = append(cases, tc{fmt.Sprintf("route with %d wildcards", n), "invalid", func() error {
			rte, err := rt.NewRoute(many(n), h)
			if err == nil {
				return fmt.Errorf("accepted, ParamsLen()=%d", rte.ParamsLen())
			}
			return err
		}})
	}
	for i, bk := range badKeys {
		bk := bk
		cases = append(cases, tc{fmt.Sprintf("annotation key that cannot be a map key #%d", i), "invalidconfig", func() error { _, err := rt.NewRoute("/x", h, fox.WithAnnotation(bk(), 1)); return err }})
	}
	for i, gk := range []any{"s", 1, annKey1{}, &annKey1{}, [2]int{1, 2}, struct{ a any }{a: 3}} {
		gk := gk
		cases = append(cases, tc{fmt.Sprintf("annotation key usable as a map key #%d", i), "ok", func() error { _, err := rt.NewRoute("/x", h, fox.WithAnnotation(gk, 1)); return err }})
	}
	for _, c := range cases {
		got := ""
		func() {
			defer func() {
				if p := recover(); p != nil {
					got = "panic: " + fmt.Sprint(p)
				}
			}()
			got = errClass(c.f())
		}()
		evals.Add(1)
		if got != c.want {
			r.violation("options invalid case: "+c.name, map[string]any{"kind": "vector", "case": c.name, "prescribed": c.want, "obtained": got})
		}
	}
}

func checkC19(r *Run) {
	gen := fmt.Sprintf(`---- MODULE Gen_Options ----
GenGlobalOpts == { <<"ign", TRUE>>, <<"ign", FALSE>>, <<"red", TRUE>>, <<"red", FALSE>>, <<"res", 1>>, <<"res", 3>> }
GenRouteOpts == { <<"ign", TRUE>>, <<"ign", FALSE>>, <<"red", TRUE>>, <<"red", FALSE>>, <<"res", 2>>, <<"res", 0>>,
                  <<"ann", "k1", 1>>, <<"ann", "k1", 2>>, <<"ann", "k1", 0>>, <<"ann", "k2", 1>>, <<"ann", "bad", 1>> }
GenMaxGlobal == %d
GenMaxRoute == %d
GenAnnKeys == {"k1", "k2", "bad"}
GenAnnKeySeq == <<"k1", "k2">>
GenBadKeys == {"bad"}
GenPatterns == %s
====
`, pick(r, 2, 3), pick(r, 3, 4), tlaSeqOfChars([]string{"/a", "a.b/{x}", "/", "{h}.b/a/*{w}/c", "/a{x}/b{y}", "a.b/", "/a/{x}/", "ab.{h}.c/{x}/{y}/*{z}", "/*{w}", "noslash", "/a{", "A.b/{X}", "{Ha}.Bc.d/A/{x}"}))
	var vecs, evals atomic.Int64
	ch := make(chan optVec, 16)
	var wg sync.WaitGroup
	for k := 0; k < 8; k++ {
		wg.Add(1)
		go func(k int) {
			defer wg.Done()
			rng := rand.New(rand.NewSource(r.Seed*17 + int64(k)))
			for v := range ch {
				vecs.Add(int64(len(v.Routes) + len(v.Acc)))
				replayOptVec(r, v, rng, &evals)
			}
		}(k)
	}
	var once sync.Once
	res := r.runTLC(tlcOpts{Module: "MC_Options", Gen: map[string]string{"Gen_Options.tla": gen}, Timeout: pick(r, 5*time.Minute, 30*time.Minute),
		OnVec: func(b []byte) {
			var v optVec
			if err := json.Unmarshal(b, &v); err != nil {
				failTool("bad vector: %v", err)
			}
			if len(v.Routes) > 10 && len(v.G) > 0 {
				once.Do(func() {
					r.sample(map[string]any{"global": v.G, "router": v.Router, "route_options": v.Routes[7].R, "route": v.Routes[7].Cfg})
				})
			}
			ch <- v
		}})
	close(ch)
	wg.Wait()
	res.mustClean("MC_Options")
	staticInvalidCases(r, &evals)
	r.addCov("states", res.Distinct)
	r.addCov("transitions", res.Generated)
	r.addCov("traces_validated_against_impl", vecs.Load())
	r.addCov("evaluations", evals.Load())
	r.setCov("exhaustive", true)
	r.assumption("a nil router-wide resolver option is only generated where it cannot follow a non-nil one (the statement fixes the nil meaning per route only)")
}

// ---- C20 -------------------------------------------------------------------------------------------------

type logVec struct {
	Kind  string `json:"kind"`
	Cases []struct {
		Did    []any  `json:"did"`
		Loc    bool   `json:"loc"`
		Router string `json:"router"`
		Route  string `json:"route"`
		Rec    struct {
			Level    string `json:"level"`
			Status   int    `json:"status"`
			Msg      string `json:"msg"`
			Location bool   `json:"location"`
		} `json:"rec"`
	} `json:"cases"`
}

func resolverOpt(kind string) fox.ClientIPResolver {
	switch kind {
	case "ok":
		return idResolver{id: 7}
	case "fail":
		return idResolver{fail: true}
	}
	return nil
}

// ownStatusWriter is a fox.ResponseWriter of the application's own: it keeps its own status and size and writes to the
// raw connection, not through the writer it replaces.
type ownStatusWriter struct {
	fox.ResponseWriter
	raw    http.ResponseWriter
	status int
	size   int
}

func (w *ownStatusWriter) Header() http.Header { return w.raw.Header() }
func (w *ownStatusWriter) WriteHeader(code int) {
	if w.status == 0 {
		w.status = code
		w.raw.WriteHeader(code)
	}
}
func (w *ownStatusWriter) Write(b []byte) (int, error) {
	if w.status == 0 {
		w.WriteHeader(200)
	}
	n, err := w.raw.Write(b)
	w.size += n
	return n, err
}
func (w *ownStatusWriter) WriteString(s string) (int, error) { return w.Write([]byte(s)) }
func (w *ownStatusWriter) Status() int {
	if w.status == 0 {
		return 200
	}
	return w.status
}
func (w *ownStatusWriter) Written() bool { return w.status != 0 }
func (w *ownStatusWriter) Size() int     { return w.size }

func replayLogVec(r *Run, v logVec, evals *atomic.Int64) {
	for _, cs := range v.Cases {
		if v.Kind == "redirect" && !(cs.Did[0] == "status" && cs.Did[1].(float64) == 301 && cs.Loc) {
			continue // the internal redirect handler always answers 301 (GET) with a Location
		}
		var seq atomic.Int64
		capH := &captureHandler{seq: &seq}
		handlerSeq := 0
		// every fifth plain-status case: the handler first installs a writer of its own (SetWriter) that records for itself and
		// writes to the raw connection, past the writer the context had; the record describes what the context's writer
		// reports when the handler returns
		swapWriter := int(evals.Load())%5 == 2 && cs.Did[0].(string) == "status" && cs.Did[1].(float64) >= 200
		did := func(c fox.Context) {
			if swapWriter {
				if u, ok := c.Writer().(interface{ Unwrap() http.ResponseWriter }); ok {
					c.SetWriter(&ownStatusWriter{ResponseWriter: c.Writer(), raw: u.Unwrap()})
				}
			}
			if cs.Loc {
				c.Writer().Header().Set("Location", "/elsewhere")
			}
			switch cs.Did[0].(string) {
			case "status":
				c.Writer().WriteHeader(int(cs.Did[1].(float64)))
			case "body":
				c.Writer().Write([]byte("hello"))
			case "info":
				c.Writer().WriteHeader(int(cs.Did[1].(float64)))
			case "bodythen":
				c.Writer().Write([]byte("hello"))
				c.Writer().WriteHeader(int(cs.Did[1].(float64)))
			case "twice":
				c.Writer().WriteHeader(int(cs.Did[1].(float64)))
				c.Writer().WriteHeader(int(cs.Did[2].(float64)))
			case "flushthen":
				_ = c.Writer().FlushError()
				c.Writer().WriteHeader(int(cs.Did[1].(float64)))
			case "infotwice":
				c.Writer().WriteHeader(int(cs.Did[1].(float64)))
				c.Writer().WriteHeader(int(cs.Did[2].(float64)))
				c.Writer().WriteHeader(int(cs.Did[3].(float64)))
			}
			handlerSeq = int(seq.Add(1))
		}
		// the peer: IPv4, IPv6, link-local IPv6 with a zone; and, every other case, a middleware in front of the Logger
		// that hands a CloneWith copy of the context down the chain (the Logger then works on the copy)
		variant := int(evals.Load())
		remote := [][2]string{{"192.0.2.1:1234", "192.0.2.1"}, {"[2001:db8::7]:443", "2001:db8::7"}, {"[fe80::1%eth0]:8080", "fe80::1%eth0"}}[variant%3]
		viaCopy := variant%2 == 1
		copyMw := func(next fox.HandlerFunc) fox.HandlerFunc {
			return func(c fox.Context) {
				cp := c.CloneWith(c.Writer(), c.Request())
				defer cp.Close()
				next(cp)
			}
		}
		build := func(withLogger bool) *fox.Router {
			opts := []fox.GlobalOption{fox.WithNoRouteHandler(did), fox.WithNoMethodHandler(did), fox.WithOptionsHandler(did)}
			if withLogger {
				opts = append([]fox.GlobalOption{fox.WithMiddleware(fox.LoggerWithHandler(capH))}, opts...)
			}
			if viaCopy { // registered first: it runs in front of the Logger
				opts = append([]fox.GlobalOption{fox.WithMiddleware(copyMw)}, opts...)
			}
			if res := resolverOpt(cs.Router); res != nil {
				opts = append(opts, fox.WithClientIPResolver(res))
			}
			rt, err := fox.New(opts...)
			if err != nil {
				failTool("fox.New: %v", err)
			}
			var ro []fox.RouteOption
			if cs.Route != cs.Router {
				ro = append(ro, fox.WithClientIPResolver(resolverOpt(cs.Route)))
			}
			rt.MustHandle("GET", "/t/{x}", did, ro...)
			rt.MustHandle("GET", "/h/{x}", did, fox.WithRedirectTrailingSlash(true))
			// a route with a resolver of its own, requested first so that recycled contexts carry its traces
			rt.MustHandle("GET", "/warm", func(c fox.Context) { c.Writer().WriteHeader(204) }, fox.WithClientIPResolver(idResolver{id: 9}))
			return rt
		}
		// the last segment is plain, contains a space, or is non-ASCII (sent percent-encoded): the record
		// carries the request path, not its escaped form
		seg := []string{"x", "hello world", "caf\u00e9", "a%b"}[int(evals.Load())%4]
		q := map[string][2]string{"route": {"GET", "/t/" + seg}, "noroute": {"GET", "/nope/" + seg}, "nomethod": {"POST", "/h/" + seg}, "redirect": {"GET", "/h/" + seg + "/"}, "options": {"OPTIONS", "/h/" + seg}}[v.Kind]
		do := func(rt *fox.Router) *plainWriter {
			for i := 0; i < 2; i++ {
				wreq, _ := newRequest("GET", "log.example", "/warm", "")
				rt.ServeHTTP(newPlainWriter(), wreq)
			}
			req, _ := newRequest(q[0], "log.example", q[1], "")
			req.RemoteAddr = remote[0]
			if esc := (&url.URL{Path: q[1]}).EscapedPath(); esc != q[1] {
				req.URL.RawPath = esc
			}
			w := newPlainWriter()
			rt.ServeHTTP(flusherWriter{w}, req) // an underlying writer that can flush, as net/http's is
			return w
		}
		wWith := do(build(true))
		recs := capH.take()
		if len(recs) > 0 { // drop the records of the warm-up requests
			var kept []capturedRecord
			for _, rc := range recs {
				if rc.Attrs["path"] != "/warm" {
					kept = append(kept, rc)
				}
			}
			recs = kept
		}
		handlerSeqWith := handlerSeq
		wWithout := do(build(false))
		evals.Add(1)
		var problem []string
		if len(recs) != 1 {
			problem = append(problem, fmt.Sprintf("%d records emitted", len(recs)))
		} else {
			rec := recs[0]
			wantMsg := map[string]string{"remote": remote[1], "resolved": "10.0.0.7", "unknown": "unknown"}[cs.Rec.Msg]
			if rec.Level != cs.Rec.Level {
				problem = append(problem, "level "+rec.Level)
			}
			if rec.Msg != wantMsg {
				problem = append(problem, "message "+rec.Msg)
			}
			if rec.Attrs["status"] != fmt.Sprint(cs.Rec.Status) || rec.Attrs["method"] != q[0] || rec.Attrs["host"] != "log.example" || rec.Attrs["path"] != q[1] {
				problem = append(problem, fmt.Sprintf("attributes %v", rec.Attrs))
			}
			loc, has := rec.Attrs["location"]
			if has != cs.Rec.Location || (has && loc != wWith.h.Get("Location")) {
				problem = append(problem, fmt.Sprintf("location attribute present=%v value=%q", has, loc))
			}
			if v.Kind != "redirect" && rec.Seq < handlerSeqWith {
				problem = append(problem, "record emitted before the handler returned")
			}
		}
		if wWith.status != wWithout.status || string(wWith.body) != string(wWithout.body) || fmt.Sprint(wWith.h) != fmt.Sprint(wWithout.h) {
			problem = append(problem, fmt.Sprintf("response altered: %d %q %v vs %d %q %v", wWith.status, wWith.body, wWith.h, wWithout.status, wWithout.body, wWithout.h))
		}
		if len(problem) > 0 {
			r.violation(fmt.Sprintf("logger kind=%s did=%v location=%v router_resolver=%s route_resolver=%s peer=%s via_copy=%v", v.Kind, cs.Did, cs.Loc, cs.Router, cs.Route, remote[0], viaCopy),
				map[string]any{"kind": "vector", "handler_kind": v.Kind, "handler_did": cs.Did, "sets_location": cs.Loc, "router_resolver": cs.Router, "route_resolver": cs.Route,
					"prescribed": cs.Rec, "obtained": problem, "records": recs})
		}
	}
	// a panic passes through unchanged and produces no record
	capH := &captureHandler{}
	rt, _ := fox.New(fox.WithMiddleware(fox.LoggerWithHandler(capH)))
	sentinel := &panicSentinel{7}
	rt.MustHandle("GET", "/p", func(fox.Context) { panic(sentinel) })
	var got any
	func() {
		defer func() { got = recover() }()
		req, _ := newRequest("GET", "", "/p", "")
		rt.ServeHTTP(newPlainWriter(), req)
	}()
	if got != any(sentinel) || len(capH.take()) != 0 {
		r.violation("logger panic pass-through", map[string]any{"prescribed": "the panic value passes through unchanged, no record", "obtained": fmt.Sprint(got)})
	}
}

func checkC20(r *Run) {
	runLoggerConcurrent(r)
	statuses := []int{200, 204, 299, 300, 301, 308, 399, 400, 404, 499, 500, 503, 599, 101}
	if !r.quick() {
		for s := 100; s < 600; s++ {
			statuses = append(statuses, s)
		}
	}
	var did []string
	for _, s := range statuses {
		if s >= 100 && s <= 199 && s != 101 {
			did = append(did, fmt.Sprintf(`<<"info", %d>>`, s)) // an informational header is not a final status
			continue
		}
		did = append(did, fmt.Sprintf(`<<"status", %d>>`, s))
	}
	did = append(did, `<<"body">>`, `<<"nothing">>`, `<<"info", 103>>`)
	// a final header that comes too late: after body bytes, after an earlier final status, after a flush, after an
	// informational header and a final one
	did = append(did, `<<"bodythen", 500>>`, `<<"bodythen", 302>>`, `<<"twice", 201, 500>>`, `<<"twice", 404, 200>>`, `<<"twice", 301, 404>>`,
		`<<"flushthen", 503>>`, `<<"infotwice", 103, 202, 500>>`)
	gen := "---- MODULE Gen_Logger ----\nGenDid == {" + strings.Join(did, ", ") + "}\n====\n"
	var n, evals atomic.Int64
	res := r.runTLC(tlcOpts{Module: "MC_Logger", Gen: map[string]string{"Gen_Logger.tla": gen}, Timeout: 5 * time.Minute,
		OnVec: func(b []byte) {
			var v logVec
			if err := json.Unmarshal(b, &v); err != nil {
				failTool("bad vector: %v", err)
			}
			n.Add(int64(len(v.Cases)))
			if v.Kind == "route" {
				r.sample(map[string]any{"kind": v.Kind, "case": v.Cases[len(v.Cases)/3]})
			}
			replayLogVec(r, v, &evals)
		}})
	res.mustClean("MC_Logger")
	r.addCov("states", res.Distinct)
	r.addCov("transitions", res.Generated)
	r.addCov("traces_validated_against_impl", evals.Load())
	r.addCov("evaluations", evals.Load())
	r.addCov("cases_prescribed", n.Load())
	r.setCov("exhaustive", true)
}

// ---- C15 -------------------------------------------------------------------------------------------------

type recVec struct {
	Class string `json:"class"`
	Cases []struct {
		Progress string `json:"progress"`
		Repanic  bool   `json:"repanic"`
		Response string `json:"response"`
		Logged   bool   `json:"logged"`
	} `json:"cases"`
	Headers []struct {
		Name     string `json:"name"`
		Redacted bool   `json:"redacted"`
	} `json:"headers"`
}

type customPanic struct{ msg string }

// panic values whose own methods panic
type nilPtrError struct{ msg string }

func (e *nilPtrError) Error() string { return e.msg }

type panickyError struct{}

func (panickyError) Error() string { panic("Error method panics") }

func panicValue(class string) any {
	switch class {
	case "abort":
		return http.ErrAbortHandler
	case "wrappedAbort":
		return fmt.Errorf("handler gave up: %w", http.ErrAbortHandler)
	case "brokenPipe":
		return &net.OpError{Op: "write", Net: "tcp", Err: os.NewSyscallError("write", syscall.EPIPE)}
	case "connReset":
		return &net.OpError{Op: "read", Net: "tcp", Err: os.NewSyscallError("read", syscall.ECONNRESET)}
	case "brokenPipeWrapped":
		return &net.OpError{Op: "write", Net: "tcp", Err: fmt.Errorf("flushing the response: %w", os.NewSyscallError("write", syscall.EPIPE))}
	case "connResetNested":
		return &net.OpError{Op: "read", Net: "tcp", Err: &net.OpError{Op: "read", Net: "tcp", Err: os.NewSyscallError("read", syscall.ECONNRESET)}}
	case "otherOpError":
		return &net.OpError{Op: "dial", Net: "tcp", Err: errors.New("i/o timeout")}
	case "error":
		return errors.New("plain error")
	case "string":
		return "a string"
	case "nilval":
		return nil
	case "custom":
		return customPanic{"custom"}
	case "nilErrPtr":
		var e *nilPtrError
		return e
	case "nilOpError":
		var e *net.OpError
		return e
	case "panickyError":
		return panickyError{}
	}
	failTool("unknown panic class %q", class)
	return nil
}

// underlying writers that can flush: through http.Flusher only, or through FlushError
type flusherWriter struct{ *plainWriter }

func (w flusherWriter) Flush() {
	if w.status == 0 {
		w.status = 200
	}
}

type flushErrWriter struct{ *plainWriter }

func (w flushErrWriter) FlushError() error {
	if w.status == 0 {
		w.status = 200
	}
	return nil
}

// readerFromWriter is an underlying writer with a ReadFrom of its own that, like net/http's, sends nothing - not even
// the header - when the source yields nothing.
type readerFromWriter struct{ *plainWriter }

func (w readerFromWriter) ReadFrom(src io.Reader) (int64, error) {
	return io.Copy(struct{ io.Writer }{w.plainWriter}, src)
}

func replayRecVec(r *Run, v recVec, evals *atomic.Int64) {
	sites := []string{"route", "route-tsr", "route-host", "route-updates", "inner-middleware", "noroute", "nomethod", "options"}
	for _, cs := range v.Cases {
		for _, site := range sites {
			under := []string{"plain"}
			if cs.Progress == "flushed" {
				under = []string{"flusher", "flusherr"}
			}
			if cs.Progress == "emptycopy" {
				under = []string{"plain", "readerfrom"}
			}
			for _, uw := range under {
				replayRecCase(r, v, cs.Progress, cs.Repanic, cs.Response, cs.Logged, site, uw, evals)
			}
		}
	}
}

func replayRecCase(r *Run, v recVec, progress string, repanic bool, response string, logged bool, site, underlying string, evals *atomic.Int64) {
	cs := struct {
		Progress string
		Repanic  bool
		Response string
		Logged   bool
	}{progress, repanic, response, logged}
	{
		{
			capH := &captureHandler{}
			val := panicValue(v.Class)
			boom := func(c fox.Context) {
				switch cs.Progress {
				case "none": // the handler had prepared the headers of the reply it meant to send
					c.Writer().Header().Set("Content-Length", "3")
					c.Writer().Header().Set("Content-Type", "application/x-intended")
				case "header":
					c.Writer().WriteHeader(202)
				case "partial":
					c.Writer().WriteHeader(202)
					c.Writer().Write([]byte("par"))
				case "flushed":
					_ = c.Writer().FlushError() // sends the implicit 200 header: the response has started
				case "info": // an informational header is not the start of the response
					c.Writer().WriteHeader(103)
				case "emptycopy": // a source that yields nothing: no byte and no header went out
					_, _ = io.Copy(c.Writer(), strings.NewReader(""))
					_, _ = c.Writer().ReadFrom(iotest.ErrReader(errSentinel))
				}
				panic(val)
			}
			quiet := func(c fox.Context) { c.Writer().WriteHeader(204) }
			rec := fox.CustomRecoveryWithLogHandler(capH, fox.DefaultHandleRecovery)
			opts := []fox.GlobalOption{fox.WithMiddlewareFor(fox.AllHandlers, rec)}
			pick := func(s string) fox.HandlerFunc {
				if s == site {
					return boom
				}
				return quiet
			}
			opts = append(opts, fox.WithNoRouteHandler(pick("noroute")), fox.WithNoMethodHandler(pick("nomethod")), fox.WithOptionsHandler(pick("options")))
			if site == "inner-middleware" {
				opts = append(opts, fox.WithMiddlewareFor(fox.RouteHandler, func(next fox.HandlerFunc) fox.HandlerFunc {
					return func(c fox.Context) {
						if c.Path() == "/boom/42" {
							boom(c)
						}
						next(c)
					}
				}))
			}
			rt, err := fox.New(opts...)
			if err != nil {
				failTool("fox.New: %v", err)
			}
			rt.MustHandle("GET", "/boom/{id}", pick("route"))
			rt.MustHandle("GET", "/boomi/{id}/", pick("route-tsr"), fox.WithIgnoreTrailingSlash(true))
			rt.MustHandle("GET", "rec.example/boomh/{id}", pick("route-host"))
			// the handler panics inside a managed transaction that has already truncated the method it is served from
			updBoom := quiet
			if site == "route-updates" {
				updBoom = func(c fox.Context) {
					_ = c.Fox().Updates(func(txn *fox.Txn) error {
						_ = txn.Truncate("GET")
						boom(c)
						return nil
					})
				}
			}
			rt.MustHandle("GET", "/boomu/{id}", updBoom)
			rt.MustHandle("GET", "/warm/{w}/{v}", quiet)
			rt.MustHandle("GET", "/other", quiet)
			q := map[string][2]string{"route": {"GET", "/boom/42"}, "route-tsr": {"GET", "/boomi/42"}, "route-host": {"GET", "/boomh/42"}, "route-updates": {"GET", "/boomu/42"}, "inner-middleware": {"GET", "/boom/42"},
				"noroute": {"GET", "/nope"}, "nomethod": {"POST", "/other"}, "options": {"OPTIONS", "/other"}}[site]
			req, _ := newRequest(q[0], "rec.example", q[1], "")
			secrets := map[string]string{}
			for i, h := range v.Headers {
				tok := fmt.Sprintf("tok%dsecret%d", i, i*7+3)
				req.Header[h.Name] = []string{tok} // set directly: the name keeps its capitalisation
				secrets[h.Name] = tok
			}
			// earlier requests served by a route with parameters, one of them through an ignored trailing slash: the
			// recycled context must not lend its route or parameters to the record of the panic
			for _, wp := range []string{"/warm/7/8", "/boomi/9"} {
				if site == "route-tsr" && wp == "/boomi/9" {
					continue
				}
				wreq, _ := newRequest("GET", "rec.example", wp, "")
				rt.ServeHTTP(newPlainWriter(), wreq)
			}
			capH.take()
			w := newPlainWriter()
			var hw http.ResponseWriter = w
			switch underlying {
			case "flusher":
				hw = flusherWriter{w}
			case "flusherr":
				hw = flushErrWriter{w}
			case "readerfrom":
				hw = readerFromWriter{w}
			}
			var escaped any
			didEscape := false
			func() {
				defer func() {
					if p := recover(); p != nil {
						escaped, didEscape = p, true
					}
				}()
				rt.ServeHTTP(hw, req)
			}()
			evals.Add(1)
			var problem []string
			if didEscape != cs.Repanic {
				problem = append(problem, fmt.Sprintf("panic escaped ServeHTTP: %v (%v)", didEscape, escaped))
			} else if didEscape && escaped != val {
				problem = append(problem, fmt.Sprintf("re-raised value changed: %v", escaped))
			}
			switch cs.Response {
			case "500":
				if w.status != 500 {
					problem = append(problem, fmt.Sprintf("status %d", w.status))
				}
				// the 500 reply is a whole response: its declared length, if any, is the length of what is sent
				if cl := w.h.Get("Content-Length"); cl != "" && cl != strconv.Itoa(len(w.body)) {
					problem = append(problem, fmt.Sprintf("Content-Length %s declared for a %d byte error reply", cl, len(w.body)))
				}
			case "nothing":
				if w.status != 0 || len(w.body) != 0 {
					problem = append(problem, fmt.Sprintf("response written: %d %q", w.status, w.body))
				}
			case "untouched":
				ws, wb := 0, ""
				if cs.Progress != "none" && cs.Progress != "emptycopy" && cs.Progress != "info" {
					ws = 202
				}
				if cs.Progress == "flushed" {
					ws = 200
				}
				if cs.Progress == "partial" {
					wb = "par"
				}
				if w.status != ws || string(w.body) != wb {
					problem = append(problem, fmt.Sprintf("response touched: %d %q", w.status, w.body))
				}
			}
			recs := capH.take()
			if cs.Logged {
				if len(recs) != 1 {
					problem = append(problem, fmt.Sprintf("%d diagnostic records", len(recs)))
				} else {
					rc := recs[0]
					wantRoute := map[string]string{"route": "/boom/{id}", "route-tsr": "/boomi/{id}/", "route-host": "rec.example/boomh/{id}", "route-updates": "/boomu/{id}", "inner-middleware": "/boom/{id}", "noroute": "NoRouteHandler", "nomethod": "NoMethodHandler", "options": "OptionsHandler"}[site]
					if rc.Attrs["route"] != wantRoute {
						problem = append(problem, "route attribute "+rc.Attrs["route"])
					}
					if (strings.HasPrefix(site, "route") || site == "inner-middleware") && rc.Attrs["params.id"] != "42" {
						problem = append(problem, fmt.Sprintf("params attribute %v", rc.Attrs))
					}
					for k := range rc.Attrs {
						if strings.HasPrefix(k, "params.") && k != "params.id" || (k == "params.id" && !strings.HasPrefix(site, "route") && site != "inner-middleware") {
							problem = append(problem, fmt.Sprintf("parameter of another request in the record: %s=%s", k, rc.Attrs[k]))
						}
					}
					if !strings.Contains(rc.Msg, q[0]+" "+q[1]+" HTTP/1.1") {
						problem = append(problem, "request line missing from the record")
					}
					all := rc.Msg + fmt.Sprint(rc.Attrs)
					for _, h := range v.Headers {
						leaked := strings.Contains(all, secrets[h.Name])
						if h.Redacted && leaked {
							problem = append(problem, fmt.Sprintf("value of header %q logged in clear", h.Name))
						}
						if !h.Redacted && !leaked {
							problem = append(problem, fmt.Sprintf("value of ordinary header %q missing", h.Name))
						}
					}
				}
			} else if len(recs) != 0 {
				problem = append(problem, fmt.Sprintf("%d diagnostic records for a re-raised panic", len(recs)))
			}
			// the router stays usable
			if rt.Len() != 6 || !rt.Has("GET", "/boom/{id}") || !rt.Has("GET", "/other") {
				problem = append(problem, "routes changed")
			}
			req2, _ := newRequest("GET", "", "/other", "")
			w2 := newPlainWriter()
			rt.ServeHTTP(w2, req2)
			if w2.status != 204 {
				problem = append(problem, fmt.Sprintf("later request answered %d", w2.status))
			}
			if !watchdog(func() { rt.Handle("GET", "/new", quiet) }) {
				problem = append(problem, "a write after the panic never returned")
			}
			if len(problem) > 0 {
				r.violation(fmt.Sprintf("recovery class=%s progress=%s site=%s underlying=%s", v.Class, cs.Progress, site, underlying), map[string]any{"kind": "vector", "panic_class": v.Class, "progress": cs.Progress, "site": site, "underlying": underlying,
					"prescribed": cs, "obtained": problem})
			}
		}
	}
}

func checkC15(r *Run) {
	sensitive := []string{"Authorization", "Proxy-Authorization", "Cookie", "Set-Cookie", "X-CSRF-Token", "X-Vault-Token"}
	ordinary := []string{"Accept", "X-Request-Id", "User-Agent"}
	var names []string
	for _, s := range sensitive {
		names = append(names, s, strings.ToLower(s), strings.ToUpper(s), http.CanonicalHeaderKey(s))
		mixed := []byte(strings.ToLower(s))
		for i := range mixed {
			if i%2 == 1 && mixed[i] >= 'a' && mixed[i] <= 'z' {
				mixed[i] -= 32
			}
		}
		names = append(names, string(mixed))
	}
	names = append(names, ordinary...)
	names = append(names, "x-request-id", "authorization-extra", "Cookies")
	slices.Sort(names)
	names = slices.Compact(names)
	sens := make([]string, len(sensitive))
	for i, s := range sensitive {
		sens[i] = tlaChars(s)
	}
	gen := fmt.Sprintf("---- MODULE Gen_Recovery ----\nGenHeaderNames == %s\nGenSensitive == {%s}\n====\n", tlaSeqOfChars(names), strings.Join(sens, ", "))
	var evals atomic.Int64
	res := r.runTLC(tlcOpts{Module: "MC_Recovery", Gen: map[string]string{"Gen_Recovery.tla": gen}, Timeout: 5 * time.Minute,
		OnVec: func(b []byte) {
			var v recVec
			if err := json.Unmarshal(b, &v); err != nil {
				failTool("bad vector: %v", err)
			}
			if v.Class == "brokenPipe" {
				r.sample(map[string]any{"class": v.Class, "cases": v.Cases, "headers": v.Headers[:6]})
			}
			replayRecVec(r, v, &evals)
		}})
	res.mustClean("MC_Recovery")
	r.addCov("states", res.Distinct)
	r.addCov("transitions", res.Generated)
	r.addCov("traces_validated_against_impl", evals.Load())
	r.addCov("evaluations", evals.Load()*int64(len(names)))
	r.addCov("header_name_variants", int64(len(names)))
	r.setCov("exhaustive", true)
	r.assumption("panics inside managed transaction functions are covered by C04 (FnPanic after every prefix)")
	r.assumption("a *net.OpError that is itself wrapped in another error is outside the generated classes (the statement leaves it open)")
}

func init() {
	register("C15", checkC15)
	register("C19", checkC19)
	register("C20", checkC20)
}

// yieldingHandler is a capturing slog handler whose Enabled gives other goroutines a chance to run: whatever the
// Logger middleware prepared before asking must still be its own when the record is built.
type yieldingHandler struct{ captureHandler }

func (h *yieldingHandler) Enabled(context.Context, slog.Level) bool {
	runtime.Gosched()
	runtime.Gosched()
	return true
}

// runLoggerConcurrent: many requests at once on the SAME route (and on the same 404 handler), each with its own path and
// status; every record must describe one request: the status, the host and the path it carries belong together.
func runLoggerConcurrent(r *Run) {
	capH := &yieldingHandler{}
	status := func(id int) int { return []int{200, 201, 302, 404, 500}[id%5] }
	rt, err := fox.New(fox.WithMiddleware(fox.LoggerWithHandler(capH)), fox.WithNoRouteHandler(func(c fox.Context) {
		id, _ := strconv.Atoi(c.QueryParam("id"))
		c.Writer().WriteHeader(status(id))
	}))
	if err != nil {
		failTool("fox.New: %v", err)
	}
	rt.MustHandle("GET", "/l/{id}", func(c fox.Context) {
		id, _ := strconv.Atoi(c.Param("id"))
		c.Writer().WriteHeader(status(id))
	})
	const G, N = 8, 150
	var wg sync.WaitGroup
	for g := 0; g < G; g++ {
		wg.Add(1)
		go func(g int) {
			defer wg.Done()
			for n := 0; n < N; n++ {
				id := g*N + n
				path, q := fmt.Sprintf("/l/%d", id), ""
				if n%3 == 0 {
					path, q = fmt.Sprintf("/none/%d", id), fmt.Sprintf("id=%d", id)
				}
				req, _ := newRequest("GET", fmt.Sprintf("h%d.example", id), path, q)
				rt.ServeHTTP(newPlainWriter(), req)
			}
		}(g)
	}
	wg.Wait()
	recs := capH.take()
	r.addCov("concurrent_logger_records", int64(len(recs)))
	if len(recs) != G*N {
		r.violation("logger concurrent: records lost or duplicated", map[string]any{"kind": "behaviour", "prescribed": G * N, "obtained": len(recs)})
		return
	}
	for _, rc := range recs {
		p := rc.Attrs["path"]
		id, err := strconv.Atoi(p[strings.LastIndexByte(p, '/')+1:])
		want := fmt.Sprintf("status=%d host=h%d.example", status(id), id)
		got := fmt.Sprintf("status=%s host=%s", rc.Attrs["status"], rc.Attrs["host"])
		if err != nil || got != want {
			r.violation("logger concurrent: a record mixes two requests", map[string]any{"kind": "behaviour", "path": p, "prescribed": want, "obtained": got})
			return
		}
	}
}
