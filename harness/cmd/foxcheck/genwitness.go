package main

import (
	"encoding/json"
	"fmt"
	"math/rand"
	"os"
	"path/filepath"
	"regexp"
	"slices"
	"sort"
	"strings"
	"time"
)

// `foxcheck --genwitness` regenerates spec/witness_tables.json: for every rule switch of the modelled walk
// (spec/FoxLookup.tla) TLC is run with that one rule off and reports EVERY table of at most two patterns and request on
// which the walk then differs from the reference matcher. A selection of those tables (one per shape, a few per rule)
// is kept; gen_match.go loads them as permanent replay tables of the matcher families (C01, C08, C09, C16), so that a
// change of the real walk that amounts to dropping or narrowing one of its rules meets a table on which the rule matters.

type witnessTable struct {
	Rule     string      `json:"rule"`
	Mode     string      `json:"mode"`
	Table    []string    `json:"table"`
	Requests [][2]string `json:"requests"` // host, path
}

var reShapeName = regexp.MustCompile(`\{[a-z]+\}`)

func tableShape(t []string) string {
	var parts []string
	for _, p := range t {
		s := reShapeName.ReplaceAllString(p, "{}")
		s = strings.Map(func(r rune) rune {
			if r >= 'a' && r <= 'z' {
				return 'a'
			}
			return r
		}, s)
		for strings.Contains(s, "aa") {
			s = strings.ReplaceAll(s, "aa", "a")
		}
		parts = append(parts, s)
	}
	sort.Strings(parts)
	return strings.Join(parts, " ")
}

func genWitness() int {
	r := newRun("genwitness", "thorough", 1)
	defer r.cleanup()
	rng := rand.New(rand.NewSource(1))
	gp := newLookupGen(r, rng, 0, 2, 5)
	gh := newLookupHostGen(r, rng, 0, 2, 3)
	var all []witnessTable
	for _, off := range lookupFixes {
		for _, mode := range []string{"path", "host"} {
			if m := lookupFixMode[off]; m != "both" && m != mode {
				continue
			}
			// tables of at most two patterns first; rules that need more get three, then the hand-made larger tables
			for attempt := 0; attempt < 3; attempt++ {
				g := *gp
				if mode == "host" {
					g = *gh
				}
				switch attempt {
				case 0:
					g.MaxTab, g.Extra = 2, nil
				case 1:
					g.MaxTab, g.Extra = 3, nil
				default:
					g.MaxTab = 1
				}
				g.Collect = true
				g.Fixes = nil
				for _, f := range lookupFixes {
					if f != off {
						g.Fixes = append(g.Fixes, f)
					}
				}
				type hit struct {
					T []int `json:"t"`
					H int   `json:"h"`
					P int   `json:"p"`
				}
				byTable := map[string]*witnessTable{}
				var order []string
				res := r.runTLC(tlcOpts{Module: "MC_Lookup", Tag: fmt.Sprintf("-collect-%s-%s-%d", mode, off, attempt), Gen: map[string]string{"Gen_Lookup.tla": g.tla()}, Timeout: 30 * time.Minute,
					OnVec: func(b []byte) {
						var h hit
						if json.Unmarshal(b, &h) != nil {
							return
						}
						var t []string
						for _, i := range h.T {
							t = append(t, g.Pool[i-1])
						}
						sort.Strings(t)
						k := strings.Join(t, " ")
						w := byTable[k]
						if w == nil {
							w = &witnessTable{Rule: off, Mode: mode, Table: t}
							byTable[k] = w
							order = append(order, k)
						}
						host := ""
						if len(g.Hosts) >= h.H && mode == "host" {
							host = g.Hosts[h.H-1]
						}
						req := [2]string{host, g.Paths[h.P-1]}
						if len(w.Requests) < 3 && !slices.Contains(w.Requests, req) {
							w.Requests = append(w.Requests, req)
						}
					}})
				res.mustClean("MC_Lookup collect " + off)
				sort.Slice(order, func(i, j int) bool { // small tables and short patterns first
					a, b := byTable[order[i]], byTable[order[j]]
					if len(a.Table) != len(b.Table) {
						return len(a.Table) < len(b.Table)
					}
					if len(order[i]) != len(order[j]) {
						return len(order[i]) < len(order[j])
					}
					return order[i] < order[j]
				})
				seen := map[string]bool{}
				kept := 0
				for _, k := range order {
					w := byTable[k]
					sh := tableShape(w.Table)
					if seen[sh] || kept >= 8 {
						continue
					}
					seen[sh] = true
					kept++
					all = append(all, *w)
				}
				outf("%s (%s, attempt %d): %d tables with a disagreement, %d shapes kept\n", off, mode, attempt, len(order), kept)
				if kept > 0 {
					break
				}
				if attempt == 2 {
					outf("no witness for rule %s in %s mode\n", off, mode)
					return exitTool
				}
			}
		}
	}
	b, _ := json.MarshalIndent(all, "", " ")
	if err := os.WriteFile(filepath.Join(specDir(), "witness_tables.json"), append(b, '\n'), 0o644); err != nil {
		outf("cannot write: %v\n", err)
		return exitTool
	}
	outf("%d witness tables written\n", len(all))
	return exitOK
}

// loadWitnessTables adds the generated witnesses to the permanent tables, paths and hosts of the matcher generators.
func loadWitnessTables() {
	b, err := os.ReadFile(filepath.Join(specDir(), "witness_tables.json"))
	if err != nil {
		return
	}
	var ws []witnessTable
	if json.Unmarshal(b, &ws) != nil {
		return
	}
	have := map[string]bool{}
	for _, t := range awkwardTables {
		s := slices.Clone(t)
		sort.Strings(s)
		have[strings.Join(s, " ")] = true
	}
	for _, w := range ws {
		if k := strings.Join(w.Table, " "); !have[k] {
			have[k] = true
			awkwardTables = append(awkwardTables, w.Table)
		}
		for _, rq := range w.Requests {
			if rq[0] != "" && !slices.Contains(awkwardHosts, rq[0]) {
				awkwardHosts = append(awkwardHosts, rq[0])
			}
			if !slices.Contains(awkwardPaths, rq[1]) {
				awkwardPaths = append(awkwardPaths, rq[1])
			}
		}
	}
}

func init() { loadWitnessTables() }
