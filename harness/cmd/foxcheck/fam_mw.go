package main

import (
	"encoding/json"
	"fmt"
	"math/rand"
	"os"
	"path/filepath"
	"slices"
	"strings"
	"sync"
	"sync/atomic"
	"time"

	"github.com/tigerwill90/fox"
)

type mwLog struct {
	enter, exit []string
}

type mwLogKey struct{}

func mwTracer(id string) fox.MiddlewareFunc {
	return func(next fox.HandlerFunc) fox.HandlerFunc {
		return func(c fox.Context) {
			l, _ := c.Request().Context().Value(mwLogKey{}).(*mwLog)
			if l != nil {
				l.enter = append(l.enter, id)
			}
			next(c)
			if l != nil {
				l.exit = append(l.exit, id)
			}
		}
	}
}

var mwScopeSets = [][]string{{"route"}, {"noroute"}, {"nomethod"}, {"redirect"}, {"options"},
	{"route", "noroute", "nomethod", "redirect", "options"}, {"route", "noroute"}, {"nomethod", "redirect", "options"}}

func scopeMask(kinds []string) fox.HandlerScope {
	var m fox.HandlerScope
	for _, k := range kinds {
		switch k {
		case "route":
			m |= fox.RouteHandler
		case "noroute":
			m |= fox.NoRouteHandler
		case "nomethod":
			m |= fox.NoMethodHandler
		case "redirect":
			m |= fox.RedirectHandler
		case "options":
			m |= fox.OptionsHandler
		}
	}
	return m
}

type mwVec struct {
	Sc       []int      `json:"sc"`
	Nr       int        `json:"nr"`
	Nu       int        `json:"nu"`
	Def      bool       `json:"def"`
	Chains   [][]string `json:"chains"`
	Updated  []string   `json:"updated"`
	Handle   []string   `json:"handle"`
	HandleMw []string   `json:"handlemw"`
}

func visibleIDs(ids []string) []string {
	out := []string{}
	for _, id := range ids {
		if id != "recovery" && id != "logger" { // built-in middleware cannot announce itself
			out = append(out, id)
		}
	}
	return out
}

func tracedRequest(r *fox.Router, method, path string) *mwLog {
	req, _ := newRequest(method, "", path, "")
	l := &mwLog{}
	req = req.WithContext(contextWith(req.Context(), mwLogKey{}, l))
	r.ServeHTTP(newPlainWriter(), req)
	return l
}

func mwList(prefix string, n int) ([]string, []fox.MiddlewareFunc) {
	ids := make([]string, n)
	ms := make([]fox.MiddlewareFunc, n)
	for i := range ids {
		ids[i] = fmt.Sprintf("%s%d", prefix, i+1)
		ms[i] = mwTracer(ids[i])
	}
	return ids, ms
}

func replayMwVec(r *Run, v mwVec, rng *rand.Rand, concurrent bool, evals *atomic.Int64) {
	var opts []fox.GlobalOption
	var sharedOpt fox.Option // one option value used twice: as a global option and, below, as a route option
	sharedID := ""
	for i, si := range v.Sc {
		kinds := mwScopeSets[si-1]
		m := mwTracer(fmt.Sprintf("g%d", i+1))
		if len(kinds) == 5 && rng.Intn(2) == 0 {
			o := fox.WithMiddleware(m)
			if sharedOpt == nil {
				sharedOpt, sharedID = o, fmt.Sprintf("g%d", i+1)
			}
			opts = append(opts, o)
		} else {
			opts = append(opts, fox.WithMiddlewareFor(scopeMask(kinds), m))
		}
	}
	if v.Def {
		at := rng.Intn(len(opts) + 1)
		opts = slices.Insert(opts, at, fox.DefaultOptions())
	}
	opts = append(opts, fox.WithNoMethod(true), fox.WithAutoOptions(true))
	rt, err := fox.New(opts...)
	if err != nil {
		failTool("fox.New: %v", err)
	}
	_, rms := mwList("r", v.Nr)
	h := func(c fox.Context) {}
	ropts := []fox.RouteOption{fox.WithRedirectTrailingSlash(true)}
	if len(rms) > 0 || rng.Intn(2) == 0 {
		ropts = append(ropts, fox.WithMiddleware(rms...))
	}
	rt.MustHandle("GET", "/r", h, ropts...)
	// the same route-specific middleware on a route served through an ignored trailing slash, and below a hostname
	iopts := []fox.RouteOption{fox.WithIgnoreTrailingSlash(true)}
	if len(rms) > 0 {
		iopts = append(iopts, fox.WithMiddleware(rms...))
	}
	rt.MustHandle("GET", "/ri/", h, iopts...)
	rt.MustHandle("GET", "mw.example/rh/{x}", h, iopts[1:]...)
	// routes of other shapes (an infix catch-all with its suffix in one node, with a parameter behind it, a parameter, a
	// trailing catch-all), registered like /r and updated like /r further down
	for _, sh := range mwShapedRoutes {
		rt.MustHandle("GET", sh[0], h, ropts[1:]...)
	}
	if sharedOpt != nil {
		rt.MustHandle("GET", "/shared", h, sharedOpt)
	}
	var inner [2]*mwLog
	var innerShared *mwLog
	rt.MustHandle("GET", "/call2", func(c fox.Context) {
		target := c.Fox().Route("GET", "/shared")
		if target == nil {
			return
		}
		l := c.Request().Context().Value(mwLogKey{}).(*mwLog)
		saved := *l
		*l = mwLog{}
		target.HandleMiddleware(c)
		innerShared = &mwLog{enter: l.enter, exit: l.exit}
		*l = saved
	})
	rt.MustHandle("GET", "/call", func(c fox.Context) {
		target := c.Fox().Route("GET", "/r")
		l := c.Request().Context().Value(mwLogKey{}).(*mwLog)
		saved := *l
		*l = mwLog{}
		target.Handle(c)
		inner[0] = &mwLog{enter: l.enter, exit: l.exit}
		*l = mwLog{}
		target.HandleMiddleware(c)
		inner[1] = &mwLog{enter: l.enter, exit: l.exit}
		*l = saved
	})
	desc := map[string]any{"global_scopes": v.Sc, "route_mw": v.Nr, "updated_mw": v.Nu, "default_options": v.Def}
	key := func(what string) string {
		return fmt.Sprintf("middleware scopes=%v route=%d update=%d defaults=%v %s", v.Sc, v.Nr, v.Nu, v.Def, what)
	}
	check := func(what string, want []string, l *mwLog) {
		evals.Add(1)
		want = visibleIDs(want)
		rev := slices.Clone(want)
		slices.Reverse(rev)
		if !slices.Equal(want, nz(l.enter)) || !slices.Equal(rev, nz(l.exit)) {
			r.violation(key(what), map[string]any{"kind": "vector", "config": desc, "handler": what,
				"prescribed": map[string]any{"entered": want, "left": rev}, "obtained": map[string]any{"entered": l.enter, "left": l.exit}})
		}
	}
	reqs := [][3]string{{"route", "GET", "/r"}, {"noroute", "GET", "/nope"}, {"nomethod", "POST", "/r"}, {"redirect", "GET", "/r/"}, {"options", "OPTIONS", "/r"}}
	for i, q := range reqs {
		check(q[0], v.Chains[i], tracedRequest(rt, q[1], q[2]))
	}
	check("route (ignored trailing slash)", v.Chains[0], tracedRequest(rt, "GET", "/ri"))
	{
		req, _ := newRequest("GET", "mw.example", "/rh/1", "")
		l := &mwLog{}
		req = req.WithContext(contextWith(req.Context(), mwLogKey{}, l))
		rt.ServeHTTP(newPlainWriter(), req)
		check("route (hostname)", v.Chains[0], l)
	}
	if sharedOpt != nil {
		globalPart := v.Chains[0][:len(v.Chains[0])-v.Nr]
		check("route using an option value also used globally", append(slices.Clone(globalPart), sharedID), tracedRequest(rt, "GET", "/shared"))
		tracedRequest(rt, "GET", "/call2")
		if innerShared != nil {
			check("Route.HandleMiddleware of that route", []string{sharedID}, innerShared)
		}
	}
	tracedRequest(rt, "GET", "/call")
	if inner[0] == nil {
		r.violation(key("Route.Handle"), map[string]any{"config": desc, "prescribed": "the /call handler runs", "obtained": "it did not"})
		return
	}
	check("Route.Handle", v.Handle, inner[0])
	check("Route.HandleMiddleware", v.HandleMw, inner[1])
	if concurrent {
		// routes created concurrently, each with its own middleware: none may leak into another
		const K = 8
		routes := make([]*fox.Route, K)
		var wg sync.WaitGroup
		for k := 0; k < K; k++ {
			wg.Add(1)
			go func(k int) {
				defer wg.Done()
				_, ms := mwList(fmt.Sprintf("c%d-", k), 1+k%2)
				rte, err := rt.NewRoute(fmt.Sprintf("/c/%d", k), h, fox.WithMiddleware(ms...))
				if err == nil {
					routes[k] = rte
				}
			}(k)
		}
		wg.Wait()
		globalPart := v.Chains[0][:len(v.Chains[0])-v.Nr]
		for k, rte := range routes {
			if rte == nil || rt.HandleRoute("GET", rte) != nil {
				r.violation(key(fmt.Sprintf("concurrent NewRoute %d", k)), map[string]any{"config": desc, "prescribed": "route created", "obtained": "error"})
				continue
			}
			ids, _ := mwList(fmt.Sprintf("c%d-", k), 1+k%2)
			check(fmt.Sprintf("route created concurrently #%d", k), append(slices.Clone(globalPart), ids...), tracedRequest(rt, "GET", fmt.Sprintf("/c/%d", k)))
		}
	}
	// Update replaces the route-specific middleware
	_, ums := mwList("u", v.Nu)
	if _, err := rt.Update("GET", "/r", h, fox.WithMiddleware(ums...), fox.WithRedirectTrailingSlash(true)); err != nil {
		r.violation(key("Update"), map[string]any{"config": desc, "prescribed": "update accepted", "obtained": err.Error()})
		return
	}
	check("route after Update", v.Updated, tracedRequest(rt, "GET", "/r"))
	for _, sh := range mwShapedRoutes {
		check("route "+sh[0], v.Chains[0], tracedRequest(rt, "GET", sh[1]))
		for k := 0; k < 2; k++ { // twice: the second update starts from an updated node
			if _, err := rt.Update("GET", sh[0], h, fox.WithMiddleware(ums...)); err != nil {
				r.violation(key("Update "+sh[0]), map[string]any{"config": desc, "prescribed": "update accepted", "obtained": err.Error()})
				return
			}
			check("route "+sh[0]+" after Update", v.Updated, tracedRequest(rt, "GET", sh[1]))
		}
	}
}

var mwShapedRoutes = [][2]string{{"/files/*{p}/raw", "/files/a/b/raw"}, {"/img/*{n}/thumb/{s}", "/img/a/thumb/9"}, {"/u/{id}", "/u/7"}, {"/cat/*{rest}", "/cat/a/b"}}

func nz(s []string) []string {
	if s == nil {
		return []string{}
	}
	return s
}

func checkC13(r *Run) {
	scopes := make([]string, len(mwScopeSets))
	for i, s := range mwScopeSets {
		scopes[i] = tlaStrSet(s)
	}
	gen := fmt.Sprintf("---- MODULE Gen_Middleware ----\nGenScopes == <<%s>>\nGenMaxGlobal == %d\n====\n", strings.Join(scopes, ", "), pick(r, 3, 4))
	var vecs, evals atomic.Int64
	ch := make(chan mwVec, 256)
	var wg sync.WaitGroup
	for k := 0; k < 8; k++ {
		wg.Add(1)
		go func(k int) {
			defer wg.Done()
			rng := rand.New(rand.NewSource(r.Seed*31 + int64(k)))
			for v := range ch {
				n := vecs.Add(1)
				replayMwVec(r, v, rng, n%7 == 0 || len(v.Sc) >= 3 && n%3 == 0, &evals)
				if n == 500 {
					r.sample(v)
				}
			}
		}(k)
	}
	res := r.runTLC(tlcOpts{
		Module:  "MC_Middleware",
		Gen:     map[string]string{"Gen_Middleware.tla": gen},
		Timeout: pick(r, 5*time.Minute, 30*time.Minute),
		OnVec: func(b []byte) {
			var v mwVec
			if err := json.Unmarshal(b, &v); err != nil {
				failTool("bad vector: %v", err)
			}
			ch <- v
		},
	})
	close(ch)
	wg.Wait()
	res.mustClean("MC_Middleware")
	r.addCov("states", res.Distinct)
	r.addCov("transitions", res.Generated)
	r.addCov("traces_validated_against_impl", vecs.Load())
	r.addCov("evaluations", evals.Load())
	r.setCov("exhaustive", true)
	reportRaces(r, "concurrent Router.NewRoute with route-specific middleware")
	r.assumption("the built-in Recovery and Logger of DefaultOptions cannot announce themselves; their position is checked only through the order of the others")
}

// reportRaces turns race-detector reports written during this run into violations.
func reportRaces(r *Run, what string) {
	dir := os.Getenv("FOXCHECK_RACE_LOG")
	if dir == "" {
		r.assumption("race detector not active in this run")
		return
	}
	files, _ := filepath.Glob(filepath.Join(dir, "race*"))
	n := 0
	for _, f := range files {
		b, _ := os.ReadFile(f)
		if strings.Contains(string(b), "DATA RACE") {
			n += strings.Count(string(b), "DATA RACE")
			first := string(b)
			if len(first) > 3000 {
				first = first[:3000]
			}
			r.violation("data race during "+what, map[string]any{"kind": "race", "prescribed": "no data race", "obtained": first})
		}
	}
	r.setCov("race_detector_active", true)
	r.addCov("data_race_reports", int64(n))
}

func init() {
	register("C13", checkC13)
	needsHooks["C13"] = true
	needsRace["C13"] = true
}
