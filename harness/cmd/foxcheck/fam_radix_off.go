//go:build !verif

package main

// the structural conformance of the radix layer needs fox.VerifDump (verif build)
func runRadix(r *Run) {}
