#!/usr/bin/env python3
# Regenerates /verif/MANIFEST.json from the table below (kept next to the checks so both change together).
import json, subprocess
props = [json.loads(l) for l in open('/verif/properties.jsonl')]
ids = [p['id'] for p in props]
MC = "model_checking"
claimed = {
 "C01": (MC, "TLC exhausts the reference matcher (spec/FoxMatch.tla) over every conflict-free table of <=3 routes from a seeded pattern pool x every generated request and checks the soundness theorems; every (table, request, prescribed route/params) vector is replayed on the real router through ServeHTTP, Lookup, Reverse, Iter.Reverse on the router and on read and write transactions. The implementation-shaped walk (spec/FoxLookup.tla over the radix nodes of spec/FoxRadix.tla) is checked by TLC to select what the reference matcher selects; recorded lookups on large random tables are validated by TLC (Obs_Match).",
         "TLC-enumerated matcher vectors replayed on the real router (spec -> code conformance)", "5"),
 "C02": (MC, "TLC explores every history of Handle/HandleRoute/Update/UpdateRoute/Delete over a pool (valid, conflicting and malformed patterns, valid and invalid methods) and of transactions with Truncate; every edge of the state graph is replayed on a fresh router along the BFS path to its source state, the call result (error class, conflict list, returned route) and every read (Len, Has, Route, All, Methods, Routes, Prefix, Reverse, Lookup) compared with the specification.",
         "TLC state graph of the registration API replayed edge by edge on the real router", "5"),
 "C03": (MC, "TLC checks SnapshotFrozen on the router machine with a write/read transaction and a snapshot handle (Router.Iter, Txn.Iter, Txn.Snapshot, read-only Txn); every edge is replayed and every live snapshot object re-read in full after the later call. spec/FoxCow.tla models the copy-on-write heap (nodes and children slices with identities, the transaction's writable set, snapshots); TLC checks over the whole state space of the mechanism that no write touches anything reachable from a published root or a snapshot and refutes six wrong variants; every transition is replayed on the real router, snapshots are re-read through the API, and the dumped trees and their sharing (node and slice addresses) are compared with the model's. spec/FoxRoots.tla does the same for the roots slice (one entry per method; Truncate, root add/remove).",
         "TLC state graph with snapshots replayed on the real router, snapshots re-observed after every later step", "5"),
 "C04": (MC, "TLC checks PublishOnlyAtCommit, WritesArePrivate, AbortLeavesNothing, FailedCallNoEffect and LockDiscipline over all transactions of bounded length with every ending (commit, abort, returned error, panic, settled use, read-only writes); every edge is replayed with Router.Txn, Updates and View and the router and the transaction are read back between steps.",
         "TLC state graph of transactions (all endings) replayed on the real router", "5"),
 "C07": (MC, "In the specification the reply is a function of the registered set; the exhaustive state graph supplies every bounded history into each set, each is replayed on its own router and must answer the probes exactly as prescribed for the set. spec/FoxRadix.tla models the tree surgery of tree.go; TLC checks that the tree is a function of the set (Canonicity) and refines FoxRoutes, and every transition is replayed with the real tree (fox.VerifDump) compared node for node with the model's; on a structural difference routing is compared with a fresh router holding the same set.",
         "all TLC histories into each registered set replayed and probed on the real router", "5"),
 "C08": (MC, "TLC exhausts the trailing-slash rule of FoxMatch (incl. the irrelevance theorem) and the dispatch table of FoxServe over tables x options x methods x requests; vectors are replayed through every lookup entry point and through ServeHTTP (status, resolved Location, query, handler, params). The node-level walk of spec/FoxLookup.tla (first-found trailing-slash candidate, backtracking) is checked by TLC against the reference; whole replies for percent-encoded paths are recorded and validated by TLC (Obs_Serve).",
         "TLC-enumerated tsr and dispatch vectors replayed on the real router", "5"),
 "C09": (MC, "TLC exhausts the host stage of FoxMatch over tables mixing hostname and path-only patterns x hosts (exact, port, trailing dot, extended, truncated, literals, empty); vectors replayed through every entry point.",
         "TLC-enumerated hostname vectors replayed on the real router", "5"),
 "C05": (MC, "TLC explores every interleaving of writer programs (one-call writes, multi-route transactions, commits and aborts) with lock-free readers at the granularity of the implementation's verification points and checks MutualExclusion, NoLostUpdate, AppendOnly, StepwiseSerial, MonotoneReads; negative variants (load before lock, unlock before store) must be refuted. Every edge of the schedule graph is replayed on real goroutines parked at the hook gates; published state and call results are compared after every step. The reduced protocol spec/FoxProto.tla has its invariant proved inductive with TLAPS for any number of writers and versions (and checked with Apalache); TLC checks that FoxConc refines it.",
         "TLC schedule graph replayed on real goroutines through gate hooks (+ race-detector stress validated by a trace specification)", "5"),
 "C06": (MC, "TLC checks ReadsNeverWait (ENABLED of every read step in every reachable state, whoever holds the lock) and ReaderProgress under fairness on reader steps only; every reader edge of the schedule graph is replayed through ten read entry points while the writers stay parked at every verification point, and a blocked second writer must not pass the lock.",
         "parked-writer schedules from TLC replayed through every read entry point", "5"),
 "C10": (MC, "TLC evaluates the grammar predicate of spec/FoxPattern.tla (written on the character sequence, not as the parser's state machine) on every string over {/ a . { } * - 1} up to a bounded length under three parameter-limit configurations and checks the routability theorem for every accepted pattern; the real registration must accept exactly the listed strings (Handle, NewRoute, Delete agree, never a panic) and route every instantiation with the prescribed parameters. Long random patterns around the 63/255 limits are recorded from the real code and validated by TLC (Obs_Pattern); arbitrary bytes for crash-freedom.",
         "TLC-enumerated grammar verdicts and instantiations replayed on the real router; recorded verdicts validated by TLC", "5"),
 "C12": (MC, "The context pool is modelled as a set of stale contexts any request may pick from (spec/FoxContext.tla); the observation prescribed for a request shape mentions only the request's own token, and ClonesStable is checked by TLC. TLC enumerates every sequence of at most three request shapes (direct, ignored trailing slash, redirect, 404/405/OPTIONS, manual Lookup, Lookup+Clone, CloneWith, Clone) with and without a tree replacement before each; each is replayed with GOMAXPROCS(1) and a unique token in every observable field, every getter is read at handler entry, clones are re-read after every later request, then the sequences are mixed from 16 goroutines.",
         "TLC-enumerated request-shape sequences replayed with per-request tokens in every observable field", "5"),
 "C13": (MC, "TLC enumerates every configuration of global middleware (scope masks, DefaultOptions) x route lists x replacement lists, checks the each-once and route-specific-inside theorems of spec/FoxMiddleware.tla and prescribes the chain of each handler kind; identity-tracing middleware on the real router must be entered and left in exactly that order for the five kinds, after Update, through Route.Handle/HandleMiddleware, and for routes created concurrently (harness built with -race; a race report is a violation).",
         "TLC-enumerated middleware configurations replayed with tracing middleware; concurrent NewRoute under the race detector", "5"),
 "C14": (MC, "TLC explores every call sequence up to a bound on the recorder model (WriteHeader incl. informational/101/repeated, Write/WriteString fully/partially/not accepted, ReadFrom with failing source or destination, Flush, Hijack, capability calls, String/Blob/Stream/Redirect) for four capability sets of the underlying writer and checks AtMostOneFinal, StatusIsFirstFinal, SizeIsAccepted, WrittenIff, NoHeaderAfterBody; every edge is replayed on the real recorder over purpose-built underlying writers that log what they receive and fail on demand.",
         "TLC state graph of the response recorder replayed over fault-injecting underlying writers", "5"),
 "C15": (MC, "TLC enumerates panic class x response progress and prescribes re-panic, client response and logging (spec/FoxRecovery.tla), and decides redaction for every capitalisation of the sensitive header names through the canonicalisation operator; each case is replayed with real panic values (http.ErrAbortHandler, wrapped, net.OpError/EPIPE/ECONNRESET, errors, strings, nil, custom) raised in route handlers, inner middleware and the special handlers; the captured diagnostic record, the response, the escaped panic and the usability of the router afterwards are compared. Panics inside managed transactions are the FnPanic edges of C04.",
         "TLC-enumerated panic cases replayed on the real Recovery middleware with a capturing log handler", "5"),
 "C16": ("exploration", "The specification cannot express heap allocation; it supplies the scenarios: MC_Match enumerates tables and requests (deep backtracking, infix catch-alls, hostnames with ports, many parameters) and prescribes which requests are served by a route, directly or through an ignored trailing slash. For each such request the allocations of ServeHTTP are measured with testing.AllocsPerRun after warm-up, with an allocation-free handler and writer and the GC paused; any non-zero count is a violation. The number is measured by the Go runtime, not decided by the model, hence exploration.",
         "TLC-generated serving scenarios measured with testing.AllocsPerRun", "5, 11"),
 "C17": (MC, "TLC checks idempotence, canonicity, fixed point and the trailing-slash rule of the reference Clean on every string over {/ . a % rune} up to a bounded length and emits (input, canonical form) pairs compared with fox.CleanPath; long random inputs crossing the 128-byte buffer are recorded from the real code and validated by TLC (Obs_Clean).",
         "TLC-enumerated CleanPath vectors replayed; recorded outputs validated by TLC", "5"),
 "C18": (MC, "TLC enumerates every abstract header (lines x entries over the classes public, private-net, loopback, custom-range, junk, unspecified, empty), prescribes the designated entry for every strategy and parameter (spec/FoxClientIP.tla) and checks the prefix-independence theorem for every attacker prefix; each header is concretised from a rendering table (ports, brackets, zones, quotes, Forwarded parameters, whitespace) labelled with the address it denotes, and resolved through a real Context for X-Forwarded-For and Forwarded. The built-in range tables are read through a verif accessor and every range validated by TLC against the non-global blocks (Obs_Ranges).",
         "TLC-enumerated abstract headers concretised and resolved by the real resolvers; default ranges validated by TLC", "5"),
 "C19": (MC, "TLC folds every sequence of global options x route options (repeated, contradictory, nil resolver, invalid annotation keys) with last-wins semantics (spec/FoxOptions.tla) and prescribes the route configuration, the error class and the resolver in force per handler kind; replayed through New/Handle/NewRoute/Update, the Route accessors, Stats and Context.ClientIP inside every handler kind; plus accessor consistency for patterns tokenised by FoxPattern and a table of invalid options that must return errors, never panic.",
         "TLC-enumerated option sequences replayed on the real router and routes", "5"),
 "C20": (MC, "TLC enumerates handler behaviour (status classes and boundaries, implicit 200, nothing written, Location) x resolver configuration (none/ok/failing, per-route override) x handler kind and prescribes the record (spec/FoxLogger.tla); replayed with a capturing slog handler: exactly one record after the handler, level, message, attributes, location, response identical with and without the middleware, panics pass through.",
         "TLC-enumerated logger cases replayed with a capturing slog handler", "5"),
 "C11": (MC, "TLC exhausts FoxServe!Reply over tables on several methods x the four option combinations x per-route trailing-slash options x requests (incl. OPTIONS *); status, handler kind, Allow (as a set) and the context of special handlers are compared through ServeHTTP.",
         "TLC-enumerated dispatch vectors (404/405/OPTIONS/Allow) replayed through ServeHTTP", "5"),
}
pending_reason = "check not built yet (build round in progress); will be claimed once its TLA+ module and conformance harness are committed"
checks = []
for i in ids:
    if i in claimed:
        lvl, text, tech, ref = claimed[i]
        note = "The TLA+ model is checked exhaustively for small constants; the code is tested against it (every emitted vector/edge). Trusted: TLC, the Go toolchain, net/url for Location resolution, the harness projection functions."
        if lvl == "exploration":
            note = "Scenario enumeration comes from the TLA+ matcher model; the allocation count is an observation of the Go runtime. Trusted: testing.AllocsPerRun, TLC, the Go toolchain."
        checks.append({
          "property_id": i,
          "quick_cmd": f"bin/check {i} --tier quick",
          "thorough_cmd": f"bin/check {i} --tier thorough",
          "evidence_file": f"/verif/evidence/{i}.json",
          "replay_cmd_template": f"bin/check {i} --replay {{path}}",
          "engine": "tlc+go-replay",
          "level_claimed": {"category": lvl, "text": text, "design_ref": "DESIGN.md section " + ref},
          "level_note": note,
          "technique": tech,
        })
hooks = subprocess.run(["git","-C","/repo","log","--format=%h","--grep=^verif:"],capture_output=True,text=True).stdout.split()
m = {"version": 1,
     "setup_cmd": "bin/check --setup",
     "hooks": {"guard": "verif", "enable": "go build -tags verif (bin/check builds the harness with and without the tag)",
               "baseline_off_cmd": "cd /repo && GOFLAGS=-mod=mod GOPROXY=off go test -vet=off -count=1 ./...",
               "source_commits": hooks, "add_only": True},
     "engines": [{"name": "tlc+go-replay", "path": "/verif/bin/check", "serves_properties": sorted(claimed),
                  "kind_free_text": "explicit TLA+ specification under /verif/spec checked by TLC; behaviours/vectors emitted by TLC are replayed on the real fox code and traces recorded from the real code are validated by TLC"}],
     "checks": checks,
     "not_applicable": [{"property_id": i, "reason": pending_reason} for i in ids if i not in claimed],
     "notes": "See DESIGN.md. Fixed defects are listed in known_findings.jsonl."}
json.dump(m, open('/verif/MANIFEST.json','w'), indent=1)
print("claimed", len(checks), "pending", len(ids)-len(checks))
