#!/usr/bin/env python3
"""mutstore.py <agent _out dir> <k> <seeded id> : run mutverify.py and, if every point is confirmed, store the change
under seeded/<id>/ (patch.diff, demo_test.go, meta.json with the confirmation)."""
import json, os, shutil, subprocess, sys
out, k, sid = sys.argv[1], sys.argv[2], sys.argv[3]
here = os.path.dirname(os.path.abspath(__file__))
p = subprocess.run([sys.executable, os.path.join(here, "mutverify.py"), out, k], capture_output=True, text=True)
print(p.stdout.strip()[-600:])
if p.returncode != 0:
    print("NOT CONFIRMED, not stored"); sys.exit(1)
dst = os.path.join(here, "..", "seeded", sid); os.makedirs(dst, exist_ok=True)
shutil.copy(os.path.join(out, f"patch{k}.diff"), os.path.join(dst, "patch.diff"))
shutil.copy(os.path.join(out, f"demo{k}_test.go"), os.path.join(dst, "demo_test.go"))
mp = os.path.join(out, f"meta{k}.json")
meta = json.load(open(mp)) if os.path.exists(mp) else {"property": sid.split("-")[0]}
meta["confirmed"] = {"applies": True, "builds_with_and_without_verif_tag": True, "existing_suite_passes": True,
                     "demo_fails_with_change": True, "demo_passes_without": True,
                     "how": "bin/mutverify.py in a scratch worktree of /repo HEAD"}
meta["origin"] = "fresh sub-agent given only the property text and its own worktree (second round)"
json.dump(meta, open(os.path.join(dst, "meta.json"), "w"), indent=1)
print("stored", sid)
