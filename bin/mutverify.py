#!/usr/bin/env python3
"""mutverify.py <agent _out dir> <k> : confirm a seeded change independently in a scratch worktree:
applies cleanly, builds (with and without -tags verif), whole suite passes, demo fails with / passes without."""
import os, re, subprocess, sys, shutil, json
out, k = sys.argv[1], sys.argv[2]
patch = os.path.join(out, f"patch{k}.diff"); demo = os.path.join(out, f"demo{k}_test.go")
wt = f"/tmp/mutv-{os.getpid()}"
env = dict(os.environ, GOFLAGS="-mod=mod", GOPROXY="off")
def sh(cmd, cwd=wt, timeout=900):
    p = subprocess.run(cmd, shell=True, cwd=cwd, env=env, capture_output=True, text=True, timeout=timeout)
    return p.returncode, (p.stdout + p.stderr)
res = {}
subprocess.run(["git", "-C", "/repo", "worktree", "add", "-q", "--detach", wt, "HEAD"], check=True)
try:
    rc, o = sh(f"git apply --check {patch} && git apply {patch}")
    res["applies"] = rc == 0
    if rc != 0: print(o[-500:]); raise SystemExit
    rc, o = sh("go build ./... && go build -tags verif ./...")
    res["builds"] = rc == 0
    rc, o = sh("go test -vet=off -count=1 ./... 2>&1 | tail -15")
    res["suite_passes"] = rc == 0 and "FAIL" not in o
    if not res["suite_passes"]: print(o[-800:])
    src = open(demo).read()
    m = re.search(r"//\s*dir:\s*(\S+)", src); d = m.group(1) if m else "."
    tests = re.findall(r"func (Test\w+)\(", src)
    dst = os.path.join(wt, d, "zz_demo_test.go"); shutil.copy(demo, dst)
    run = "go test -vet=off -count=1 -run '^(%s)$' ./%s 2>&1 | tail -30" % ("|".join(tests), d)
    rc, o = sh(run)
    res["demo_fails_with_change"] = ("FAIL" in o)
    res["demo_output_with_change"] = o[-400:]
    os.remove(dst)
    sh("git checkout -- . ")
    shutil.copy(demo, dst)
    rc, o = sh(run)
    res["demo_passes_without"] = ("FAIL" not in o) and ("ok" in o)
    if not res["demo_passes_without"]: print(o[-600:])
finally:
    subprocess.run(["git", "-C", "/repo", "worktree", "remove", "--force", wt])
print(json.dumps({k: v for k, v in res.items() if k != "demo_output_with_change"}))
ok = all(res.get(x) for x in ["applies", "builds", "suite_passes", "demo_fails_with_change", "demo_passes_without"])
sys.exit(0 if ok else 1)
