#!/usr/bin/env python3
"""Regenerates the generated part of seeded/README.md (rounds 2 and later) from seeded/*/meta.json and seeded/matrix.txt."""
import json, os, re
root = os.path.join(os.path.dirname(os.path.abspath(__file__)), "..", "seeded")
mat = {}
for l in open(os.path.join(root, "matrix.txt")):
    m = re.match(r"(\S+):", l)
    if m:
        mat[m.group(1)] = re.findall(r"(C\d\d) (CAUGHT|MISSED|TOOL)", l)
rows, n, allc, own = [], 0, 0, 0
for d in sorted(os.listdir(root), key=lambda x: [int(t) if t.isdigit() else t for t in re.split(r"(\d+)", x)]):
    m = re.match(r"(C\d\d)-(\d+)$", d)
    if not m:
        continue
    res = mat.get(d, [])
    caught = [c for c, r in res if r == "CAUGHT"]
    missed = [c for c, r in res if r != "CAUGHT"]
    n += 1
    allc += bool(caught)
    own += m.group(1) in caught
    if int(m.group(2)) < 3:
        continue
    meta = json.load(open(os.path.join(root, d, "meta.json")))
    def short(s, k):
        s = " ".join(s.split()).replace("|", "\\|")
        return s if len(s) <= k else s[:k - 3] + "..."
    rows.append(f"| {d} | {m.group(1)} | {short(meta.get('summary',''), 200)} | {short(meta.get('needs',''), 230)} | {', '.join(caught) or '-'} | {', '.join(missed) or '-'} |")
rev = [k for k in mat if k.startswith("revert-")]
revc = sum(1 for k in rev if any(r == "CAUGHT" for _, r in mat[k]))
p = os.path.join(root, "README.md")
s = open(p).read()
marker = "## Rounds 2"
if marker in s:
    s = s[:s.index(marker)]
s = s.rstrip("\n") + f"""

## Rounds 2 to 6 (`-3` ... `-10`)

Written by fresh sub-agents under the same conditions as round 1, additionally given the one-paragraph summaries of the
earlier changes for the same property (from `meta.json`, i.e. written by earlier sub-agents) so that theirs differ in
mechanism and location. Round 2 (`-3`, `-4`): C01-C05, C08, C14, C18; round 3 (`-3`, `-4`): the other twelve properties;
rounds 4 (`-5`, `-6`), 5 (`-7`, `-8`) and 6 (the last two of every property; `_rejected/C19-9` was set aside, DESIGN.md
13.14): all twenty; round 7 (`-11`, `C07-10`): fourteen properties, one change each (DESIGN.md
13.15). Each confirmed with `bin/mutverify.py` and stored with
`bin/mutstore.py`. About half of every round was missed by the check of its own property when it arrived; DESIGN.md 13.9,
13.11, 13.12, 13.14 and 13.15 list what each miss changed in the machinery. The table shows the state after that strengthening (last
full matrix run, quick tier, VERIF_SEED=1). "not caught by" lists the checks that were tried and do not see the change
(for neighbouring properties that is expected: the change does not break them, or only through a history they do not
build).

| change | property | what it does | what it needs | caught by | not caught by |
|--------|----------|--------------|---------------|-----------|---------------|
""" + "\n".join(rows) + f"""

Summary of the last full run: {n} changes written by sub-agents and {len(rev)} reverse patches of `fix:` commits;
{allc} of the {n} are caught by at least one check ({own} by the check of their own property), {revc} of the {len(rev)}
reverse patches are caught.
"""
open(p, "w").write(s)
print(n, "changes,", allc, "caught,", own, "by own property")
