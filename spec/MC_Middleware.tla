--------------------------- MODULE MC_Middleware ---------------------------
(* Every configuration of at most GenMaxGlobal global entries (scope masks *)
(* from GenScopes) x route lists x replacement lists x DefaultOptions.     *)
EXTENDS FoxMiddleware, FoxStrings, Gen_Middleware, TLC, Json, SequencesExt

VARIABLES cfg, done

\* a configuration: scopes of the global entries (ids g1, g2, ... by position), route list length, updated length
GIds == <<"g1", "g2", "g3", "g4">>
RIds == <<"r1", "r2">>
UIds == <<"u1", "u2">>

Configs ==
  {[sc |-> s, nr |-> nr, nu |-> nu, def |-> d] :
      s \in UNION {[1..k -> DOMAIN GenScopes] : k \in 0..GenMaxGlobal}, nr \in 0..2, nu \in 0..2, d \in BOOLEAN}

GOf(c) == [i \in DOMAIN c.sc |-> [id |-> GIds[i], scope |-> GenScopes[c.sc[i]]]]

KindSeq == <<"route", "noroute", "nomethod", "redirect", "options">>

Vec(c) ==
  LET G == EffectiveGlobal(GOf(c), c.def)
      R == SubSeq(RIds, 1, c.nr)
      U == SubSeq(UIds, 1, c.nu)
  IN IF ~(\A k \in Kinds : EachOnce(G, R, k)) \/ ~RouteSpecificInside(G, R)
        THEN Assert(FALSE, <<"middleware theorem fails", c>>)
     ELSE [sc |-> c.sc, nr |-> c.nr, nu |-> c.nu, def |-> c.def,
           chains |-> [i \in DOMAIN KindSeq |-> Chain(G, R, KindSeq[i])],
           updated |-> Chain(G, U, "route"),
           handle |-> HandleChain(R), handlemw |-> HandleMiddlewareChain(R)]

Init == cfg \in Configs /\ done = FALSE
Next == ~done /\ PrintT("VEC" \o ToJson(Vec(cfg))) /\ done' = TRUE /\ UNCHANGED cfg
=============================================================================
