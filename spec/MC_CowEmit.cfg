SPECIFICATION Spec
VIEW view
CONSTANT Variant <- GenVariant
INVARIANTS NothingFrozenIsTouched WritablePrivate Refines PublishedCanonical
CONSTRAINT Bounded
ACTION_CONSTRAINT EmitEdge
CHECK_DEADLOCK FALSE
