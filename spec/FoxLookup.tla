----------------------------- MODULE FoxLookup -----------------------------
(* Implementation-shaped model of the request matcher (node.go,             *)
(* lookupByPath): the explicit-stack depth-first walk over the radix nodes  *)
(* of FoxRadix, with the skipped-node stack used for backtracking, the      *)
(* saved parameter counts, the recursive sub-lookups of infix catch-alls    *)
(* and the first-found trailing-slash candidate kept on the side.           *)
(*                                                                          *)
(* FoxMatch says WHAT must be selected; this module says HOW the            *)
(* implementation finds it.  MC_Lookup checks on a bounded domain that the  *)
(* two agree for every tree FoxRadix builds and every path, which is the    *)
(* design-level statement behind C01 / C08: the walk, with its priorities   *)
(* and its bookkeeping, computes the documented selection.  The defects     *)
(* F1, F3, F4, F5, F6 and F16 of DESIGN.md are all disagreements between    *)
(* this walk (as it was) and FoxMatch; the guards marked [Fn] below are the *)
(* repairs.  The hostname walk (lookupByDomain) is modelled the same way,    *)
(* with F2, the hostname form of F1, and F18 (a Host with a slash is no      *)
(* hostname: it is left to the path-only routes).                           *)
(*                                                                          *)
(* Positions are counts of characters already consumed (cm in the path,     *)
(* cmn in the key of the current node), so "path[cm]" of the Go code is     *)
(* path[cm + 1] here.                                                       *)
EXTENDS FoxRadix, Integers

\* the repairs (F..) and the rules of the walk (T.. keep the first trailing-slash candidate, S.. remember the skipped
\* alternatives, P1 drop the parameters of an abandoned branch) that are in force; removing any one must make MC_Lookup
\* find a disagreement with FoxMatch, and the table and request it finds become permanent replay vectors
CONSTANT Fixes
On(f) == f \in Fixes

\* ---- what newNode precomputes for a node ------------------------------------------------------------
\* wildcards of a key, in order: [name, end (number of key characters up to and including "}", 0 when the key
\* ends there), cat]
RECURSIVE KeyParams(_, _)
KeyParams(key, i) ==
  IF i > Len(key) THEN <<>>
  ELSE IF key[i] = "{" \/ (key[i] = "*" /\ i < Len(key) /\ key[i + 1] = "{") THEN
       LET open == IF key[i] = "{" THEN i ELSE i + 1
           close == IndexFrom(key, "}", open)
       IN <<[name |-> SubSeq(key, open + 1, close - 1), end |-> IF close = Len(key) THEN 0 ELSE close, cat |-> key[i] = "*"]>>
          \o KeyParams(key, close + 1)
  ELSE KeyParams(key, i + 1)
ParamsOf(n) == KeyParams(n.k, 1)

ParamChild(n) == IF \E i \in DOMAIN n.c : n.c[i].k[1] = "{" THEN CHOOSE i \in DOMAIN n.c : n.c[i].k[1] = "{" ELSE 0
WildChild(n)  == IF \E i \in DOMAIN n.c : n.c[i].k[1] = "*" THEN CHOOSE i \in DOMAIN n.c : n.c[i].k[1] = "*" ELSE 0
StaticChild(n, ch) == IF On("F16") /\ ch \in {"{", "*"} THEN 0 ELSE ChildIdx(n, ch)                       \* [F16]

\* the node that continues after the first infix catch-all of the key
InodeAfter(n, end) == Node(Rest(n.k, end + 1), n.r, n.c)

None == [n |-> <<>>, tsr |-> FALSE, ps |-> <<>>, tps |-> <<>>]
Hit(route, ps) == [n |-> route, tsr |-> FALSE, ps |-> ps, tps |-> <<>>]

EndsSlash(p) == p # <<>> /\ LastOf(p) = "/"

\* ---- the walk ----------------------------------------------------------------------------------------
\* st: cur (node), pr (route of the parent, <<>> if it has none), cm, cmn, pcnt, pk, skip, ps, tsr, tn, tps
RECURSIVE Outer(_, _), Inner(_, _, _), AfterInner(_, _), Post(_, _), Backtrack(_, _), CatchLoop(_, _, _, _, _, _)
LookupPath(target, path) ==
  Outer([cur |-> target, pr |-> <<>>, cm |-> 0, cmn |-> 0, pcnt |-> 0, pk |-> 0, skip |-> <<>>, ps |-> <<>>,
         tsr |-> FALSE, tn |-> <<>>, tps |-> <<>>], path)

Outer(st, path) == IF st.cm < Len(path) THEN Inner([st EXCEPT !.cmn = 0], path, 0) ELSE Post(st, path)

\* i: number of key characters of the current node consumed by the inner loop
Inner(st, path, i) ==
  LET key == st.cur.k IN
  IF st.cm >= Len(path) \/ i >= Len(key) THEN AfterInner(st, path)
  ELSE LET kc == key[i + 1]
           pc == path[st.cm + 1]
       IN IF kc = pc /\ pc \notin {"{", "*"} THEN Inner([st EXCEPT !.cm = @ + 1, !.cmn = @ + 1], path, i + 1)
          ELSE IF kc = "{" THEN
             \* a {param}: one non-empty segment
             LET rest == Rest(path, st.cm + 1)
                 sl == Index(rest, "/")
                 par == ParamsOf(st.cur)[st.pk + 1]
             IN IF sl = 1 THEN Post(st, path)                                      \* empty segment
                ELSE LET cm2 == IF sl = 0 THEN Len(path) ELSE st.cm + sl - 1
                         skipk == IF par.end > 0 THEN par.end - st.cmn ELSE Len(key) - st.cmn
                     IN Inner([st EXCEPT !.cm = cm2, !.cmn = @ + skipk, !.pcnt = @ + 1, !.pk = @ + 1,
                                         !.ps = Append(@, <<par.name, SubSeq(path, st.cm + 1, cm2)>>)],
                              path, i + skipk)
          ELSE IF kc = "*" THEN
             LET par == ParamsOf(st.cur)[st.pk + 1] IN
             IF par.end > 0 THEN CatchLoop([st EXCEPT !.cmn = par.end], path, InodeAfter(st.cur, par.end), par, st.cm, st.cm)
             ELSE IF st.cur.c # <<>> THEN CatchLoop([st EXCEPT !.cmn = Len(key)], path, st.cur.c[1], par, st.cm, st.cm)
             ELSE Hit(st.cur.r, Append(st.ps, <<par.name, Rest(path, st.cm + 1)>>))
          ELSE Post(st, path)                                                      \* mismatch

\* infix catch-all: try every following "/" as the end of the capture (start: where the capture begins,
\* cm: where the search for the next "/" resumes)
CatchLoop(st, path, inode, par, start, cm) ==
  LET sl == Index(Rest(path, cm + 1), "/") IN
  IF sl > 1 THEN
     LET cm2 == cm + sl - 1
         sub == LookupPath(inode, Rest(path, cm2 + 1))
         cap == <<par.name, SubSeq(path, start + 1, cm2)>>
     IN IF sub.n = <<>> THEN CatchLoop(st, path, inode, par, start, cm2 + 1)
        ELSE IF sub.tsr THEN
             CatchLoop(IF st.tsr /\ On("T5") THEN st
                       ELSE [st EXCEPT !.tsr = TRUE, !.tn = sub.n, !.tps = st.ps \o <<cap>> \o sub.tps],
                       path, inode, par, start, cm2 + 1)
        ELSE Hit(sub.n, st.ps \o <<cap>> \o sub.ps)
  ELSE \* no further "/" (or the next character is one): the capture would be the whole rest
     IF On("F6") /\ path[start + 1] = "/" /\ par.end > 0 THEN Post([st EXCEPT !.cm = cm], path)           \* [F6]
     ELSE LET ps2 == Append(st.ps, <<par.name, Rest(path, start + 1)>>) IN
          IF par.end = 0 THEN Hit(st.cur.r, ps2)                                   \* suffix catch-all: most specific
          ELSE Post([st EXCEPT !.ps = ps2, !.cm = Len(path)], path)

\* the key of the current node is consumed (or the path is): choose the next child
AfterInner(st, path) ==
  IF st.cm >= Len(path) THEN Post(st, path)
  ELSE LET cur == st.cur
           si == StaticChild(cur, path[st.cm + 1])
           pi == ParamChild(cur)
           wi == WildChild(cur)
           Sk(ci) == [n |-> cur, cm |-> st.cm, pcnt |-> st.pcnt, ci |-> ci]
           down(s, ci) == Outer([s EXCEPT !.pr = cur.r, !.cur = cur.c[ci], !.pk = 0], path)
       IN IF si = 0 THEN
             LET s1 == IF On("F4") /\ (On("T1") => ~st.tsr) /\ IsLeaf(cur) /\ st.cm = Len(path) - 1 /\ path[st.cm + 1] = "/" /\ st.cmn = Len(cur.k)
                         THEN [st EXCEPT !.tsr = TRUE, !.tn = cur.r, !.tps = st.ps]                       \* [F4]
                       ELSE st
             IN IF pi # 0 THEN down(IF wi # 0 /\ On("S1") THEN [s1 EXCEPT !.skip = Append(@, Sk(wi))] ELSE s1, pi)
                ELSE IF wi # 0 THEN down(s1, wi)
                ELSE Post(s1, path)
          ELSE LET s1 == IF wi # 0 /\ On("S3") THEN [st EXCEPT !.skip = Append(@, Sk(wi))] ELSE st
                   s2 == IF pi # 0 /\ On("S2") THEN [s1 EXCEPT !.skip = Append(@, Sk(pi))] ELSE s1
               IN down(s2, si)

\* the walk stopped: direct match, trailing-slash candidate, or backtrack
Post(st, path) ==
  LET cur == st.cur
      key == cur.k
      set(route) == [st EXCEPT !.tsr = TRUE, !.tn = route, !.tps = st.ps]
      mark(route) == IF st.tsr THEN st ELSE set(route)
      \* the first trailing-slash candidate found is kept; T2 .. T4 switch that rule off at one place each
      keep(site) == st.tsr /\ On(site)
  IN IF ~IsLeaf(cur) THEN
        Backtrack(
          IF keep("T2") THEN st
          ELSE IF EndsSlash(path) /\ st.pr # <<>> /\ st.cm = Len(path) /\ (On("F5") => st.cmn = 1) THEN set(st.pr)    \* [F5]
          ELSE IF On("F3") /\ st.cm = Len(path) /\ st.cmn = Len(key) /\ ~EndsSlash(path) THEN              \* [F3]
               LET i == ChildIdx(cur, "/") IN
               IF i # 0 /\ Len(cur.c[i].k) = 1 /\ IsLeaf(cur.c[i]) THEN set(cur.c[i].r) ELSE st
          ELSE st, path)
     ELSE IF st.cm = Len(path) /\ st.cmn = Len(key) THEN [n |-> cur.r, tsr |-> FALSE, ps |-> st.ps, tps |-> <<>>]
     ELSE IF st.cm = Len(path) /\ st.cmn < Len(key) THEN
        Backtrack(
          IF keep("T3") THEN st
          ELSE IF EndsSlash(path) THEN (IF st.pr # <<>> /\ st.cmn = 1 /\ key[1] = "/" THEN set(st.pr) ELSE st)
          ELSE (IF Len(key) - st.cmn = 1 /\ LastOf(key) = "/" THEN set(cur.r) ELSE st), path)
     ELSE IF st.cm < Len(path) /\ st.cmn = Len(key) THEN
        Backtrack(IF ~keep("T4") /\ Len(path) - st.cm = 1 /\ LastOf(path) = "/" THEN set(cur.r) ELSE st, path)
     ELSE Backtrack(st, path)

Backtrack(st, path) ==
  IF st.skip = <<>> THEN [n |-> st.tn, tsr |-> st.tsr, ps |-> st.ps, tps |-> st.tps]
  ELSE LET sk == LastOf(st.skip) IN
       Outer([st EXCEPT !.skip = DropLast(@), !.pr = sk.n.r, !.cur = sk.n.c[sk.ci],
                        !.ps = IF On("P1") THEN Take(@, sk.pcnt) ELSE @, !.pcnt = IF On("F1") THEN sk.pcnt ELSE 0,   \* [F1]
                        !.cm = sk.cm, !.pk = 0], path)

\* ---- the hostname walk (lookupByDomain) ---------------------------------------------------------------
\* Same state as the path walk; cm counts consumed host characters. The path below a hostname is looked up by
\* LookupPath in a sub-context once the whole host is consumed [F2]; a trailing-slash candidate found there is kept
\* (the first one only) and the walk backtracks to the skipped {param} alternatives.
RECURSIVE HWalk(_, _, _), HInner(_, _, _, _), HChild(_, _, _), HAfter(_, _, _), HBack(_, _, _)

HWalk(st, host, path) == IF st.cm < Len(host) THEN HInner([st EXCEPT !.cmn = 0], host, path, 0) ELSE HAfter(st, host, path)

HInner(st, host, path, i) ==
  LET key == st.cur.k IN
  IF st.cm >= Len(host) \/ i >= Len(key) THEN HChild(st, host, path)
  ELSE LET kc == key[i + 1]
           hc == host[st.cm + 1]
       IN IF kc = hc /\ hc # "{" THEN HInner([st EXCEPT !.cm = @ + 1, !.cmn = @ + 1], host, path, i + 1)
          ELSE IF kc = "{" THEN
             \* a {param}: one non-empty label (or label part)
             LET rest == Rest(host, st.cm + 1)
                 dot == Index(rest, ".")
                 par == ParamsOf(st.cur)[st.pk + 1]
             IN IF dot = 1 THEN HAfter(st, host, path)                               \* empty label
                ELSE LET cm2 == IF dot = 0 THEN Len(host) ELSE st.cm + dot - 1
                         skipk == IF par.end > 0 THEN par.end - st.cmn ELSE Len(key) - st.cmn
                     IN HInner([st EXCEPT !.cm = cm2, !.cmn = @ + skipk, !.pcnt = @ + 1, !.pk = @ + 1,
                                          !.ps = Append(@, <<par.name, SubSeq(host, st.cm + 1, cm2)>>)],
                               host, path, i + skipk)
          ELSE HAfter(st, host, path)                                                \* mismatch

\* the key of the current node is consumed (or the host is): choose the next child
HChild(st, host, path) ==
  IF st.cm >= Len(host) THEN HAfter(st, host, path)
  ELSE LET cur == st.cur
           si == ChildIdx(cur, host[st.cm + 1])
           pi == ParamChild(cur)
       IN IF si = 0 THEN
             IF pi # 0 THEN HWalk([st EXCEPT !.cur = cur.c[pi], !.pk = 0], host, path)
             ELSE HAfter(st, host, path)
          ELSE HWalk([st EXCEPT !.skip = IF pi # 0 /\ On("S4") THEN Append(@, [n |-> cur, cm |-> st.cm, pcnt |-> st.pcnt, ci |-> pi]) ELSE @,
                                !.cur = cur.c[si], !.pk = 0], host, path)

HAfter(st, host, path) ==
  LET cur == st.cur IN
  IF (On("F2") => st.cm = Len(host)) /\ st.cmn = Len(cur.k) THEN                                           \* [F2]
     LET i == ChildIdx(cur, "/") IN
     IF i = 0 THEN HBack(st, host, path)
     ELSE LET sub == LookupPath(cur.c[i], path) IN
          IF sub.n = <<>> THEN HBack(st, host, path)
          ELSE IF sub.tsr THEN
               HBack(IF st.tsr /\ On("T6") THEN st ELSE [st EXCEPT !.tsr = TRUE, !.tn = sub.n, !.tps = st.ps \o sub.tps], host, path)
          ELSE Hit(sub.n, st.ps \o sub.ps)
  ELSE HBack(st, host, path)

HBack(st, host, path) ==
  IF st.skip = <<>> THEN [n |-> st.tn, tsr |-> st.tsr, ps |-> st.ps, tps |-> st.tps]
  ELSE LET sk == LastOf(st.skip) IN
       HWalk([st EXCEPT !.skip = DropLast(@), !.cur = sk.n.c[sk.ci],
                        !.ps = Take(@, sk.pcnt), !.pcnt = IF On("F1") THEN sk.pcnt ELSE 0,                 \* [F1]
                        !.cm = sk.cm, !.pk = 0], host, path)

LookupHost(root, host, path) ==
  LET si == ChildIdx(root, host[1])
      pi == ParamChild(root)
      st0 == [cur |-> root, pr |-> <<>>, cm |-> 0, cmn |-> 0, pcnt |-> 0, pk |-> 0, skip |-> <<>>, ps |-> <<>>,
              tsr |-> FALSE, tn |-> <<>>, tps |-> <<>>]
  IN IF si = 0 THEN
        IF pi = 0 THEN None ELSE HWalk([st0 EXCEPT !.cur = root.c[pi]], host, path)
     ELSE HWalk([st0 EXCEPT !.cur = root.c[si],
                           !.skip = IF pi # 0 THEN <<[n |-> root, cm |-> 0, pcnt |-> 0, ci |-> pi]>> ELSE <<>>], host, path)

\* roots.lookup for one method: host is the request host with port and trailing dot already removed
LookupRoot(root, host, path) ==
  IF root.c = <<>> THEN None
  ELSE IF Len(root.c) = 1 /\ root.c[1].k[1] = "/" THEN LookupPath(root.c[1], path)
  ELSE LET byHost == IF host # <<>> /\ (On("F18") => ~HasChar(host, "/"))                                   \* [F18]
                      THEN LookupHost(root, host, path) ELSE None IN
       IF byHost.n # <<>> THEN byHost
       ELSE LET i == ChildIdx(root, "/") IN
            IF i = 0 THEN None ELSE LookupPath(root.c[i], path)

\* the path-only entry point: the tree of a method that has only path routes is entered at its "/" child
LookupTree(root, path) ==
  LET i == ChildIdx(root, "/") IN
  IF i = 0 THEN None ELSE LookupPath(root.c[i], path)

\* result in the vocabulary of FoxMatch: route (characters), tsr, bindings
Selected(res) == IF res.n = <<>> THEN [ok |-> FALSE]
                 ELSE [ok |-> TRUE, route |-> res.n, tsr |-> res.tsr, b |-> IF res.tsr THEN res.tps ELSE res.ps]
=============================================================================
