------------------------------ MODULE FoxProto ------------------------------
(* The publication protocol of the router, reduced to what its safety rests  *)
(* on: a writer lock, a published version counter, and for every writer the  *)
(* version it loaded.  This is FoxConc without the maps and without readers  *)
(* (a reader is one atomic load of the counter), small enough for an         *)
(* inductive invariant: checked by Apalache for a fixed number of writers    *)
(* and unbounded versions, and proved with TLAPS for any set of writers      *)
(* (FoxProto_proofs).  MC_Conc checks with TLC that FoxConc refines it.      *)
(*                                                                           *)
(*   pc[w]   idle -> waiting -> locked -> open -> prestore -> stored -> idle *)
(*                                          \-> aborting -------------/      *)
(*   lock    the writer holding the mutex, or None                           *)
(*   ver     number of publications so far                                   *)
(*   base[w] the version writer w loaded after taking the lock               *)
EXTENDS Integers

CONSTANTS
  \* @type: Set(Str);
  Writers,
  \* @type: Str;
  None

ASSUME NoneNotWriter == None \notin Writers

VARIABLES
  \* @type: Str -> Str;
  pc,
  \* @type: Str;
  lock,
  \* @type: Int;
  ver,
  \* @type: Str -> Int;
  base

vars == <<pc, lock, ver, base>>
PCs == {"idle", "waiting", "locked", "open", "prestore", "stored", "aborting"}
Holding(w) == pc[w] \in {"locked", "open", "prestore", "stored", "aborting"}

\* any number of publications may lie in the past
Init == /\ pc = [w \in Writers |-> "idle"]
        /\ lock = None
        /\ ver \in Nat
        /\ base \in [Writers -> Nat]

Call(w)    == pc[w] = "idle" /\ pc' = [pc EXCEPT ![w] = "waiting"] /\ UNCHANGED <<lock, ver, base>>
Acquire(w) == pc[w] = "waiting" /\ lock = None /\ lock' = w /\ pc' = [pc EXCEPT ![w] = "locked"] /\ UNCHANGED <<ver, base>>
\* the root is loaded AFTER the lock is taken
Load(w)    == pc[w] = "locked" /\ base' = [base EXCEPT ![w] = ver] /\ pc' = [pc EXCEPT ![w] = "open"] /\ UNCHANGED <<lock, ver>>
Finish(w)  == pc[w] = "open" /\ (\E next \in {"prestore", "aborting"} : pc' = [pc EXCEPT ![w] = next]) /\ UNCHANGED <<lock, ver, base>>
\* the new tree is stored BEFORE the lock is released
Store(w)   == pc[w] = "prestore" /\ ver' = ver + 1 /\ pc' = [pc EXCEPT ![w] = "stored"] /\ UNCHANGED <<lock, base>>
Unlock(w)  == pc[w] \in {"stored", "aborting"} /\ lock' = None /\ pc' = [pc EXCEPT ![w] = "idle"] /\ UNCHANGED <<ver, base>>

\* sync.Mutex hands the lock over to a waiting writer: Unlock and Acquire in one step
Handover(w, k) == /\ pc[w] \in {"stored", "aborting"} /\ pc[k] = "waiting" /\ k # w
                  /\ lock' = k /\ pc' = [pc EXCEPT ![w] = "idle", ![k] = "locked"] /\ UNCHANGED <<ver, base>>

Next == \E w \in Writers : \/ Call(w) \/ Acquire(w) \/ Load(w) \/ Finish(w) \/ Store(w) \/ Unlock(w)
                           \/ \E k \in Writers : Handover(w, k)
Spec == Init /\ [][Next]_vars

TypeOK == /\ pc \in [Writers -> PCs]
          /\ lock \in Writers \cup {None}
          /\ ver \in Nat
          /\ base \in [Writers -> Nat]

\* C05: at most one writer is between lock and unlock
MutualExclusion == \A a, b \in Writers : Holding(a) /\ Holding(b) => a = b
\* C05: no lost update - what a writer is about to publish was built on the version that is still the published one
NoLostUpdate == \A w \in Writers : pc[w] \in {"open", "prestore"} => base[w] = ver
\* C04: a publication happens exactly once per committed transaction, on top of the version it started from
PublishedOnce == \A w \in Writers : pc[w] = "stored" => ver = base[w] + 1

\* the inductive invariant
LockOwner == \A w \in Writers : Holding(w) <=> lock = w
IndInv == TypeOK /\ LockOwner /\ NoLostUpdate /\ PublishedOnce

\* for Apalache: --init=IndInit --inv=IndInv --length=1 (induction step), --init=Init --inv=IndInv --length=0 (base)
IndInit == IndInv
Safety == MutualExclusion /\ NoLostUpdate /\ PublishedOnce

=============================================================================
