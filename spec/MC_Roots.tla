------------------------------ MODULE MC_Roots ------------------------------
(* FoxRoots inside the transaction life cycle (as MC_Cow): a write           *)
(* transaction with inserts, deletes and Truncate over standard and custom   *)
(* methods, snapshots, readers holding the published slice, commit, abort.   *)
EXTENDS FoxRoots, Gen_Roots, TLC, Json, SequencesExt

VARIABLES H, pub, snaps, tx, viol, hist, op
vars == <<H, pub, snaps, tx, viol, hist, op>>
view == <<H, pub, snaps, tx, viol>>

\* the methods the actions write to: the first standard method and the custom ones (the other standard entries stay empty)
AllMethods == {Common[1]} \cup Custom
NoTx == [on |-> FALSE, root |-> 0]

\* fox.New: an empty tree for every standard method
InitHeap == [rs |-> <<[i \in DOMAIN Common |-> Entry(Common[i], i)]>>, cnt |-> [i \in DOMAIN Common |-> 0]]
Init == H = InitHeap /\ pub = 1 /\ snaps = <<>> /\ tx = NoTx /\ viol = "none" /\ hist = <<>> /\ op = [name |-> "init", m |-> "", ms |-> <<>>]

Frozen == <<pub>> \o snaps
Install(H1, pub1, snaps1, tx1) ==
  LET roots == <<pub1>> \o snaps1 \o (IF tx1.on THEN <<tx1.root>> ELSE <<>>)
      r == Renumber(H1, roots)
  IN /\ H' = r.H /\ pub' = r.roots[1]
     /\ snaps' = [i \in DOMAIN snaps1 |-> r.roots[i + 1]]
     /\ tx' = IF tx1.on THEN [tx1 EXCEPT !.root = r.roots[Len(roots)]] ELSE NoTx
Log(name, m, ms) == op' = [name |-> name, m |-> m, ms |-> ms] /\ hist' = Append(hist, [name |-> name, m |-> m, ms |-> ms])
Verdict(H1) == IF viol # "none" THEN viol ELSE IF ~Unchanged(H, H1, Frozen) THEN "frozen" ELSE "none"

Cnt(s, m) == LET i == MethodIdx(H.rs[s], m) IN IF i = 0 THEN 0 ELSE H.cnt[H.rs[s][i].t]

Begin == ~tx.on /\ tx' = [on |-> TRUE, root |-> pub] /\ UNCHANGED <<H, pub, snaps, viol>> /\ Log("Begin", "", <<>>)
TxInsert(m) == /\ tx.on /\ Cnt(tx.root, m) < MaxCnt
               /\ LET r == Insert(H, tx.root, m) IN viol' = Verdict(r.H) /\ Install(r.H, pub, snaps, [tx EXCEPT !.root = r.s])
               /\ Log("TxInsert", m, <<>>)
TxDelete(m) == /\ tx.on /\ Cnt(tx.root, m) > 0
               /\ LET r == Delete(H, tx.root, m) IN viol' = Verdict(r.H) /\ Install(r.H, pub, snaps, [tx EXCEPT !.root = r.s])
               /\ Log("TxDelete", m, <<>>)
TxTruncate(ms) == /\ tx.on
                  /\ LET r == Truncate(H, tx.root, ms) IN viol' = Verdict(r.H) /\ Install(r.H, pub, snaps, [tx EXCEPT !.root = r.s])
                  /\ Log("TxTruncate", "", ms)
TxSnapshot == tx.on /\ Len(snaps) < 1 /\ Install(H, pub, Append(snaps, tx.root), tx) /\ UNCHANGED viol /\ Log("TxSnapshot", "", <<>>)
ReaderHold == Len(snaps) < 1 /\ Install(H, pub, Append(snaps, pub), tx) /\ UNCHANGED viol /\ Log("ReaderHold", "", <<>>)
Forget == snaps # <<>> /\ Install(H, pub, <<>>, tx) /\ UNCHANGED viol /\ Log("Forget", "", <<>>)
Commit == tx.on /\ Install(H, tx.root, snaps, NoTx) /\ UNCHANGED viol /\ Log("Commit", "", <<>>)
Abort == tx.on /\ Install(H, pub, snaps, NoTx) /\ UNCHANGED viol /\ Log("Abort", "", <<>>)

TruncLists == {<<>>} \cup {<<m>> : m \in AllMethods} \cup {<<ab[1], ab[2]>> : ab \in {x \in AllMethods \X AllMethods : x[1] # x[2]}}

Next == Begin \/ TxSnapshot \/ ReaderHold \/ Forget \/ Commit \/ Abort
        \/ \E m \in AllMethods : TxInsert(m) \/ TxDelete(m)
        \/ \E ms \in TruncLists : TxTruncate(ms)
Spec == Init /\ [][Next]_vars

NothingFrozenIsTouched == viol = "none"
NoNilEntry == \A i \in DOMAIN Frozen : ~Broken(H, Frozen[i])
CommonFirst == \A i \in DOMAIN Frozen : \A k \in DOMAIN Common : H.rs[Frozen[i]][k].m = Common[k]
Bounded == Len(hist) <= 60

\* ---- emission: every transition with the history that led to its source state ---------------------------
EmitEdge == PrintT("VEC" \o ToJson([hist |-> hist', rs |-> H'.rs, cnt |-> H'.cnt, pub |-> pub', snaps |-> snaps', txroot |-> tx'.root]))
=============================================================================
