----------------------------- MODULE MC_Serve -----------------------------
(* Exhaustive small-scope instance of the dispatch table (C08, C11): every *)
(* conflict-free table of at most GenMaxTab entries (method x pattern x    *)
(* trailing-slash option) x the four router configurations x every         *)
(* generated request.  Emits one JSON line per table (D1).                 *)
EXTENDS FoxServe, Gen_Serve, TLC, Json, FiniteSetsExt, SequencesExt

PoolToks == [i \in DOMAIN GenPool |-> Tokenize(GenPool[i])]

RECURSIVE ConflictAt(_, _)
ConflictAt(a, b) ==
  IF a = <<>> \/ b = <<>> THEN FALSE
  ELSE IF Head(a) = Head(b) THEN ConflictAt(Tail(a), Tail(b))
  ELSE Head(a).k = Head(b).k /\ Head(a).k \in {"par", "cat"}

\* entry kinds: <<method index, pool index, option index>>
Opts == <<"none", "ign", "red">>
Kinds == {<<m, p, o>> : m \in DOMAIN GenEntryMethods, p \in 1..GenEnumN, o \in 1..3}

OkTable(S) ==
  /\ \A a, b \in S : a # b => ~(a[1] = b[1] /\ a[2] = b[2])                         \* one route per (method, pattern)
  /\ \A a, b \in S : a[1] = b[1] => ~ConflictAt(PoolToks[a[2]], PoolToks[b[2]])
  /\ \A a \in S : Valid(GenPool[a[2]])

Tables == {S \in (SubsetsUpTo(Kinds, GenMaxTab) \ {{}}) \cup GenExtraTables : OkTable(S)}

VARIABLES tab, done
vars == <<tab, done>>

Less(a, b) == a[1] < b[1] \/ (a[1] = b[1] /\ (a[2] < b[2] \/ (a[2] = b[2] /\ a[3] < b[3])))

TableOf(S) ==
  LET ks == SetToSortSeq(S, Less) IN
  [i \in DOMAIN ks |-> [m |-> GenEntryMethods[ks[i][1]], toks |-> PoolToks[ks[i][2]], pi |-> ks[i][2],
                        opt |-> Opts[ks[i][3]], ei |-> i]]

Cfgs == << [noMethod |-> FALSE, autoOptions |-> FALSE], [noMethod |-> TRUE, autoOptions |-> FALSE],
           [noMethod |-> FALSE, autoOptions |-> TRUE],  [noMethod |-> TRUE, autoOptions |-> TRUE] >>

Binds(b) == [i \in DOMAIN b |-> <<Str(b[i][1]), Str(b[i][2])>>]
SortedStrs(S) == SetToSortSeq(S, LAMBDA a, b : TRUE)   \* any order: Allow is compared as a set

ReplyVec(T, c, m, p) ==
  LET req == [m |-> GenReqMethods[m], host |-> GenHost, path |-> GenPaths[p]]
      r == Reply(T, Cfgs[c], req)
  IN IF ~RedirectOnlyClean(T, Cfgs[c], req) \/ ~AllowSound(T, Cfgs[c], req)
        THEN Assert(FALSE, <<"dispatch theorem fails", T, Cfgs[c], req, r>>)
     ELSE CASE r.kind = "noroute"  -> <<>>
            [] r.kind = "route"    -> <<c, m, p, 1, r.e, IF r.tsr THEN 1 ELSE 0, Binds(r.b)>>
            [] r.kind = "redirect" -> <<c, m, p, 2, r.code, Str(r.target)>>
            [] r.kind = "options"  -> <<c, m, p, 3, SortedStrs(r.allow), SortedStrs(r.optional), IF r.amb THEN 1 ELSE 0>>
            [] r.kind = "nomethod" -> <<c, m, p, 4, SortedStrs(r.allow), SortedStrs(r.optional), IF r.amb THEN 1 ELSE 0>>

Vec(S) ==
  LET T == TableOf(S)
      all == FlattenSeq(FlattenSeq([c \in DOMAIN Cfgs |-> [m \in DOMAIN GenReqMethods |->
                 [p \in DOMAIN GenPaths |-> ReplyVec(T, c, m, p)]]]))
  IN [t |-> [i \in DOMAIN T |-> <<T[i].m, T[i].pi, T[i].opt>>],
      n |-> Len(all),
      pr |-> SelectSeq(all, LAMBDA v : v # <<>>)]

Init == tab \in Tables /\ done = FALSE
Next == /\ ~done
        /\ PrintT("VEC" \o ToJson(Vec(tab)))
        /\ done' = TRUE
        /\ UNCHANGED tab
Spec == Init /\ [][Next]_vars
=============================================================================
