----------------------------- MODULE FoxServe -----------------------------
(* The request pipeline (C08 dispatch, C11): what ServeHTTP must answer for *)
(* a request, as a function of the registered routes, their trailing-slash *)
(* options and the router options.                                         *)
(*                                                                         *)
(* A table T is a sequence of entries                                      *)
(*   [m    : method (a TLA+ string),                                       *)
(*    toks : pattern tokens, pi : pool index,                              *)
(*    opt  : "none" | "ign" | "red"  (effective trailing-slash mode),      *)
(*    ei   : the entry's own index in T]                                   *)
(* cfg = [noMethod, autoOptions]; req = [m, host, path].                   *)
EXTENDS FoxMatch, FoxCleanPath

MethodEntries(T, m) == SelectSeq(T, LAMBDA e : e.m = m)

\* lookup in the table of one method; the id of the result is an index into T
LookupM(T, m, host, path) ==
  LET Tm == MethodEntries(T, m) IN
  IF Tm = <<>> THEN NotFound
  ELSE LET r == Lookup(Tm, host, path) IN
       IF r.ok THEN [r EXCEPT !.id = Tm[r.id].ei] ELSE r

MethodsOfT(T) == {T[i].m : i \in DOMAIN T}

\* method m has a route serving host and path: directly, or by ignoring a trailing slash. CONNECT is never served
\* through a trailing slash (C08), so whether a CONNECT route that ignores trailing slashes makes CONNECT one of "the
\* methods serving the path" (C11) for such a path is left open: those methods may or may not be listed (MaybeServes).
Serves(T, m, host, path) ==
  LET r == LookupM(T, m, host, path) IN r.ok /\ (~r.tsr \/ (T[r.id].opt = "ign" /\ m # "CONNECT"))
MaybeServes(T, m, host, path) ==
  LET r == LookupM(T, m, host, path) IN m = "CONNECT" /\ r.ok /\ r.tsr /\ T[r.id].opt = "ign"

NoRoute == [kind |-> "noroute"]

Unmatched(T, cfg, req) ==
  LET ms == MethodsOfT(T)
      serving == {m \in ms : Serves(T, m, req.host, req.path)}
      maybe == {m \in ms : MaybeServes(T, m, req.host, req.path)}
  IN IF req.m = "OPTIONS" /\ cfg.autoOptions THEN
        LET allow == (IF req.path = <<"*">> THEN ms ELSE serving) \ {"OPTIONS"} IN
        IF allow # {} THEN [kind |-> "options", allow |-> allow \cup {"OPTIONS"}, optional |-> maybe, amb |-> FALSE]
        \* corner left open by the statement: "OPTIONS *" when only OPTIONS itself has routes
        ELSE IF req.path = <<"*">> /\ ms = {"OPTIONS"}
             THEN [kind |-> "options", allow |-> {"OPTIONS"}, optional |-> {}, amb |-> TRUE]
        \* only the open CONNECT corner would make the path served: 200 with what may be listed, or the no-route reply
        ELSE IF maybe # {} THEN [kind |-> "options", allow |-> {"OPTIONS"}, optional |-> maybe, amb |-> TRUE]
        ELSE NoRoute
     ELSE IF cfg.noMethod THEN
        LET others == serving \ {req.m}
            mb == maybe \ {req.m}
            opt == IF cfg.autoOptions THEN {"OPTIONS"} ELSE {}
        IN IF others # {} THEN [kind |-> "nomethod", allow |-> others, optional |-> opt \cup mb, amb |-> FALSE]
           ELSE IF mb # {} THEN [kind |-> "nomethod", allow |-> {}, optional |-> opt \cup mb, amb |-> TRUE]
           ELSE NoRoute
     ELSE NoRoute

Reply(T, cfg, req) ==
  LET L == LookupM(T, req.m, req.host, req.path)
      tsrOK == L.ok /\ L.tsr /\ req.m # "CONNECT" /\ req.path # <<"/">>
  IN IF L.ok /\ ~L.tsr THEN [kind |-> "route", e |-> L.id, b |-> L.b, tsr |-> FALSE]
     ELSE IF tsrOK /\ T[L.id].opt = "ign" THEN [kind |-> "route", e |-> L.id, b |-> L.b, tsr |-> TRUE]
     ELSE IF tsrOK /\ T[L.id].opt = "red" /\ Clean(req.path) = req.path
          THEN [kind |-> "redirect", code |-> IF req.m = "GET" THEN 301 ELSE 308, target |-> Adjusted(req.path)]
     ELSE Unmatched(T, cfg, req)

--------------------------------------------------------------------------
\* Properties of the dispatch (checked in MC_Serve):
\*  - a redirect is only ever issued for a clean path, never for CONNECT, never for "/"
\*  - special replies do not depend on entries of methods that do not serve the path
RedirectOnlyClean(T, cfg, req) ==
  LET r == Reply(T, cfg, req) IN
  r.kind = "redirect" => IsCanonical(req.path) /\ req.m # "CONNECT" /\ req.path # <<"/">>

AllowSound(T, cfg, req) ==
  LET r == Reply(T, cfg, req) IN
  r.kind \in {"options", "nomethod"} =>
     /\ r.amb \/ r.allow # {}
     /\ r.kind = "nomethod" => req.m \notin r.allow
     /\ r.kind = "options" => "OPTIONS" \in r.allow
=============================================================================
