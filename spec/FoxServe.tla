----------------------------- MODULE FoxServe -----------------------------
(* The request pipeline (C08 dispatch, C11): what ServeHTTP must answer for *)
(* a request, as a function of the registered routes, their trailing-slash *)
(* options and the router options.                                         *)
(*                                                                         *)
(* A table T is a sequence of entries                                      *)
(*   [m    : method (a TLA+ string),                                       *)
(*    toks : pattern tokens, pi : pool index,                              *)
(*    opt  : "none" | "ign" | "red"  (effective trailing-slash mode),      *)
(*    ei   : the entry's own index in T]                                   *)
(* cfg = [noMethod, autoOptions]; req = [m, host, path].                   *)
EXTENDS FoxMatch, FoxCleanPath

MethodEntries(T, m) == SelectSeq(T, LAMBDA e : e.m = m)

\* lookup in the table of one method; the id of the result is an index into T
LookupM(T, m, host, path) ==
  LET Tm == MethodEntries(T, m) IN
  IF Tm = <<>> THEN NotFound
  ELSE LET r == Lookup(Tm, host, path) IN
       IF r.ok THEN [r EXCEPT !.id = Tm[r.id].ei] ELSE r

MethodsOfT(T) == {T[i].m : i \in DOMAIN T}

\* method m has a route serving host and path: directly, or by ignoring a trailing slash
Serves(T, m, host, path) ==
  LET r == LookupM(T, m, host, path) IN r.ok /\ (~r.tsr \/ T[r.id].opt = "ign")

NoRoute == [kind |-> "noroute"]

Unmatched(T, cfg, req) ==
  LET ms == MethodsOfT(T)
      serving == {m \in ms : Serves(T, m, req.host, req.path)}
  IN IF req.m = "OPTIONS" /\ cfg.autoOptions THEN
        LET allow == (IF req.path = <<"*">> THEN ms ELSE serving) \ {"OPTIONS"} IN
        IF allow # {} THEN [kind |-> "options", allow |-> allow \cup {"OPTIONS"}, optional |-> {}, amb |-> FALSE]
        \* corner left open by the statement: "OPTIONS *" when only OPTIONS itself has routes
        ELSE IF req.path = <<"*">> /\ ms = {"OPTIONS"}
             THEN [kind |-> "options", allow |-> {"OPTIONS"}, optional |-> {}, amb |-> TRUE]
        ELSE NoRoute
     ELSE IF cfg.noMethod THEN
        LET others == serving \ {req.m} IN
        IF others # {} THEN [kind |-> "nomethod", allow |-> others,
                             optional |-> IF cfg.autoOptions THEN {"OPTIONS"} ELSE {}, amb |-> FALSE]
        ELSE NoRoute
     ELSE NoRoute

Reply(T, cfg, req) ==
  LET L == LookupM(T, req.m, req.host, req.path)
      tsrOK == L.ok /\ L.tsr /\ req.m # "CONNECT" /\ req.path # <<"/">>
  IN IF L.ok /\ ~L.tsr THEN [kind |-> "route", e |-> L.id, b |-> L.b, tsr |-> FALSE]
     ELSE IF tsrOK /\ T[L.id].opt = "ign" THEN [kind |-> "route", e |-> L.id, b |-> L.b, tsr |-> TRUE]
     ELSE IF tsrOK /\ T[L.id].opt = "red" /\ Clean(req.path) = req.path
          THEN [kind |-> "redirect", code |-> IF req.m = "GET" THEN 301 ELSE 308, target |-> Adjusted(req.path)]
     ELSE Unmatched(T, cfg, req)

--------------------------------------------------------------------------
\* Properties of the dispatch (checked in MC_Serve):
\*  - a redirect is only ever issued for a clean path, never for CONNECT, never for "/"
\*  - special replies do not depend on entries of methods that do not serve the path
RedirectOnlyClean(T, cfg, req) ==
  LET r == Reply(T, cfg, req) IN
  r.kind = "redirect" => IsCanonical(req.path) /\ req.m # "CONNECT" /\ req.path # <<"/">>

AllowSound(T, cfg, req) ==
  LET r == Reply(T, cfg, req) IN
  r.kind \in {"options", "nomethod"} =>
     /\ r.allow # {}
     /\ r.kind = "nomethod" => req.m \notin r.allow
     /\ r.kind = "options" => "OPTIONS" \in r.allow
=============================================================================
