----------------------------- MODULE FoxRoutes -----------------------------
(* Sequential meaning of the registration API (C02): the registered routes *)
(* are a map keyed by (method, pattern).                                   *)
(*                                                                         *)
(* A registered set S is a set of entries [m, p, g] : method, pattern (as  *)
(* an index into the constant sequence PoolChars) and a generation tag g   *)
(* that identifies the Route object stored (Update replaces it).           *)
EXTENDS FoxPattern

CONSTANTS PoolChars        \* sequence of patterns, each a character sequence (valid or not)

PoolToks == [i \in DOMAIN PoolChars |-> Tokenize(PoolChars[i])]
PoolValid(maxP, maxK) == [i \in DOMAIN PoolChars |-> ValidPattern(PoolChars[i], maxP, maxK)]

\* HTTP method validity: Handle/HandleRoute require ^[A-Z]+$ ; Update/Delete only non-empty.
MethodCharsOK(m) == m # <<>> /\ \A i \in DOMAIN m : m[i] \in Upper

--------------------------------------------------------------------------
\* Wildcard conflict between two token sequences: they agree on a token prefix and then both
\* declare a wildcard of the same kind with a different name.
RECURSIVE ConflictAt(_, _)
ConflictAt(a, b) ==
  IF a = <<>> \/ b = <<>> THEN FALSE
  ELSE IF Head(a) = Head(b) THEN ConflictAt(Tail(a), Tail(b))
  ELSE Head(a).k = Head(b).k /\ Head(a).k \in {"par", "cat"}

\* the registered entries of method m that pattern p conflicts with
Conflicts(S, m, p) == {e \in S : e.m = m /\ ConflictAt(PoolToks[e.p], PoolToks[p])}

ConflictFree(S) == \A e \in S : Conflicts(S, e.m, e.p) = {}

Entry(S, m, p) == {e \in S : e.m = m /\ e.p = p}      \* empty or a singleton
HasEntry(S, m, p) == Entry(S, m, p) # {}
TheEntry(S, m, p) == CHOOSE e \in S : e.m = m /\ e.p = p

\* Results are records [err, S, matched, route]:
\*   err      in {"ok","exist","conflict","invalid","notfound"}
\*   S        the registered set after the call (unchanged unless err = "ok")
\*   matched  for "conflict": the set of pool indices named in the error
\*   route    the generation tag of the route returned (Handle/Update: the new one; Delete: the removed one)
Res(err, S, matched, route) == [err |-> err, S |-> S, matched |-> matched, route |-> route]

\* valid: the pattern is valid under the router's limits; methodOK: the method string is acceptable
HandleRes(S, m, p, g, valid, methodOK) ==
  IF ~methodOK \/ ~valid THEN Res("invalid", S, {}, 0)
  ELSE IF HasEntry(S, m, p) THEN Res("exist", S, {}, 0)
  ELSE LET cs == Conflicts(S, m, p) IN
       IF cs # {} THEN Res("conflict", S, {e.p : e \in cs}, 0)
       ELSE Res("ok", S \cup {[m |-> m, p |-> p, g |-> g]}, {}, g)

UpdateRes(S, m, p, g, valid, methodOK) ==
  IF ~methodOK \/ ~valid THEN Res("invalid", S, {}, 0)
  ELSE IF ~HasEntry(S, m, p) THEN Res("notfound", S, {}, 0)
  ELSE Res("ok", (S \ Entry(S, m, p)) \cup {[m |-> m, p |-> p, g |-> g]}, {}, g)

DeleteRes(S, m, p, valid, methodOK) ==
  IF ~methodOK \/ ~valid THEN Res("invalid", S, {}, 0)
  ELSE IF ~HasEntry(S, m, p) THEN Res("notfound", S, {}, 0)
  ELSE Res("ok", S \ Entry(S, m, p), {}, TheEntry(S, m, p).g)

\* ms = {} truncates everything
TruncateRes(S, ms) ==
  Res("ok", IF ms = {} THEN {} ELSE {e \in S : e.m \notin ms}, {}, 0)

\* Observations
LenOf(S) == Cardinality(S)
MethodsOf(S) == {e.m : e \in S}
RouteOf(S, m, p) == IF HasEntry(S, m, p) THEN TheEntry(S, m, p).g ELSE 0
PrefixSet(S, ms, prefix) == {e \in S : e.m \in ms /\ HasPrefix(PoolChars[e.p], prefix)}
=============================================================================
