--------------------------- MODULE FoxMiddleware ---------------------------
(* C13: which middleware wraps which kind of handler, and in what order.   *)
(*                                                                         *)
(* A global entry is [id, scope] with scope a set of handler kinds; a      *)
(* route carries a sequence of route-specific middleware ids.  The chain   *)
(* of a handler kind is the sequence of ids entered, outermost first.      *)
EXTENDS Sequences, FiniteSets, Naturals

Kinds == {"route", "noroute", "nomethod", "redirect", "options"}

\* DefaultOptions pushes Recovery (route scope) and Logger (all scopes) to the first two positions,
\* wherever it appears among the options
EffectiveGlobal(G, defaults) ==
  IF defaults THEN <<[id |-> "recovery", scope |-> {"route"}], [id |-> "logger", scope |-> Kinds]>> \o G ELSE G

Ids(es) == [i \in DOMAIN es |-> es[i].id]

GlobalChain(G, kind) == Ids(SelectSeq(G, LAMBDA e : kind \in e.scope))

\* R: route-specific ids in registration order (global middleware stays outside)
Chain(G, R, kind) == GlobalChain(G, kind) \o (IF kind = "route" THEN R ELSE <<>>)

\* Route.Handle runs the bare handler, Route.HandleMiddleware only the route-specific chain
HandleChain(R) == <<>>
HandleMiddlewareChain(R) == R

\* consequences stated by the property
EachOnce(G, R, kind) ==
  LET c == Chain(G, R, kind) IN
  (\A i, j \in DOMAIN G : i # j => G[i].id # G[j].id) /\ (\A i, j \in DOMAIN R : i # j => R[i] # R[j]) /\
  (\A i \in DOMAIN G, j \in DOMAIN R : G[i].id # R[j])
     => \A i, j \in DOMAIN c : i # j => c[i] # c[j]

RouteSpecificInside(G, R) ==
  LET c == Chain(G, R, "route") IN SubSeq(c, Len(c) - Len(R) + 1, Len(c)) = R
=============================================================================
