----------------------------- MODULE MC_Router -----------------------------
(* Bounded instances of FoxRouter.  Constants come from Gen_Router (written *)
(* by the harness).  Besides checking the invariants and action properties, *)
(* TLC emits every transition of the reachable graph as a JSON line         *)
(* (from-state, call with prescribed result, to-state) for the D1 replay.   *)
EXTENDS FoxRouter, Gen_Router, TLC, Json, SequencesExt

ELess(a, b) == a[1] < b[1] \/ (a[1] = b[1] /\ (a[2] < b[2] \/ (a[2] = b[2] /\ a[3] < b[3])))
ProjSet(S) == SetToSortSeq({<<e.m, e.p, e.g>> : e \in S}, ELess)

Proj(pb, lk, tx, sn) ==
  [pub |-> ProjSet(pb), lock |-> lk,
   txn |-> [t \in DOMAIN tx |-> [st |-> tx[t].st, write |-> tx[t].write, managed |-> tx[t].managed,
                                 work |-> ProjSet(tx[t].work), n |-> tx[t].n]],
   snap |-> [s \in DOMAIN sn |-> [kind |-> sn[s].kind, S |-> ProjSet(sn[s].S), from |-> sn[s].from]]]

ProjOp(o) ==
  [name |-> o.name, t |-> o.t, s |-> o.s, m |-> o.m, p |-> o.p,
   ms |-> SetToSortSeq(o.ms, <), err |-> o.res.err, matched |-> SetToSortSeq(o.res.matched, <), route |-> o.res.route]

EmitEdge ==
  PrintT("VEC" \o ToJson([from |-> Proj(pub, lock, txn, snap), op |-> ProjOp(op'),
                          to |-> Proj(pub', lock', txn', snap')]))

\* random behaviours for the thorough tier: the whole history is carried in a variable and printed at the end
=============================================================================
