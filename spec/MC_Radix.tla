----------------------------- MODULE MC_Radix -----------------------------
(* Every bounded history of Insert / Update / Remove over the generated    *)
(* pattern pool on the tree of one method: structural invariants, the      *)
(* refinement of FoxRoutes (same result class, same conflict list, same    *)
(* set) and canonicity.  Emits every transition with the resulting tree    *)
(* for the structural conformance check against the real tree.             *)
EXTENDS FoxRadix, Gen_Radix, TLC, Json

PoolChars == GenPool
PToks == [i \in DOMAIN PoolChars |-> Tokenize(PoolChars[i])]
ValidIdx == {i \in DOMAIN PoolChars : Valid(PoolChars[i])}

RECURSIVE ConflictAt(_, _)
ConflictAt(a, b) ==
  IF a = <<>> \/ b = <<>> THEN FALSE
  ELSE IF Head(a) = Head(b) THEN ConflictAt(Tail(a), Tail(b))
  ELSE Head(a).k = Head(b).k /\ Head(a).k \in {"par", "cat"}

VARIABLES t, S, op
vars == <<t, S, op>>
view == <<t, S>>

Init == t = EmptyRoot /\ S = {} /\ op = [name |-> "init", p |-> 0, err |-> "ok"]

\* what FoxRoutes prescribes on the set
SetInsert(p) ==
  IF p \notin ValidIdx THEN [err |-> "invalid", S |-> S, matched |-> {}]
  ELSE IF p \in S THEN [err |-> "exist", S |-> S, matched |-> {}]
  ELSE LET cs == {q \in S : ConflictAt(PToks[q], PToks[p])} IN
       IF cs # {} THEN [err |-> "conflict", S |-> S, matched |-> {PoolChars[q] : q \in cs}]
       ELSE [err |-> "ok", S |-> S \cup {p}, matched |-> {}]

DoInsert(p) ==
  LET want == SetInsert(p)
      got == IF p \in ValidIdx THEN InsertRoute(t, PoolChars[p]) ELSE IRes("invalid", t, {})
  IN /\ Cardinality(S) < GenMaxRoutes
     /\ Assert(got.err = want.err /\ got.matched = want.matched, <<"refinement: Insert result differs", PoolChars[p], t, got.err, want.err, got.matched, want.matched>>)
     /\ t' = got.t /\ S' = want.S /\ op' = [name |-> "Insert", p |-> p, err |-> want.err]

DoRemove(p) ==
  LET wantOk == p \in S
      got == IF p \in ValidIdx THEN RemoveRoute(t, PoolChars[p]) ELSE IRes("invalid", t, {})
  IN /\ p \in ValidIdx
     /\ Assert((got.err = "ok") = wantOk, <<"refinement: Remove result differs", PoolChars[p], t>>)
     /\ t' = got.t /\ S' = S \ {p} /\ op' = [name |-> "Remove", p |-> p, err |-> got.err]

DoUpdate(p) ==
  LET got == UpdateRoute(t, PoolChars[p]) IN
  /\ p \in ValidIdx
  /\ Assert((got.err = "ok") = (p \in S), <<"refinement: Update result differs", PoolChars[p], t>>)
  /\ UNCHANGED <<t, S>> /\ op' = [name |-> "Update", p |-> p, err |-> got.err]

Next == \E p \in DOMAIN PoolChars : DoInsert(p) \/ DoRemove(p) \/ DoUpdate(p)
Spec == Init /\ [][Next]_vars

Structure == WellFormed(t)
Refinement == Routes(t) = {PoolChars[p] : p \in S}
Canonicity == t = Canonical(Routes(t))

RECURSIVE TreeJson(_)
TreeJson(n) == [k |-> Str(n.k), r |-> Str(n.r), c |-> [i \in DOMAIN n.c |-> TreeJson(n.c[i])]]
EmitEdge == PrintT("VEC" \o ToJson([from |-> SetToSeq(S), op |-> op', to |-> SetToSeq(S'), tree |-> TreeJson(t'), depth |-> Depth(t')]))
=============================================================================
