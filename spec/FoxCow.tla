------------------------------- MODULE FoxCow -------------------------------
(* The copy-on-write mechanism of the radix tree (tree.go, node.go), at the  *)
(* level where it can go wrong: a heap of nodes and of children slices with  *)
(* identities, shared between tree versions.                                 *)
(*                                                                           *)
(*   heap  h = [nd, sl]                                                      *)
(*     nd  sequence of nodes [k, r, s]: key, registered pattern (<<>> if     *)
(*         none), children slice id (0: no children)                         *)
(*     sl  sequence of slices, each a sequence of node ids                   *)
(*   A tree version is a root node id.  Versions share nodes AND slices:     *)
(*   newNodeFromRef builds a new node around the children slice of an old    *)
(*   one, clone() copies the slice, updateEdge writes into a slice in place. *)
(*                                                                           *)
(* A write transaction T = [h, root, wr, cache] owns a set wr of nodes it    *)
(* created itself and may therefore edit in place (the "writable" cache);    *)
(* copyOnWriteSearch clones every node on the way down that is not in wr,    *)
(* links the clone into its (already private) parent and, when the           *)
(* transaction caches, remembers it.  Taking a snapshot empties wr.          *)
(*                                                                           *)
(* The operators below transcribe copyOnWriteSearch, insert, update and      *)
(* remove case by case over this heap.  MC_Cow runs them inside the          *)
(* transaction life cycle and checks                                         *)
(*   - Frozen: no step changes a node or a slice reachable from the          *)
(*     published root or from any snapshot (C03's "nodes reachable from a    *)
(*     published root are never written again"; what makes C04's isolation   *)
(*     and C05's race freedom possible),                                     *)
(*   - WritablePrivate: nothing in wr is reachable from those roots,         *)
(*   - Refines: the value of the transaction's tree is the tree FoxRadix     *)
(*     prescribes (and so, by MC_Radix, the set FoxRoutes prescribes).       *)
(* Variant names a deliberately wrong version of the mechanism; each must be *)
(* refuted by TLC.                                                           *)
EXTENDS FoxRadix, Integers

CONSTANT Variant
Is(v) == Variant = v

\* ---- the heap ---------------------------------------------------------------------------------------
EmptyHeap == [nd |-> <<[k |-> <<>>, r |-> <<>>, s |-> 0]>>, sl |-> <<>>]     \* node 1: the empty root of the method
KidsOf(h, id) == IF h.nd[id].s = 0 THEN <<>> ELSE h.sl[h.nd[id].s]

RECURSIVE Val(_, _)
Val(h, id) == Node(h.nd[id].k, h.nd[id].r, [i \in DOMAIN KidsOf(h, id) |-> Val(h, KidsOf(h, id)[i])])

\* allocation (ids only grow inside one operation; MC_Cow renumbers between steps)
NewSlice(h, ids) == IF ids = <<>> THEN [h |-> h, s |-> 0]
                    ELSE [h |-> [h EXCEPT !.sl = Append(@, ids)], s |-> Len(h.sl) + 1]
\* newNodeFromRef: a new node around an existing slice
NodeFromRef(h, k, r, s) == [h |-> [h EXCEPT !.nd = Append(@, [k |-> k, r |-> r, s |-> s])], id |-> Len(h.nd) + 1]
\* newNode: sorts the slice it is given (the callers give it a fresh one)
SortIds(h, ids) == SortSeq(ids, LAMBDA a, b : KeyLess(h.nd[a].k, h.nd[b].k))
NodeWithKids(h, k, r, ids) == LET a == NewSlice(h, SortIds(h, ids)) IN NodeFromRef(a.h, k, r, a.s)
\* clone(): same key and route, a copy of the children slice
CloneNode(h, id) ==
  IF Is("cloneSharesSlice") THEN NodeFromRef(h, h.nd[id].k, h.nd[id].r, h.nd[id].s)
  ELSE LET a == NewSlice(h, KidsOf(h, id)) IN NodeFromRef(a.h, h.nd[id].k, h.nd[id].r, a.s)

EdgeIdx(h, id, ch) ==
  LET ks == KidsOf(h, id) IN
  IF \E i \in DOMAIN ks : h.nd[ks[i]].k[1] = ch THEN CHOOSE i \in DOMAIN ks : h.nd[ks[i]].k[1] = ch ELSE 0

\* updateEdge: an in-place write into the children slice of pid
UpdateEdge(h, pid, nid) == [h EXCEPT !.sl[h.nd[pid].s][EdgeIdx(h, pid, h.nd[nid].k[1])] = nid]

SeqWithout(ids, x) == SelectSeq(ids, LAMBDA y : y # x)

\* ---- copyOnWriteSearch -------------------------------------------------------------------------------
\* cur: node being left; p, pp: its private ancestors (0: none).  Result: the transaction after the cloning, the
\* matched node m (never cloned), its ancestors p, pp, ppp, characters matched in the path and in m.
RECURSIVE CowWalk(_, _, _, _, _, _, _, _)
CowWalk(T, path, cur, p, pp, ppp, cm, cmn) ==
  LET ei == IF cm < Len(path) THEN EdgeIdx(T.h, cur, path[cm + 1]) ELSE 0 IN
  IF ei = 0 THEN [T |-> T, m |-> cur, p |-> p, pp |-> pp, ppp |-> ppp, cm |-> cm, cmn |-> cmn]
  ELSE LET next == KidsOf(T.h, cur)[ei]
           private == cur \in T.wr
           c == CloneNode(T.h, cur)
           np == IF private THEN cur ELSE c.id
           T1 == IF private THEN T
                 ELSE [T EXCEPT !.h = IF p = 0 THEN c.h ELSE UpdateEdge(c.h, p, c.id),
                                !.root = IF p = 0 THEN c.id ELSE @,
                                !.wr = IF T.cache THEN @ \cup {c.id} ELSE @]
           m == CommonLen(T1.h.nd[next].k, Rest(path, cm + 1))
       IN IF m = Len(T1.h.nd[next].k) THEN CowWalk(T1, path, next, np, p, pp, cm + m, m)
          ELSE [T |-> T1, m |-> next, p |-> np, pp |-> p, ppp |-> pp, cm |-> cm + m, cmn |-> m]

CowSearch(T, path) == CowWalk(T, path, T.root, 0, 0, 0, 0, 0)

Kind(s, path) ==
  LET M == s.T.h.nd[s.m] IN
  IF s.cm = Len(path) THEN (IF s.cmn = Len(M.k) THEN "exact" ELSE "keyEndMidEdge")
  ELSE (IF s.cmn = Len(M.k) \/ s.p = 0 THEN "toEndOfEdge" ELSE "toMiddleOfEdge")

CRes(err, T) == [err |-> err, T |-> T]

\* the new leaf for the unmatched rest of the pattern (one node, or host node + path node)
BranchH(h, path, cm, hostSplit) ==
  LET suffix == Rest(path, cm + 1) IN
  IF hostSplit > 0 /\ cm < hostSplit THEN
     LET pc == NodeFromRef(h, Rest(suffix, hostSplit - cm + 1), path, 0) IN
     NodeWithKids(pc.h, Take(suffix, hostSplit - cm), <<>>, <<pc.id>>)
  ELSE NodeFromRef(h, suffix, path, 0)

\* a new root replaces the old one; a caching transaction remembers it as its own
WithRoot(T, h, id) == [T EXCEPT !.h = h, !.root = id, !.wr = IF T.cache THEN @ \cup {id} ELSE @]

\* ---- insert ------------------------------------------------------------------------------------------
CowInsert(T0, path) ==
  LET rootNode == T0.root
      s == CowSearch(T0, path)
      T == s.T
      h == T.h
      M == h.nd[s.m]
      hostSplit == HostEnd(path)
      kind == Kind(s, path)
  IN CASE kind = "exact" ->
            IF M.r # <<>> THEN CRes("exist", T)
            ELSE IF Is("editMatchedInPlace") THEN CRes("ok", [T EXCEPT !.h.nd[s.m].r = path])
            ELSE LET n == NodeFromRef(h, M.k, path, M.s) IN
                 CRes("ok", [T EXCEPT !.h = UpdateEdge(n.h, s.p, n.id),
                                      !.wr = IF Is("cacheInsertedNode") /\ T.cache THEN @ \cup {n.id} ELSE @])
       [] kind = "keyEndMidEdge" ->
            LET child == NodeFromRef(h, Rest(M.k, s.cmn + 1), M.r, M.s)
                parent == NodeWithKids(child.h, Take(M.k, s.cmn), path, <<child.id>>)
            IN CRes("ok", [T EXCEPT !.h = UpdateEdge(parent.h, s.p, parent.id)])
       [] kind = "toEndOfEdge" ->
            LET child == BranchH(h, path, s.cm, hostSplit)
                n == IF Is("appendToMatched") /\ M.s # 0
                       THEN \* the new child is written into the slice of the matched node instead of a copy
                            NodeFromRef([child.h EXCEPT !.sl[M.s] = SortIds(child.h, Append(@, child.id))], M.k, M.r, M.s)
                     ELSE NodeWithKids(child.h, M.k, M.r, Append(KidsOf(child.h, s.m), child.id))
            IN IF s.m = rootNode THEN CRes("ok", WithRoot(T, n.h, n.id))
               ELSE CRes("ok", [T EXCEPT !.h = UpdateEdge(n.h, s.p, n.id)])
       [] kind = "toMiddleOfEdge" ->
            LET cPrefix == Take(M.k, s.cmn) IN
            IF SplitConflict(cPrefix, s.cm, hostSplit) THEN CRes("conflict", T)
            ELSE LET n1 == BranchH(h, path, s.cm, hostSplit)
                     n2 == NodeFromRef(n1.h, Rest(M.k, s.cmn + 1), M.r, M.s)
                     n3 == NodeWithKids(n2.h, cPrefix, <<>>, <<n1.id, n2.id>>)
                 IN CRes("ok", [T EXCEPT !.h = UpdateEdge(n3.h, s.p, n3.id)])

\* ---- update ------------------------------------------------------------------------------------------
CowUpdate(T0, path) ==
  LET s == CowSearch(T0, path)
      T == s.T
      M == T.h.nd[s.m]
  IN IF ~(Kind(s, path) = "exact" /\ M.r # <<>>) THEN CRes("notfound", T)
     ELSE LET n == NodeFromRef(T.h, M.k, path, M.s) IN
          CRes("ok", [T EXCEPT !.h = UpdateEdge(n.h, s.p, n.id),
                               !.wr = IF Is("cacheUpdatedNode") /\ T.cache THEN @ \cup {n.id} ELSE @])

\* ---- remove ------------------------------------------------------------------------------------------
CowRemove(T0, path) ==
  LET s == CowSearch(T0, path)
      T == s.T
      h == T.h
      M == h.nd[s.m]
      kids == KidsOf(h, s.m)
  IN IF ~(Kind(s, path) = "exact" /\ M.r # <<>>) THEN CRes("notfound", T)
     ELSE IF Len(kids) > 1 THEN
          LET n == NodeFromRef(h, M.k, <<>>, M.s) IN CRes("ok", [T EXCEPT !.h = UpdateEdge(n.h, s.p, n.id)])
     ELSE IF Len(kids) = 1 THEN
          LET C == h.nd[kids[1]]
              n == NodeFromRef(h, M.k \o C.k, C.r, C.s)
          IN CRes("ok", [T EXCEPT !.h = UpdateEdge(n.h, s.p, n.id)])
     ELSE \* a childless leaf: its parent is rebuilt without it, and possibly merged with what remains
       LET P == h.nd[s.p]
           pEdges == SeqWithout(KidsOf(h, s.p), s.m)
           pIsRoot == s.p = T.root
       IN IF pEdges = <<>> /\ P.r = <<>> /\ ~pIsRoot THEN
             \* p only held the path of a hostname: it goes away too
             LET PP == h.nd[s.pp]
                 ppEdges == SeqWithout(KidsOf(h, s.pp), s.p)
                 ppIsRoot == s.pp = T.root
                 parent == IF Len(ppEdges) = 1 /\ PP.r = <<>> /\ h.nd[ppEdges[1]].k[1] # "/" /\ ~ppIsRoot
                             THEN LET C == h.nd[ppEdges[1]] IN NodeFromRef(h, PP.k \o C.k, C.r, C.s)
                           ELSE NodeWithKids(h, PP.k, PP.r, ppEdges)
             IN IF ppIsRoot THEN CRes("ok", WithRoot(T, parent.h, parent.id))
                ELSE CRes("ok", [T EXCEPT !.h = UpdateEdge(parent.h, s.ppp, parent.id)])
          ELSE LET parent == IF Len(pEdges) = 1 /\ P.r = <<>> /\ ~pIsRoot
                               THEN LET C == h.nd[pEdges[1]] IN NodeFromRef(h, P.k \o C.k, C.r, C.s)
                             ELSE NodeWithKids(h, P.k, P.r, pEdges)
               IN IF pIsRoot THEN CRes("ok", WithRoot(T, parent.h, parent.id))
                  ELSE CRes("ok", [T EXCEPT !.h = UpdateEdge(parent.h, s.pp, parent.id)])

\* ---- reachability, freezing, renumbering --------------------------------------------------------------
\* depth-first visit from a list of node ids: the nodes and the slices in order of first visit
RECURSIVE Visit(_, _, _)
Visit(h, todo, acc) ==
  IF todo = <<>> THEN acc
  ELSE LET id == Head(todo) IN
       IF \E i \in DOMAIN acc.n : acc.n[i] = id THEN Visit(h, Tail(todo), acc)
       ELSE LET s == h.nd[id].s
                known == s = 0 \/ \E i \in DOMAIN acc.s : acc.s[i] = s
            IN Visit(h, KidsOf(h, id) \o Tail(todo), [n |-> Append(acc.n, id), s |-> IF known THEN acc.s ELSE Append(acc.s, s)])
Reach(h, roots) == Visit(h, roots, [n |-> <<>>, s |-> <<>>])

\* nothing reachable from roots in h differs in h2 (h2 extends h: ids only grow inside one operation)
Unchanged(h, h2, roots) ==
  LET r == Reach(h, roots) IN
  /\ \A i \in DOMAIN r.n : h2.nd[r.n[i]] = h.nd[r.n[i]]
  /\ \A i \in DOMAIN r.s : h2.sl[r.s[i]] = h.sl[r.s[i]]

PosIn(seq, x) == CHOOSE i \in DOMAIN seq : seq[i] = x
\* garbage collection and canonical renumbering, so that equal situations are equal states
Renumber(h, roots, wr) ==
  LET r == Reach(h, roots)
      nn(id) == PosIn(r.n, id)
  IN [h |-> [nd |-> [i \in DOMAIN r.n |-> LET o == h.nd[r.n[i]] IN [k |-> o.k, r |-> o.r, s |-> IF o.s = 0 THEN 0 ELSE PosIn(r.s, o.s)]],
             sl |-> [j \in DOMAIN r.s |-> [x \in DOMAIN h.sl[r.s[j]] |-> nn(h.sl[r.s[j]][x])]]],
      roots |-> [i \in DOMAIN roots |-> nn(roots[i])],
      wr |-> {nn(id) : id \in {w \in wr : \E i \in DOMAIN r.n : r.n[i] = w}}]
=============================================================================
