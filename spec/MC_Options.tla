----------------------------- MODULE MC_Options -----------------------------
EXTENDS FoxOptions, FoxPattern, Gen_Options, TLC, Json, SequencesExt

VARIABLES g, mode, done

GlobalSeqs == UNION {[1..k -> GenGlobalOpts] : k \in 0..GenMaxGlobal}
RouteSeqs  == UNION {[1..k -> GenRouteOpts] : k \in 0..GenMaxRoute}

ProjRoute(c) == [ign |-> c.ign, red |-> c.red, res |-> c.res, err |-> c.err,
                 ann |-> [i \in DOMAIN GenAnnKeySeq |-> c.ann[GenAnnKeySeq[i]]]]

\* one line per global sequence: all route sequences under it
Vec(gs) ==
  [g |-> gs, router |-> RouterCfg(gs),
   routes |-> SetToSeq({ IF ~MutuallyExclusive(gs, rs) THEN Assert(FALSE, <<"both trailing-slash modes", gs, rs>>)
                         ELSE [r |-> rs, cfg |-> ProjRoute(RouteCfg(gs, rs))] : rs \in RouteSeqs })]

\* accessor consistency for the generated patterns (a second kind of line, emitted once)
Acc(p) == LET ts == Tokenize(p)
              ok == Valid(p) IN
          [pat |-> Str(p), host |-> IF ok THEN Str(HostChars(p)) ELSE "", path |-> IF ok THEN Str(PathChars(p)) ELSE "",
           nwild |-> IF ok THEN NumWild(ts) ELSE 0, valid |-> ok]

Init == /\ done = FALSE
        /\ \/ mode = "cfg" /\ g \in GlobalSeqs
           \/ mode = "acc" /\ g = <<>>
Next == /\ ~done
        /\ IF mode = "acc" THEN PrintT("VEC" \o ToJson([acc |-> [i \in DOMAIN GenPatterns |-> Acc(GenPatterns[i])]]))
           ELSE PrintT("VEC" \o ToJson(Vec(g)))
        /\ done' = TRUE /\ UNCHANGED <<g, mode>>
=============================================================================
