INIT Init
NEXT Next
CONSTANTS PoolChars <- GenPool
CHECK_DEADLOCK FALSE
