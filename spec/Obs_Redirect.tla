---------------------------- MODULE Obs_Redirect ----------------------------
(* D2 for C08: trailing-slash redirects recorded from the real router for    *)
(* plain and percent-encoded paths whose segments contain reserved           *)
(* characters, validated against the rule "the Location resolves to the      *)
(* slash-adjusted request path and keeps the query".                         *)
(* An observation is                                                         *)
(*   [method, routed |-> segments of the path as routed, resolved |->        *)
(*    segments of the resolved Location, query, resolvedquery, code, clean]  *)
(* where segments are the pieces between the (unescaped) slashes, each       *)
(* percent-decoded: "/a%2Fb/" is <<"", "a/b", "">>.                          *)
EXTENDS Naturals, Sequences, TLC, Json, IOUtils

AdjustedSegs(s) == IF Len(s) > 2 /\ s[Len(s)] = "" THEN SubSeq(s, 1, Len(s) - 1) ELSE Append(s, "")

Obs == ndJsonDeserialize("obs.ndjson")
VARIABLES i, done
Init == i \in DOMAIN Obs /\ done = FALSE
Conforms ==
  LET o == Obs[i] IN
  /\ o.clean                                        \* a redirect is only issued for a clean path
  /\ o.method # "CONNECT"
  /\ o.code = IF o.method = "GET" THEN 301 ELSE 308
  /\ o.resolved = AdjustedSegs(o.routed)
  /\ o.resolvedquery = o.query
Report == IF Conforms THEN TRUE ELSE PrintT("VEC" \o ToJson([i |-> i, want |-> AdjustedSegs(Obs[i].routed)]))
Next == ~done /\ Report /\ done' = TRUE /\ UNCHANGED i
=============================================================================
