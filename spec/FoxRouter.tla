----------------------------- MODULE FoxRouter -----------------------------
(* The router as a state machine, as one thread of control sees it          *)
(* (C02 map semantics, C03 snapshots, C04 transactions, C07 history         *)
(* independence).  One action per public call; the critical sections of a   *)
(* write transaction (lock, load, store, unlock) are refined into separate  *)
(* steps in FoxConc, which explores interleavings.                          *)
(*                                                                          *)
(*   pub   the published registered set (what Router reads answer from)     *)
(*   lock  0, or the transaction holding the writer lock                    *)
(*   txn   per transaction handle: [st, write, managed, work, n]            *)
(*         st in idle | open | done ; work is the private registered set    *)
(*   snap  per snapshot handle: [kind, S, from]; kind none | iter | txniter *)
(*         | txnsnap ; S is the frozen registered set                       *)
(*   op    observation variable: the last call, its arguments and the       *)
(*         result the specification prescribes (hidden by VIEW)             *)
EXTENDS FoxRoutes, Integers

CONSTANTS
  MethodChars,   \* sequence of method names (character sequences), valid and invalid ones
  Txns,          \* set of transaction handles (1..n)
  Snaps,         \* set of snapshot handles (1..n)
  MaxOps,        \* bound on the number of calls inside one transaction
  MaxParams, MaxKey,   \* the router's limits (WithMaxRouteParams / WithMaxRouteParamKeyBytes)
  TruncSets,     \* the method sets Truncate is called with (sets of method indices; {} = all)
  KindsUsed,     \* which of the five write calls the instance explores
  SettledUsed    \* which calls are tried on a settled transaction

VARIABLES pub, lock, txn, snap, op
vars == <<pub, lock, txn, snap, op>>
view == <<pub, lock, txn, snap>>

MIdx == DOMAIN MethodChars
PIdx == DOMAIN PoolChars
PValid == PoolValid(MaxParams, MaxKey)
MOKHandle == [m \in MIdx |-> MethodCharsOK(MethodChars[m])]     \* Handle / HandleRoute: ^[A-Z]+$
MOKOther  == [m \in MIdx |-> MethodChars[m] # <<>>]              \* Update / Delete: non-empty

TxnIdle == [st |-> "idle", write |-> FALSE, managed |-> FALSE, work |-> {}, n |-> 0]
TxnDone == [TxnIdle EXCEPT !.st = "done"]
SnapNone == [kind |-> "none", S |-> {}, from |-> 0]

WriteKinds == {"Handle", "HandleRoute", "Update", "UpdateRoute", "Delete"}

\* generation tag of the route object a successful call stores: a fresh route gets 1, Update toggles
NewG(S, m, p) == IF HasEntry(S, m, p) THEN 3 - TheEntry(S, m, p).g ELSE 1

WriteRes(S, kind, m, p) ==
  CASE kind \in {"Handle", "HandleRoute"} -> HandleRes(S, m, p, NewG(S, m, p), PValid[p], MOKHandle[m])
    [] kind \in {"Update", "UpdateRoute"} -> UpdateRes(S, m, p, NewG(S, m, p), PValid[p], MOKOther[m])
    [] kind = "Delete"                    -> DeleteRes(S, m, p, PValid[p], MOKOther[m])

ResProj(r) == [err |-> r.err, matched |-> r.matched, route |-> r.route]
Plain(err) == [err |-> err, matched |-> {}, route |-> 0]

Init ==
  /\ pub = {} /\ lock = 0
  /\ txn = [t \in Txns |-> TxnIdle]
  /\ snap = [s \in Snaps |-> SnapNone]
  /\ op = [name |-> "init", t |-> 0, s |-> 0, m |-> 0, p |-> 0, ms |-> {}, res |-> Plain("ok")]

Op(name, t, s, m, p, ms, res) == [name |-> name, t |-> t, s |-> s, m |-> m, p |-> p, ms |-> ms, res |-> res]

--------------------------------------------------------------------------
\* One-call writes on the router: lock, load, write, store, unlock in one step. They would wait for
\* the lock, so in a single thread of control they are only called when it is free.
RouterWrite(kind, m, p) ==
  /\ lock = 0
  /\ LET r == WriteRes(pub, kind, m, p) IN
     /\ pub' = r.S
     /\ op' = Op("Router." \o kind, 0, 0, m, p, {}, ResProj(r))
  /\ UNCHANGED <<lock, txn, snap>>

\* Router.Txn(write) / Updates / View
Begin(t, write, managed) ==
  /\ txn[t].st = "idle"
  /\ write => lock = 0
  /\ lock' = IF write THEN t ELSE lock
  /\ txn' = [txn EXCEPT ![t] = [st |-> "open", write |-> write, managed |-> managed, work |-> pub, n |-> 0]]
  /\ op' = Op("Begin", t, 0, 0, 0, {}, [Plain("ok") EXCEPT !.route = (IF write THEN 1 ELSE 0) + (IF managed THEN 2 ELSE 0)])
  /\ UNCHANGED <<pub, snap>>

TxnWrite(t, kind, m, p) ==
  /\ txn[t].st = "open" /\ txn[t].n < MaxOps
  /\ IF ~txn[t].write
       THEN /\ txn' = [txn EXCEPT ![t].n = @ + 1]
            \* HandleRoute / UpdateRoute take a route built beforehand with Router.NewRoute: for a malformed
            \* pattern that construction fails and the transaction is never reached
            /\ op' = Op("Txn." \o kind, t, 0, m, p, {},
                        Plain(IF kind \in {"HandleRoute", "UpdateRoute"} /\ ~PValid[p] THEN "invalid" ELSE "readonly"))
       ELSE LET r == WriteRes(txn[t].work, kind, m, p) IN
            /\ txn' = [txn EXCEPT ![t].work = r.S, ![t].n = @ + 1]
            /\ op' = Op("Txn." \o kind, t, 0, m, p, {}, ResProj(r))
  /\ UNCHANGED <<pub, lock, snap>>

TxnTruncate(t, ms) ==
  /\ txn[t].st = "open" /\ txn[t].n < MaxOps
  /\ IF ~txn[t].write
       THEN /\ txn' = [txn EXCEPT ![t].n = @ + 1]
            /\ op' = Op("Txn.Truncate", t, 0, 0, 0, ms, Plain("readonly"))
       ELSE /\ txn' = [txn EXCEPT ![t].work = TruncateRes(@, ms).S, ![t].n = @ + 1]
            /\ op' = Op("Txn.Truncate", t, 0, 0, 0, ms, Plain("ok"))
  /\ UNCHANGED <<pub, lock, snap>>

\* Commit: publishes the whole private set at once and releases the lock. No-op on a read-only transaction.
Commit(t) ==
  /\ txn[t].st = "open"
  /\ IF txn[t].write
       THEN /\ pub' = txn[t].work /\ lock' = 0
            /\ txn' = [txn EXCEPT ![t] = TxnDone]
       ELSE UNCHANGED <<pub, lock, txn>>
  /\ op' = Op("Commit", t, 0, 0, 0, {}, Plain("ok"))
  /\ UNCHANGED snap

\* Abort, an error returned by the function of Updates, a panic raised inside it, its goroutine leaving it through
\* runtime.Goexit: nothing is published.
EndWithout(t, how) ==
  /\ txn[t].st = "open"
  /\ how \in {"FnError", "FnPanic", "FnGoexit"} => txn[t].managed
  /\ how = "Abort" => ~txn[t].managed
  /\ IF txn[t].write
       THEN /\ lock' = 0 /\ txn' = [txn EXCEPT ![t] = TxnDone]
       ELSE /\ UNCHANGED lock
            /\ txn' = IF how = "Abort" THEN txn ELSE [txn EXCEPT ![t] = TxnIdle]
  /\ op' = Op(how, t, 0, 0, 0, {}, Plain("ok"))
  /\ UNCHANGED <<pub, snap>>

\* the managed wrappers commit when the function returns nil
FnReturn(t) ==
  /\ txn[t].st = "open" /\ txn[t].managed
  /\ IF txn[t].write
       THEN /\ pub' = txn[t].work /\ lock' = 0
            /\ txn' = [txn EXCEPT ![t] = TxnDone]
       ELSE /\ txn' = [txn EXCEPT ![t] = TxnIdle] /\ UNCHANGED <<pub, lock>>
  /\ op' = Op("FnReturn", t, 0, 0, 0, {}, Plain("ok"))
  /\ UNCHANGED snap

\* using a settled write transaction: every call panics with ErrSettledTxn, except Commit/Abort (no-ops)
\* and Snapshot (returns nil)
SettledCalls == {"Handle", "Update", "Delete", "Truncate", "Has", "Route", "Reverse", "Lookup", "Iter", "Len",
                 "Commit", "Abort", "Snapshot", "HandleRoute", "UpdateRoute"}
UseSettled(t, call) ==
  /\ txn[t].st = "done"
  /\ op' = Op("Settled." \o call, t, 0, 0, 0, {},
              Plain(IF call \in {"Commit", "Abort"} THEN "noop" ELSE IF call = "Snapshot" THEN "nil" ELSE "settled"))
  /\ UNCHANGED <<pub, lock, txn, snap>>

\* the handle goes out of scope (a read-only transaction needs no ending)
Forget(t) ==
  /\ txn[t].st = "done" \/ (txn[t].st = "open" /\ ~txn[t].write)
  /\ txn' = [txn EXCEPT ![t] = TxnIdle]
  /\ op' = Op("Forget", t, 0, 0, 0, {}, Plain("ok"))
  /\ UNCHANGED <<pub, lock, snap>>

--------------------------------------------------------------------------
\* Snapshots
RouterIter(s) ==
  /\ snap[s].kind = "none"
  /\ snap' = [snap EXCEPT ![s] = [kind |-> "iter", S |-> pub, from |-> 0]]
  /\ op' = Op("Router.Iter", 0, s, 0, 0, {}, Plain("ok"))
  /\ UNCHANGED <<pub, lock, txn>>

TxnIter(t, s) ==
  /\ snap[s].kind = "none" /\ txn[t].st = "open"
  /\ snap' = [snap EXCEPT ![s] = [kind |-> "txniter", S |-> txn[t].work, from |-> t]]
  /\ op' = Op("Txn.Iter", t, s, 0, 0, {}, Plain("ok"))
  /\ UNCHANGED <<pub, lock, txn>>

TxnSnapshot(t, s) ==
  /\ snap[s].kind = "none" /\ txn[t].st = "open"
  /\ snap' = [snap EXCEPT ![s] = [kind |-> "txnsnap", S |-> txn[t].work, from |-> t]]
  /\ op' = Op("Txn.Snapshot", t, s, 0, 0, {}, Plain("ok"))
  /\ UNCHANGED <<pub, lock, txn>>

DropSnap(s) ==
  /\ snap[s].kind # "none"
  /\ snap' = [snap EXCEPT ![s] = SnapNone]
  /\ op' = Op("DropSnap", 0, s, 0, 0, {}, Plain("ok"))
  /\ UNCHANGED <<pub, lock, txn>>

--------------------------------------------------------------------------
Next ==
  \/ \E k \in KindsUsed, m \in MIdx, p \in PIdx : RouterWrite(k, m, p)
  \/ \E t \in Txns, w \in BOOLEAN, g \in BOOLEAN : Begin(t, w, g)
  \/ \E t \in Txns, k \in KindsUsed, m \in MIdx, p \in PIdx : TxnWrite(t, k, m, p)
  \/ \E t \in Txns, ms \in TruncSets : TxnTruncate(t, ms)
  \/ \E t \in Txns : Commit(t) \/ FnReturn(t) \/ Forget(t)
  \/ \E t \in Txns, how \in {"Abort", "FnError", "FnPanic", "FnGoexit"} : EndWithout(t, how)
  \/ \E t \in Txns, c \in SettledUsed : UseSettled(t, c)
  \/ \E s \in Snaps : RouterIter(s) \/ DropSnap(s)
  \/ \E t \in Txns, s \in Snaps : TxnIter(t, s) \/ TxnSnapshot(t, s)

Spec == Init /\ [][Next]_vars

--------------------------------------------------------------------------
\* Invariants
EntryOK(e) == e.m \in MIdx /\ e.p \in PIdx /\ e.g \in {1, 2} /\ PValid[e.p] /\ MOKHandle[e.m]
SetOK(S) == (\A e \in S : EntryOK(e)) /\ ConflictFree(S)
                /\ \A a, b \in S : (a.m = b.m /\ a.p = b.p) => a = b          \* a map: one route per key

TypeOK ==
  /\ SetOK(pub) /\ lock \in Txns \cup {0}
  /\ \A t \in Txns : txn[t].st \in {"idle", "open", "done"} /\ SetOK(txn[t].work) /\ txn[t].n \in 0..MaxOps
  /\ \A s \in Snaps : snap[s].kind \in {"none", "iter", "txniter", "txnsnap"} /\ SetOK(snap[s].S)

\* the writer lock is held exactly by the open write transaction
LockDiscipline ==
  \A t \in Txns : (lock = t) <=> (txn[t].st = "open" /\ txn[t].write)

\* C04 isolation: while a write transaction is open nothing else can publish, so the published set is
\* still the one the transaction started from or... (single thread: pub cannot change under an open write txn)
--------------------------------------------------------------------------
\* Action properties
\* C03: a snapshot, once taken, never changes (until its handle is dropped); same for a read-only transaction
SnapshotFrozen ==
  [][ /\ \A s \in Snaps : (snap[s].kind # "none" /\ snap'[s].kind # "none") => snap'[s] = snap[s]
      /\ \A t \in Txns : (txn[t].st = "open" /\ ~txn[t].write /\ txn'[t].st = "open") => txn'[t].work = txn[t].work ]_vars

\* C04 atomicity: the published set changes only by a successful one-call write or by Commit/FnReturn,
\* and then it becomes exactly the private set of the committing transaction
PublishOnlyAtCommit ==
  [][ pub' # pub =>
        \/ \E k \in WriteKinds : op'.name = "Router." \o k /\ op'.res.err = "ok"
        \/ (op'.name \in {"Commit", "FnReturn"} /\ pub' = txn[op'.t].work /\ txn[op'.t].write) ]_vars

\* C04: Abort / error / panic publish nothing and release the lock
AbortLeavesNothing ==
  [][ op'.name \in {"Abort", "FnError", "FnPanic", "FnGoexit"} => (pub' = pub /\ lock' = 0) ]_vars

\* C02: a failed call changes nothing, anywhere
FailedCallNoEffect ==
  [][ op'.res.err \notin {"ok", "noop", "nil"} =>
        (pub' = pub /\ \A t \in Txns : txn'[t].work = txn[t].work) ]_vars

\* C04 isolation: writes inside a transaction never touch the published set
WritesArePrivate ==
  [][ (\E k \in WriteKinds : op'.name = "Txn." \o k) \/ op'.name = "Txn.Truncate" => pub' = pub ]_vars
=============================================================================
