-------------------------- MODULE FoxProto_proofs --------------------------
(* TLAPS proofs for FoxProto: the invariant is inductive, and the safety     *)
(* properties follow, for ANY set of writers and any number of versions.     *)
(* Checked by tlapm (bin/check C05); not parsed by SANY/TLC, which do not    *)
(* ship the TLAPS module.                                                    *)
EXTENDS FoxProto, TLAPS

\* ---- TLAPS: the invariant is inductive for any set of writers --------------------------------------------
THEOREM InitInv == Init => IndInv
  BY NoneNotWriter DEF Init, IndInv, TypeOK, LockOwner, NoLostUpdate, PublishedOnce, Holding, PCs

THEOREM NextInv == IndInv /\ [Next]_vars => IndInv'
  <1> SUFFICES ASSUME IndInv, [Next]_vars PROVE IndInv'
    OBVIOUS
  <1> USE NoneNotWriter DEF IndInv, TypeOK, LockOwner, NoLostUpdate, PublishedOnce, Holding, PCs
  <1>0 CASE UNCHANGED vars
    BY <1>0 DEF vars
  <1>1 ASSUME NEW w \in Writers, Call(w) PROVE IndInv'
    BY <1>1 DEF Call
  <1>2 ASSUME NEW w \in Writers, Acquire(w) PROVE IndInv'
    BY <1>2 DEF Acquire
  <1>3 ASSUME NEW w \in Writers, Load(w) PROVE IndInv'
    BY <1>3 DEF Load
  <1>4 ASSUME NEW w \in Writers, Finish(w) PROVE IndInv'
    BY <1>4 DEF Finish
  <1>5 ASSUME NEW w \in Writers, Store(w) PROVE IndInv'
    BY <1>5 DEF Store
  <1>6 ASSUME NEW w \in Writers, Unlock(w) PROVE IndInv'
    BY <1>6 DEF Unlock
  <1>7 ASSUME NEW w \in Writers, NEW k \in Writers, Handover(w, k) PROVE IndInv'
    BY <1>7 DEF Handover
  <1> QED
    BY <1>0, <1>1, <1>2, <1>3, <1>4, <1>5, <1>6, <1>7 DEF Next

THEOREM InvSafe == IndInv => Safety
  BY NoneNotWriter DEF IndInv, TypeOK, LockOwner, NoLostUpdate, PublishedOnce, Holding, Safety, MutualExclusion

THEOREM Safe == Spec => []Safety
  <1>1 Spec => []IndInv
    BY InitInv, NextInv, PTL DEF Spec
  <1> QED
    BY <1>1, InvSafe, PTL
=============================================================================
