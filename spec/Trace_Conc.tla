----------------------------- MODULE Trace_Conc -----------------------------
(* Trace validation for C05 (and the concurrent parts of C03/C04): events    *)
(* recorded from free-running goroutines of the real router - built with the *)
(* race detector - are replayed against the actions of FoxConc.              *)
(*                                                                           *)
(* Events are ordered by one global atomic counter.  Driver events           *)
(*   wcall (a write call starts, with its program), wop (one write of an     *)
(*   explicit transaction returned, with its result), wend (Commit/Abort is  *)
(*   about to be called), wret (the call returned, with its results),        *)
(*   rcall / rret (a read call starts / returned, with its result)           *)
(* and hook events, logged at the verification points of the implementation  *)
(*   lw la ld bs as ab ul (writers), rload (readers)                         *)
(* A hook event is a marker: it is logged after the step it follows, so the  *)
(* step itself - taking the mutex, loading the root, the store, the unlock,  *)
(* a reader's atomic load - is not logged.  Steps nobody else can observe    *)
(* are taken at their marker; the store is taken as soon as its "bs" marker  *)
(* is consumed and the unlock as soon as "as"/"ab" is (the earliest, most    *)
(* permissive placements).  A reader's load lies between its "rcall" and     *)
(* "rload" events: it may return any version from the last one certainly     *)
(* published at "rcall" (all "as" markers consumed) to the last one whose    *)
(* store had begun at "rload" ("bs" consumed); the recorded result (copied   *)
(* onto the "rload" line by the driver) selects the smallest such version    *)
(* not older than what this reader saw before, which is complete for         *)
(* monotone reads.  Validation is therefore linear in the trace length.      *)
EXTENDS FoxConc, Gen_Conc, TLC, Json, IOUtils

Trace == ndJsonDeserialize("trace.ndjson")

VARIABLES l, started, marked, stable, lo
tvars == <<hist, lock, w, rd, op, l, started, marked, stable, lo>>

Ev == Trace[l]
HasEv == l <= Len(Trace)
\* an unlock is due: the "as"/"ab" marker of writer i has been consumed, the mutex is released right away
\* (the earliest placement is the most permissive one for everybody else, so it cannot cause a false rejection)
UnlockDue(i) == marked[i] /\ w[i].pc \in {"stored", "aborting"}
StoreDue(i) == marked[i] /\ w[i].pc = "prestore"
Quiet == \A i \in Writers : ~UnlockDue(i) /\ ~StoreDue(i)
IsEv(name) == HasEv /\ Quiet /\ Ev.e = name
Consume == l' = l + 1
Marker(cond) == cond /\ Consume /\ UNCHANGED <<hist, lock, w, rd, op, started, marked, stable, lo>>

ProgOf(e) == [single |-> e.single, ops |-> e.ops, end |-> e.end]

TInit == /\ Init /\ l = 1 /\ started = [j \in Readers |-> FALSE] /\ marked = [i \in Writers |-> FALSE]
         /\ stable = 1 /\ lo = [j \in Readers |-> 1] /\ TLCSet(1, 1)

\* ---- logged steps
T_wcall == IsEv("wcall") /\ CallBegin(Ev.g, ProgOf(Ev)) /\ Consume /\ UNCHANGED <<started, marked, stable, lo>>
T_wop   == IsEv("wop") /\ TxnOp(Ev.g) /\ op'.res = <<Ev.res>> /\ Consume /\ UNCHANGED <<started, marked, stable, lo>>
T_wend  == IsEv("wend") /\ CallEnd(Ev.g) /\ Consume /\ UNCHANGED <<started, marked, stable, lo>>
T_wret  == IsEv("wret") /\ Return(Ev.g) /\ w[Ev.g].res = Ev.res /\ Consume /\ UNCHANGED <<started, marked, stable, lo>>
T_rcall == /\ IsEv("rcall") /\ rd[Ev.g].pc = "idle" /\ ~started[Ev.g]
           /\ started' = [started EXCEPT ![Ev.g] = TRUE]
           /\ rd' = [rd EXCEPT ![Ev.g].call = Ev.call]
           /\ lo' = [lo EXCEPT ![Ev.g] = stable]
           /\ Consume /\ UNCHANGED <<hist, lock, w, op, marked, stable>>
T_rret  == /\ IsEv("rret") /\ RReturn(Ev.g) /\ op'.res = Ev.res
           /\ started' = [started EXCEPT ![Ev.g] = FALSE] /\ Consume /\ UNCHANGED <<marked, stable, lo>>

\* ---- markers written by the hooks.  Steps that nobody else can observe are taken at the marker that follows
\* them (taking the mutex at "la", loading the root at "ld" - the lock is held, the root cannot change in
\* between -, the single write of a one-call helper at "bs"/"ab").
T_lw    == IsEv("lw") /\ Marker(w[Ev.g].pc = "waiting")
T_la    == IsEv("la") /\ Acquire(Ev.g) /\ Consume /\ UNCHANGED <<started, marked, stable, lo>>
T_ld    == IsEv("ld") /\ LoadRoot(Ev.g) /\ Consume /\ UNCHANGED <<started, marked, stable, lo>>
JustInTime == /\ HasEv /\ Quiet /\ Ev.e \in {"bs", "ab"} /\ w[Ev.g].pc = "open" /\ w[Ev.g].prog.single
              /\ RunSingle(Ev.g) /\ UNCHANGED <<l, started, marked, stable, lo>>
T_bs    == /\ IsEv("bs") /\ w[Ev.g].pc = "prestore" /\ Consume
           /\ marked' = [marked EXCEPT ![Ev.g] = TRUE] /\ UNCHANGED <<hist, lock, w, rd, op, started, stable, lo>>
T_as    == /\ IsEv("as") /\ w[Ev.g].pc = "stored" /\ Consume
           /\ marked' = [marked EXCEPT ![Ev.g] = TRUE] /\ stable' = ver
           /\ UNCHANGED <<hist, lock, w, rd, op, started, lo>>
T_ab    == /\ IsEv("ab") /\ w[Ev.g].pc = "aborting" /\ Consume
           /\ marked' = [marked EXCEPT ![Ev.g] = TRUE] /\ UNCHANGED <<hist, lock, w, rd, op, started, stable, lo>>
T_ul    == IsEv("ul") /\ Marker(w[Ev.g].pc = "unlocked")

\* the reader's load, placed by its result
Max2(a, b) == IF a > b THEN a ELSE b
T_rload == /\ IsEv("rload") /\ started[Ev.g]
           /\ LET j == Ev.g
                  from == Max2(lo[j], rd[j].last)
                  cands == {v \in from..ver : Eval(rd[j].call, hist[v]) = Ev.res}
              IN /\ cands # {}
                 /\ RLoadAt(j, rd[j].call, CHOOSE v \in cands : \A u \in cands : v <= u)
           /\ Consume /\ UNCHANGED <<started, marked, stable, lo>>

DueStore  == \E i \in Writers : StoreDue(i) /\ Store(i) /\ marked' = [marked EXCEPT ![i] = FALSE] /\ UNCHANGED <<l, started, stable, lo>>
DueUnlock == \E i \in Writers : UnlockDue(i) /\ Unlock(i) /\ marked' = [marked EXCEPT ![i] = FALSE] /\ UNCHANGED <<l, started, stable, lo>>

TNext == T_wcall \/ T_wop \/ T_wend \/ T_wret \/ T_rcall \/ T_rret
         \/ T_lw \/ T_la \/ T_ld \/ JustInTime \/ T_bs \/ T_as \/ T_ab \/ T_ul \/ T_rload \/ DueStore \/ DueUnlock

TSpec == TInit /\ [][TNext]_tvars

\* the invariants of the protocol are evaluated in every state of the accepted placement
HighWater == TLCSet(1, IF l > TLCGet(1) THEN l ELSE TLCGet(1))
Accepted == TLCGet(1) = Len(Trace) + 1
=============================================================================
