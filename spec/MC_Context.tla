----------------------------- MODULE MC_Context -----------------------------
(* All sequences of at most GenMaxLen request shapes (with and without a     *)
(* tree replacement before each request).  One line per sequence with the    *)
(* observation prescribed at every step and for every clone kept.            *)
EXTENDS FoxContext, Gen_Context, TLC, Json, SequencesExt

VARIABLES sq, done
ShapeSeq == SetToSortSeq(Shapes, LAMBDA a, b : TRUE)
Seqs == UNION {[1..k -> Shapes \X BOOLEAN] : k \in 1..GenMaxLen}

Vec(s) == [steps |-> [i \in DOMAIN s |-> [shape |-> s[i][1], replaced |-> s[i][2], tok |-> i, expect |-> Expect(s[i][1]),
                                          clone |-> s[i][1] \in CloneShapes,
                                          keepparams |-> s[i][1] \in KeptParamShapes]]]

Init2 == sq \in Seqs /\ done = FALSE /\ Init
Next2 == ~done /\ PrintT("VEC" \o ToJson(Vec(sq))) /\ done' = TRUE /\ UNCHANGED <<sq, pool, clones, n, op>>
=============================================================================
