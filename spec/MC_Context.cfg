INIT Init2
NEXT Next2
CHECK_DEADLOCK FALSE
