----------------------------- MODULE MC_Lookup -----------------------------
(* The node-level walk of FoxLookup computes, on the tree FoxRadix builds   *)
(* for a set of patterns, exactly the selection FoxMatch documents: checked *)
(* for every conflict-free table of at most GenMaxTab path patterns of the  *)
(* pool (its first GenEnumN entries combined exhaustively, plus the listed *)
(* extra tables) and every generated path.                                 *)
EXTENDS FoxLookup, FoxMatch, Gen_Lookup, TLC, Json

PToks == [i \in DOMAIN GenPool |-> Tokenize(GenPool[i])]
ValidIdx == {i \in DOMAIN GenPool : Valid(GenPool[i])}

RECURSIVE ConflictAt(_, _)
ConflictAt(a, b) ==
  IF a = <<>> \/ b = <<>> THEN FALSE
  ELSE IF Head(a) = Head(b) THEN ConflictAt(Tail(a), Tail(b))
  ELSE Head(a).k = Head(b).k /\ Head(a).k \in {"par", "cat"}
ConflictFreeIdx(S) == \A i, j \in S : ~ConflictAt(PToks[i], PToks[j])

Tables == {S \in (SubsetsUpTo(ValidIdx \cap (1..GenEnumN), GenMaxTab) \ {{}}) \cup GenExtraTables : S \subseteq ValidIdx /\ ConflictFreeIdx(S)}

VARIABLES tab, done
TableOf(S) == LET ids == SetToSortSeq(S, <) IN [i \in DOMAIN ids |-> [toks |-> PToks[ids[i]], pi |-> ids[i]]]

\* path-only tables ignore the host: one host is enough for them
TableHasHost(S) == \E i \in S : GenPool[i][1] # "/"
HostsFor(S) == IF TableHasHost(S) THEN DOMAIN GenHosts ELSE {1}

Agree(S, h, p) ==
  LET T == TableOf(S)
      want == Lookup(T, h, p)
      tree == Canonical({GenPool[i] : i \in S})
      got == Selected(LookupRoot(tree, StripHostPort(h), p))
  IN IF want.ok THEN got.ok /\ got.route = GenPool[T[want.id].pi] /\ got.tsr = want.tsr /\ got.b = want.b
     ELSE ~got.ok

\* (an IF, not a disjunction: inside an action TLC explores both disjuncts)
Check(S) == \A hi \in HostsFor(S), k \in DOMAIN GenPaths :
              IF Agree(S, GenHosts[hi], GenPaths[k]) THEN TRUE
              ELSE IF GenCollect THEN \* witness collection: report every disagreement and go on
                   PrintT("VEC" \o ToJson([t |-> SetToSeq(S), h |-> hi, p |-> k]))
              ELSE Assert(FALSE, <<"walk and reference disagree", {GenPool[i] : i \in S}, GenHosts[hi], GenPaths[k],
                                   Lookup(TableOf(S), GenHosts[hi], GenPaths[k]),
                                   Selected(LookupRoot(Canonical({GenPool[i] : i \in S}), StripHostPort(GenHosts[hi]), GenPaths[k]))>>)

Init == tab \in Tables /\ done = FALSE
Next == ~done /\ Check(tab) /\ done' = TRUE /\ UNCHANGED tab
=============================================================================
