----------------------------- MODULE Obs_Pattern -----------------------------
(* D2 for C10: verdicts of the real registration on long random patterns     *)
(* (labels of 63/64 bytes, hostnames of 255/256, many parameters) validated  *)
(* against the grammar.  Observation: [s |-> chars, maxp, maxk, ok].         *)
EXTENDS FoxPattern, TLC, Json, IOUtils

Obs == ndJsonDeserialize("obs.ndjson")
VARIABLES i, done
Init == i \in DOMAIN Obs /\ done = FALSE
Conforms == Obs[i].ok = ValidPattern(Obs[i].s, Obs[i].maxp, Obs[i].maxk)
Report == IF Conforms THEN TRUE ELSE PrintT("VEC" \o ToJson([i |-> i, want |-> ~Obs[i].ok]))
\* evaluated inside Next so that it runs on a worker thread (deep recursion needs the -Xss stack)
Next == ~done /\ Report /\ done' = TRUE /\ UNCHANGED i
=============================================================================
