SPECIFICATION Spec
CONSTANTS
  Keys <- GenKeys
  Writers <- GenWriters
  Readers <- GenReaders
  Prog <- GenProg
  ReadCalls <- GenReadCalls
  MaxReads <- GenMaxReads
  Broken <- GenBroken
  InitMap <- GenInit
INVARIANTS TypeOK MutualExclusion NoLostUpdate ReadsNeverWait
PROPERTIES ReaderProgress
CHECK_DEADLOCK FALSE
