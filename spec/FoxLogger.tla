----------------------------- MODULE FoxLogger -----------------------------
(* C20: the record the Logger middleware emits after the wrapped handler    *)
(* returned, as a function of what the handler did and of the resolver.     *)
EXTENDS Naturals, Sequences

Level(status) ==
  IF status >= 200 /\ status < 300 THEN "INFO"
  ELSE IF status >= 300 /\ status < 400 THEN "DEBUG"
  ELSE IF status >= 400 /\ status < 500 THEN "WARN"
  ELSE IF status >= 500 THEN "ERROR"
  ELSE "INFO"

\* what the handler did -> the status the recorder holds when it returns
\*   <<"status", c>> explicit final status; <<"body">> body without header; <<"nothing">>; <<"info", c>> only an informational header
\*   <<"bodythen", c>> body bytes (implicit 200), then a late WriteHeader(c); <<"twice", c1, c2>> two final headers;
\*   <<"flushthen", c>> a flush (implicit 200), then WriteHeader(c); <<"infotwice", i, c1, c2>> informational, final, final.
\* The status reported is the first final status forwarded (C14), never one that was ignored.
RecordedStatus(did) ==
  CASE did[1] = "status" -> did[2]
    [] did[1] = "twice" -> did[2]
    [] did[1] = "infotwice" -> did[3]
    [] OTHER -> 200

\* resolver: "none" (not configured), "ok" (succeeds), "fail"
Message(resolver) == CASE resolver = "none" -> "remote" [] resolver = "ok" -> "resolved" [] resolver = "fail" -> "unknown"

\* the resolver in force: the route's inside a route handler, the router's elsewhere
InForce(kind, routerRes, routeRes) == IF kind = "route" THEN routeRes ELSE routerRes

Record(kind, did, hasLocation, routerRes, routeRes) ==
  LET st == RecordedStatus(did) IN
  [level |-> Level(st), status |-> st, msg |-> Message(InForce(kind, routerRes, routeRes)),
   location |-> Level(st) = "DEBUG" /\ hasLocation]
=============================================================================
