----------------------------- MODULE FoxLogger -----------------------------
(* C20: the record the Logger middleware emits after the wrapped handler    *)
(* returned, as a function of what the handler did and of the resolver.     *)
EXTENDS Naturals, Sequences

Level(status) ==
  IF status >= 200 /\ status < 300 THEN "INFO"
  ELSE IF status >= 300 /\ status < 400 THEN "DEBUG"
  ELSE IF status >= 400 /\ status < 500 THEN "WARN"
  ELSE IF status >= 500 THEN "ERROR"
  ELSE "INFO"

\* what the handler did -> the status the recorder holds when it returns
\*   <<"status", c>> explicit final status; <<"body">> body without header; <<"nothing">>; <<"info", c>> only an informational header
RecordedStatus(did) == IF did[1] = "status" THEN did[2] ELSE 200

\* resolver: "none" (not configured), "ok" (succeeds), "fail"
Message(resolver) == CASE resolver = "none" -> "remote" [] resolver = "ok" -> "resolved" [] resolver = "fail" -> "unknown"

\* the resolver in force: the route's inside a route handler, the router's elsewhere
InForce(kind, routerRes, routeRes) == IF kind = "route" THEN routeRes ELSE routerRes

Record(kind, did, hasLocation, routerRes, routeRes) ==
  LET st == RecordedStatus(did) IN
  [level |-> Level(st), status |-> st, msg |-> Message(InForce(kind, routerRes, routeRes)),
   location |-> Level(st) = "DEBUG" /\ hasLocation]
=============================================================================
