---------------------------- MODULE Trace_Router ----------------------------
(* Trace validation for C02 / C03 / C04 / C07: long random histories of the  *)
(* registration API recorded from the real router - far beyond the bounds of *)
(* the exhaustive instances (hundreds of patterns, fan-out above the         *)
(* 50-child search switch, transactions of thousands of writes, i.e. more    *)
(* nodes than the clone cache holds, snapshots re-read much later) - are     *)
(* replayed against the actions of FoxRouter.                                *)
(*                                                                           *)
(* Every line is one call with its arguments and what the real code          *)
(* returned, or an observation ("Observe") of one view: the router, an open  *)
(* transaction, or a snapshot handle, as the list of (method, pattern,       *)
(* generation) it currently shows together with Len().                       *)
(* The history is sequential and fully logged, so validation is              *)
(* deterministic: it is accepted iff every line is consumed.                 *)
EXTENDS FoxRouter, Gen_Router, TLC, Json, IOUtils

Trace == ndJsonDeserialize("trace.ndjson")
VARIABLE l
tvars == <<pub, lock, txn, snap, op, l>>

Ev == Trace[l]
IsEv(names) == l <= Len(Trace) /\ Ev.name \in names
Consume == l' = l + 1
ToSet(sq) == {sq[i] : i \in DOMAIN sq}

\* the result the real call returned must be the one the specification prescribes
ResultMatches ==
  /\ op'.res.err = Ev.err
  /\ Ev.err = "conflict" => op'.res.matched = ToSet(Ev.matched)


TInit == Init /\ l = 1 /\ TLCSet(1, 1)

T_RouterWrite == IsEv({"RouterWrite"}) /\ RouterWrite(Ev.kind, Ev.m, Ev.p) /\ ResultMatches /\ Consume
T_Begin       == IsEv({"Begin"}) /\ Begin(Ev.t, Ev.write, Ev.managed) /\ Consume
T_TxnWrite    == IsEv({"TxnWrite"}) /\ TxnWrite(Ev.t, Ev.kind, Ev.m, Ev.p) /\ ResultMatches /\ Consume
T_TxnTruncate == IsEv({"TxnTruncate"}) /\ TxnTruncate(Ev.t, ToSet(Ev.ms)) /\ ResultMatches /\ Consume
T_Commit      == IsEv({"Commit"}) /\ Commit(Ev.t) /\ Consume
T_End         == IsEv({"Abort", "FnError", "FnPanic", "FnGoexit"}) /\ EndWithout(Ev.t, Ev.name) /\ Consume
T_FnReturn    == IsEv({"FnReturn"}) /\ FnReturn(Ev.t) /\ Consume
T_Forget      == IsEv({"Forget"}) /\ Forget(Ev.t) /\ Consume
T_RouterIter  == IsEv({"RouterIter"}) /\ RouterIter(Ev.s) /\ Consume
T_TxnIter     == IsEv({"TxnIter"}) /\ TxnIter(Ev.t, Ev.s) /\ Consume
T_TxnSnapshot == IsEv({"TxnSnapshot"}) /\ TxnSnapshot(Ev.t, Ev.s) /\ Consume
T_DropSnap    == IsEv({"DropSnap"}) /\ DropSnap(Ev.s) /\ Consume

\* what a view must show: every entry with its generation, and the matching Len()
Shown(S) == {<<e.m, e.p, e.g>> : e \in S}
ViewOf(e) == CASE e.view = "router" -> pub
               [] e.view = "txn"    -> txn[e.t].work
               [] e.view = "snap"   -> snap[e.s].S
T_Observe ==
  /\ IsEv({"Observe"})
  /\ Ev.view = "txn" => txn[Ev.t].st = "open"
  /\ Ev.view = "snap" => snap[Ev.s].kind # "none"
  /\ Shown(ViewOf(Ev)) = ToSet(Ev.set)
  /\ Ev.len = Cardinality(ViewOf(Ev))
  /\ Consume /\ UNCHANGED vars

TNext == T_RouterWrite \/ T_Begin \/ T_TxnWrite \/ T_TxnTruncate \/ T_Commit \/ T_End \/ T_FnReturn \/ T_Forget
         \/ T_RouterIter \/ T_TxnIter \/ T_TxnSnapshot \/ T_DropSnap \/ T_Observe
TSpec == TInit /\ [][TNext]_tvars

HighWater == TLCSet(1, IF l > TLCGet(1) THEN l ELSE TLCGet(1))
Accepted == TLCGet(1) = Len(Trace) + 1
\* which line stopped the validation (printed by the harness on rejection)
=============================================================================
