--------------------------- MODULE FoxCleanPath ---------------------------
(* Reference semantics of CleanPath (C17): split on "/", drop empty and    *)
(* "." elements, let ".." pop the preceding element (never above the root),*)
(* re-join under a leading "/", keep a trailing slash exactly when the     *)
(* input ended with "/" or with a "." element and the result is not "/".   *)
EXTENDS FoxStrings

RECURSIVE CleanStack(_, _)
CleanStack(es, st) ==
  IF es = <<>> THEN st
  ELSE LET e == Head(es) IN
       IF e = <<>> \/ e = <<".">> THEN CleanStack(Tail(es), st)
       ELSE IF e = <<".", ".">> THEN CleanStack(Tail(es), IF st = <<>> THEN st ELSE DropLast(st))
       ELSE CleanStack(Tail(es), Append(st, e))

Clean(s) ==
  IF s = <<>> THEN <<"/">>
  ELSE LET es == SplitOn(s, "/")
           st == CleanStack(es, <<>>)
           body == <<"/">> \o JoinWith(st, "/")
           trail == (Len(s) > 1 /\ LastOf(s) = "/") \/ LastOf(es) = <<".">>
       IN IF trail /\ st # <<>> THEN Append(body, "/") ELSE body

\* canonical form: rooted, no empty, "." or ".." element (one optional trailing slash, except for the root)
IsCanonical(s) ==
  /\ s # <<>> /\ s[1] = "/"
  /\ \/ s = <<"/">>
     \/ LET inner == IF LastOf(s) = "/" THEN SubSeq(s, 2, Len(s) - 1) ELSE Rest(s, 2)
            es == SplitOn(inner, "/")
        IN \A i \in DOMAIN es : es[i] # <<>> /\ es[i] # <<".">> /\ es[i] # <<".", ".">>

\* theorems checked on the bounded domain
Idempotent(s)      == Clean(Clean(s)) = Clean(s)
ResultCanonical(s) == IsCanonical(Clean(s))
FixedPoint(s)      == IsCanonical(s) => Clean(s) = s
\* ".." never rises above the root and never resurrects anything: the number of real elements of the result
\* is (#real - #dotdot) at least 0 -- implied by CleanStack; trailing slash rule stated directly:
TrailingRule(s) ==
  LET c == Clean(s) IN
  (Len(c) > 1 /\ LastOf(c) = "/") <=>
     (c # <<"/">> /\ s # <<>> /\ ((Len(s) > 1 /\ LastOf(s) = "/") \/ LastOf(SplitOn(s, "/")) = <<".">>))
=============================================================================
