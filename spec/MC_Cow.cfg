SPECIFICATION Spec
VIEW view
CONSTANT Variant <- GenVariant
INVARIANTS NothingFrozenIsTouched WritablePrivate Refines PublishedCanonical
CONSTRAINT Bounded
CHECK_DEADLOCK FALSE
