------------------------------ MODULE Obs_Clean ------------------------------
(* D2 for C17: observations recorded from the real CleanPath on long random  *)
(* inputs (crossing the 128-byte stack buffer) are validated against Clean.  *)
(* Each observation is [in |-> chars, out |-> chars].                        *)
EXTENDS FoxCleanPath, TLC, Json, IOUtils

Obs == ndJsonDeserialize("obs.ndjson")
VARIABLES i, done
Init == i \in DOMAIN Obs /\ done = FALSE
\* the observation of the real code must be what the specification prescribes
Conforms == Obs[i].out = Clean(Obs[i].in)
Report == IF Conforms THEN TRUE ELSE PrintT("VEC" \o ToJson([i |-> i, want |-> Str(Clean(Obs[i].in))]))
\* evaluated inside Next so that it runs on a worker thread (deep recursion needs the -Xss stack)
Next == ~done /\ Report /\ done' = TRUE /\ UNCHANGED i
=============================================================================
