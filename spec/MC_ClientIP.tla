---------------------------- MODULE MC_ClientIP ----------------------------
(* All abstract headers of at most GenMaxLines lines x GenMaxEntries entries *)
(* over the entry classes, every strategy with its parameters, and the       *)
(* prefix-independence theorem for every prefix of at most GenMaxPrefix      *)
(* entries.  One state per header; one JSON line with every prescribed       *)
(* result.                                                                   *)
EXTENDS FoxClientIP, Gen_ClientIP, TLC, Json, SequencesExt

VARIABLES hdr, done

\* entry classes (ids distinguish two addresses of the same class)
EntryClasses == { [ok |-> TRUE, id |-> 1, cls |-> "pub"], [ok |-> TRUE, id |-> 2, cls |-> "privnet"],
             [ok |-> TRUE, id |-> 3, cls |-> "loop"], [ok |-> TRUE, id |-> 4, cls |-> "cust"],
             [ok |-> FALSE, id |-> 5, cls |-> "junk"], [ok |-> FALSE, id |-> 6, cls |-> "unspec"] } \cup
           (IF GenWithEmpty THEN {[ok |-> FALSE, id |-> 7, cls |-> "empty"]} ELSE {})

LinesOf(maxE) == UNION {[1..k -> EntryClasses] : k \in 1..maxE}
HeaderSet == UNION {[1..n -> LinesOf(GenMaxEntries)] : n \in 0..GenMaxLines}
AttackPrefixes == UNION {[1..n -> LinesOf(GenMaxPrefix)] : n \in 1..1}

E(e) == e.id
L(ls) == [i \in DOMAIN ls |-> [j \in DOMAIN ls[i] |-> E(ls[i][j])]]
Out(r) == IF r.ok THEN r.pos ELSE 0

\* the last one is the empty set: a range provider that returns nothing trusts nothing
TrustedSets == << {"privnet", "loop"}, {"privnet"}, {"cust"}, {"cust", "privnet", "loop"}, {} >>

Vec(ls) ==
  IF ~(\A pre \in AttackPrefixes, t \in DOMAIN TrustedSets, n \in 1..3 : Unspoofable(ls, pre, TrustedSets[t], n))
    THEN Assert(FALSE, <<"spoof-resistance theorem fails", ls>>)
  ELSE [h |-> L(ls),
        rtc |-> [n \in 1..3 |-> Out(RightmostTrustedCount(ls, n))],
        rnp |-> [t \in 1..2 |-> Out(RightmostNonPrivate(ls, TrustedSets[t]))],
        rtr |-> [t \in 1..3 |-> Out(RightmostTrustedRange(ls, TrustedSets[t + 2]))],
        lnp |-> [t \in 1..2 |-> [lim \in 1..3 |-> Out(LeftmostNonPrivate(ls, lim, TrustedSets[t]))]],
        single |-> Out(SingleHeader(ls)),
        chain |-> Out(Chain(<<RightmostTrustedRange(ls, {"cust"}), RightmostTrustedCount(ls, 3), LeftmostNonPrivate(ls, 2, {"privnet", "loop"})>>))]

Init == hdr \in HeaderSet /\ done = FALSE
Next == ~done /\ PrintT("VEC" \o ToJson(Vec(hdr))) /\ done' = TRUE /\ UNCHANGED hdr
=============================================================================
