SPECIFICATION TSpec
CONSTANTS
  Keys <- GenKeys
  Writers <- GenWriters
  Readers <- GenReaders
  Prog <- GenProg
  ReadCalls <- GenReadCalls
  MaxReads <- GenMaxReads
  Broken <- GenBroken
  InitMap <- GenInit
INVARIANTS MutualExclusion NoLostUpdate MonotoneReads ReadsSeePublished
CONSTRAINT HighWater
POSTCONDITION Accepted
CHECK_DEADLOCK FALSE
