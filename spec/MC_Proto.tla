------------------------------ MODULE MC_Proto ------------------------------
(* FoxProto for the tools that need constants: Apalache (ConstInit; the      *)
(* inductive step for three writers and unbounded versions) and TLC (a       *)
(* bounded instance, as a sanity check of the module itself).                *)
EXTENDS FoxProto
ConstInit == Writers = {"w1", "w2", "w3"} /\ None = "none"
MCInit == /\ pc = [w \in Writers |-> "idle"] /\ lock = None /\ ver \in 0..1 /\ base \in [Writers -> 0..1]
MCSpec == MCInit /\ [][Next]_vars
VerBound == ver <= 4
=============================================================================
