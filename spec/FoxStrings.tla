---------------------------- MODULE FoxStrings ----------------------------
(* Character-sequence helpers.  Every string the specification inspects     *)
(* (patterns, paths, hosts) is a sequence of one-character strings, because *)
(* TLC cannot index into a TLA+ string.                                     *)
EXTENDS Naturals, Sequences, FiniteSets

\* index of the first occurrence of c in s at or after position i, 0 if none
RECURSIVE IndexFrom(_, _, _)
IndexFrom(s, c, i) ==
  IF i > Len(s) THEN 0 ELSE IF s[i] = c THEN i ELSE IndexFrom(s, c, i + 1)

Index(s, c) == IndexFrom(s, c, 1)

\* index of the last occurrence of c in s, 0 if none
RECURSIVE LastIndexFrom(_, _, _)
LastIndexFrom(s, c, i) ==
  IF i < 1 THEN 0 ELSE IF s[i] = c THEN i ELSE LastIndexFrom(s, c, i - 1)
LastIndex(s, c) == LastIndexFrom(s, c, Len(s))

Rest(s, i) == SubSeq(s, i, Len(s))          \* s[i..]
Take(s, n) == SubSeq(s, 1, n)               \* s[..n]
DropLast(s) == SubSeq(s, 1, Len(s) - 1)
LastOf(s) == s[Len(s)]

HasPrefix(s, p) == Len(p) <= Len(s) /\ SubSeq(s, 1, Len(p)) = p
HasSuffix(s, p) == Len(p) <= Len(s) /\ SubSeq(s, Len(s) - Len(p) + 1, Len(s)) = p
HasChar(s, c) == \E i \in DOMAIN s : s[i] = c

\* split s on the separator c: a non-empty sequence of (possibly empty) pieces
RECURSIVE SplitOn(_, _)
SplitOn(s, c) ==
  LET k == Index(s, c) IN
  IF k = 0 THEN <<s>> ELSE <<SubSeq(s, 1, k - 1)>> \o SplitOn(Rest(s, k + 1), c)

\* join pieces with the separator c
RECURSIVE JoinWith(_, _)
JoinWith(ps, c) ==
  IF Len(ps) = 0 THEN <<>>
  ELSE IF Len(ps) = 1 THEN ps[1]
  ELSE ps[1] \o <<c>> \o JoinWith(Tail(ps), c)

\* concatenate a sequence of sequences
RECURSIVE Flatten(_)
Flatten(ss) == IF ss = <<>> THEN <<>> ELSE Head(ss) \o Flatten(Tail(ss))

\* a TLA+ string out of a character sequence (output only)
RECURSIVE Str(_)
Str(s) == IF s = <<>> THEN "" ELSE Head(s) \o Str(Tail(s))

\* all sequences over alphabet A of length exactly n / at most n
RECURSIVE SeqsOfLen(_, _)
SeqsOfLen(A, n) ==
  IF n = 0 THEN {<<>>} ELSE {Append(t, c) : t \in SeqsOfLen(A, n - 1), c \in A}
SeqsUpTo(A, n) == UNION {SeqsOfLen(A, k) : k \in 0..n}

\* all subsets of S with at most k elements (the library kSubset is limited to |S| <= 62)
RECURSIVE SubsetsUpTo(_, _)
SubsetsUpTo(S, k) ==
  IF k = 0 THEN {{}}
  ELSE LET P == SubsetsUpTo(S, k - 1) IN P \cup {s \cup {a} : s \in P, a \in S}

Digits == {"0","1","2","3","4","5","6","7","8","9"}
Lower  == {"a","b","c","d","e","f","g","h","i","j","k","l","m","n","o","p","q","r","s","t","u","v","w","x","y","z"}
Upper  == {"A","B","C","D","E","F","G","H","I","J","K","L","M","N","O","P","Q","R","S","T","U","V","W","X","Y","Z"}
Letters == Lower \cup Upper
=============================================================================
