----------------------------- MODULE MC_Probe -----------------------------
(* Second pass of the router replay: for every distinct registered set that *)
(* occurs in the explored graph (collected by the harness into GenSets),    *)
(* what every read must answer: Len, Methods, Prefix sets and the lookups   *)
(* of the probe requests (FoxRoutes observations + FoxMatch!Lookup).        *)
EXTENDS FoxRoutes, FoxMatch, Gen_Probe, TLC, Json, SequencesExt

PToks == [i \in DOMAIN GenPool |-> Tokenize(GenPool[i])]

VARIABLES si, done

\* GenSets[i] is a set of <<m, p>> pairs
Entries(i) == {[m |-> x[1], p |-> x[2], g |-> 0] : x \in GenSets[i]}

PLess(a, b) == a[1] < b[1] \/ (a[1] = b[1] /\ a[2] < b[2])
Pairs(S) == SetToSortSeq({<<e.m, e.p>> : e \in S}, PLess)

MethodTable(S, m) ==
  LET ps == SetToSortSeq({e.p : e \in {x \in S : x.m = m}}, <) IN
  [i \in DOMAIN ps |-> [toks |-> PToks[ps[i]], pi |-> ps[i]]]

ProbeOut(S, q) ==
  LET T == MethodTable(S, q[1]) IN
  IF T = <<>> THEN <<0, 0, <<>>>>
  ELSE LET r == Lookup(T, q[2], q[3]) IN
       IF r.ok THEN <<T[r.id].pi, IF r.tsr THEN 1 ELSE 0, [i \in DOMAIN r.b |-> <<Str(r.b[i][1]), Str(r.b[i][2])>>]>>
       ELSE <<0, 0, <<>>>>

Obs(i) ==
  LET S == Entries(i) IN
  [i |-> i, len |-> LenOf(S), methods |-> SetToSortSeq(MethodsOf(S), <),
   prefix |-> [k \in DOMAIN GenPrefixes |-> Pairs(PrefixSet(S, GenPrefixes[k][1], GenPrefixes[k][2]))],
   probes |-> [k \in DOMAIN GenProbes |-> ProbeOut(S, GenProbes[k])]]

Init == si \in DOMAIN GenSets /\ done = FALSE
Next == ~done /\ PrintT("VEC" \o ToJson(Obs(si))) /\ done' = TRUE /\ UNCHANGED si
=============================================================================
