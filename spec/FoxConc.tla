------------------------------ MODULE FoxConc ------------------------------
(* Concurrency protocol of the router (C05 linearizability, C06 reads never *)
(* wait, the concurrent part of C04): the critical sections of a write are  *)
(* separate steps - one per verification point of the implementation - so   *)
(* that TLC explores every interleaving of writers and lock-free readers.   *)
(*                                                                          *)
(* Data is abstract: the registered set is a function Keys -> tag           *)
(* (0 = not registered; a tag identifies the write that installed a route). *)
(*                                                                          *)
(*   hist   sequence of published maps; hist[Len(hist)] is what an atomic   *)
(*          load returns now; ver == Len(hist)                              *)
(*   lock   0 or the writer holding the writer mutex                        *)
(*   w[i]   writer i: [pc, work, base, step, res]                           *)
(*   rd[j]  reader j: [pc, seen, last, call, n]                             *)
(*   op     observation variable (hidden by VIEW)                           *)
(*                                                                          *)
(* Writer pc and the verification point where the real goroutine is parked: *)
(*   idle      not started                                                  *)
(*   waiting   vpLockWait     (about to call mu.Lock)                       *)
(*   blocked   inside mu.Lock (released from vpLockWait while the lock is    *)
(*             held by another writer)                                      *)
(*   locked    vpLockAcquired                                               *)
(*   open      vpLoad         (root loaded, private copy being written)     *)
(*   prestore  vpBeforeStore  (new tree built, not published)               *)
(*   stored    vpAfterStore   (published, lock still held)                  *)
(*   aborting  vpAbort        (nothing will be published, lock still held)  *)
(*   unlocked  vpUnlocked                                                   *)
(*   done      returned                                                     *)
EXTENDS Integers, Sequences, FiniteSets

CONSTANTS
  Keys,        \* set of route keys
  Writers,     \* set of writer ids (positive integers)
  Readers,     \* set of reader ids
  Prog,        \* Prog[i] = [single |-> BOOLEAN, ops |-> sequence of <<kind, key, tag>>, end |-> "commit" | "abort"]
               \* (the program writer i runs in the model-checking instances; trace validation takes the
               \* program of each call from the recorded events instead)
  ReadCalls,   \* set of <<"has", key>> / <<"len">> / <<"all">> calls a reader may issue
  MaxReads,    \* reads per reader
  InitMap,     \* the registered set published before anybody starts (Keys -> tag)
  Broken       \* "none", or a deliberately wrong protocol variant used to show the invariants bite:
               \*   "loadfirst"   : the root is loaded before the lock is taken
               \*   "unlockfirst" : the lock is released before the new tree is stored

VARIABLES hist, lock, w, rd, op
vars == <<hist, lock, w, rd, op>>
view == <<hist, lock, w, rd>>

ver == Len(hist)
pub == hist[ver]

Empty == [k \in Keys |-> 0]
NoProg == [single |-> TRUE, ops |-> <<>>, end |-> "commit"]

WIdle == [pc |-> "idle", prog |-> NoProg, work |-> Empty, base |-> 0, step |-> 0, res |-> <<>>]
RIdle == [pc |-> "idle", seen |-> 0, last |-> 0, call |-> <<"len">>, n |-> 0]

Init ==
  /\ hist = <<InitMap>> /\ lock = 0
  /\ w = [i \in Writers |-> WIdle]
  /\ rd = [j \in Readers |-> RIdle]
  /\ op = [proc |-> "", id |-> 0, act |-> "init", arg |-> <<>>, res |-> <<>>]

Obs(proc, id, act, arg, res) == [proc |-> proc, id |-> id, act |-> act, arg |-> arg, res |-> res]

\* sequential meaning of one write <<kind, key, tag>> on a map
ApplyOp(m, o) ==
  LET kind == o[1]  k == o[2]  tag == o[3] IN
  CASE kind = "Handle" -> IF m[k] = 0 THEN [m |-> [m EXCEPT ![k] = tag], err |-> "ok"] ELSE [m |-> m, err |-> "exist"]
    [] kind = "Update" -> IF m[k] # 0 THEN [m |-> [m EXCEPT ![k] = tag], err |-> "ok"] ELSE [m |-> m, err |-> "notfound"]
    [] kind = "Delete" -> IF m[k] # 0 THEN [m |-> [m EXCEPT ![k] = 0], err |-> "ok"] ELSE [m |-> m, err |-> "notfound"]
    [] kind = "Truncate" -> [m |-> Empty, err |-> "ok"]        \* Truncate of the method all keys live under
    [] kind = "Iter" -> [m |-> m, err |-> "ok"]                \* the transaction iterates over its own state: no effect

Holding(i) == w[i].pc \in {"locked", "open", "prestore", "stored", "aborting"}

--------------------------------------------------------------------------
\* Writers
\* a goroutine may issue one call after the other ("done" -> next call)
CallBegin(i, prog) ==
  /\ w[i].pc \in {"idle", "done"}
  /\ w' = [w EXCEPT ![i].pc = "waiting", ![i].prog = prog, ![i].step = 0, ![i].res = <<>>,
                    ![i].work = IF Broken = "loadfirst" THEN pub ELSE @,
                    ![i].base = IF Broken = "loadfirst" THEN ver ELSE @]
  /\ op' = Obs("w", i, "CallBegin", <<>>, <<>>)
  /\ UNCHANGED <<hist, lock, rd>>

Acquire(i) ==
  /\ w[i].pc = "waiting" /\ lock = 0
  /\ lock' = i
  /\ w' = [w EXCEPT ![i].pc = "locked"]
  /\ op' = Obs("w", i, "Acquire", <<>>, <<>>)
  /\ UNCHANGED <<hist, rd>>

\* the goroutine enters mu.Lock() while the lock is held: it blocks (at most one blocked writer at a time,
\* so that the hand-over of the mutex is deterministic for the replay)
TryAcquire(i) ==
  /\ w[i].pc = "waiting" /\ lock # 0
  /\ \A k \in Writers : w[k].pc # "blocked"
  /\ w' = [w EXCEPT ![i].pc = "blocked"]
  /\ op' = Obs("w", i, "TryAcquire", <<>>, <<>>)
  /\ UNCHANGED <<hist, lock, rd>>

LoadRoot(i) ==
  /\ w[i].pc = "locked"
  /\ w' = [w EXCEPT ![i].pc = "open",
                    ![i].work = IF Broken = "loadfirst" THEN @ ELSE pub,
                    ![i].base = IF Broken = "loadfirst" THEN @ ELSE ver,
                    ![i].step = 0, ![i].res = <<>>]
  /\ op' = Obs("w", i, "LoadRoot", <<>>, <<>>)
  /\ UNCHANGED <<hist, lock, rd>>

\* one-call helper (Router.Handle/Update/Delete): runs its single write and heads for the store, or for
\* the abort path when the write failed
RunSingle(i) ==
  /\ w[i].pc = "open" /\ w[i].prog.single
  /\ LET r == ApplyOp(w[i].work, w[i].prog.ops[1]) IN
     /\ w' = [w EXCEPT ![i].work = r.m, ![i].step = 1, ![i].res = <<r.err>>,
                       ![i].pc = IF r.err = "ok" THEN "prestore" ELSE "aborting"]
     /\ op' = Obs("w", i, "RunSingle", w[i].prog.ops[1], <<r.err>>)
  /\ UNCHANGED <<hist, lock, rd>>

\* explicit transaction: writes one by one, then Commit or Abort
TxnOp(i) ==
  /\ w[i].pc = "open" /\ ~w[i].prog.single /\ w[i].step < Len(w[i].prog.ops)
  /\ LET s == w[i].step + 1
         r == ApplyOp(w[i].work, w[i].prog.ops[s]) IN
     /\ w' = [w EXCEPT ![i].work = r.m, ![i].step = s, ![i].res = Append(@, r.err)]
     /\ op' = Obs("w", i, "TxnOp", w[i].prog.ops[s], <<r.err>>)
  /\ UNCHANGED <<hist, lock, rd>>

CallEnd(i) ==
  /\ w[i].pc = "open" /\ ~w[i].prog.single /\ w[i].step = Len(w[i].prog.ops)
  /\ w' = [w EXCEPT ![i].pc = IF w[i].prog.end = "commit" THEN "prestore" ELSE "aborting"]
  /\ op' = Obs("w", i, "CallEnd", <<w[i].prog.end>>, <<>>)
  /\ UNCHANGED <<hist, lock, rd>>

Store(i) ==
  /\ w[i].pc = "prestore"
  /\ Broken = "commitwaitsreaders" => \A j \in Readers : rd[j].pc # "loaded"      \* wrong variant: drain the readers first
  /\ hist' = Append(hist, w[i].work)
  /\ w' = [w EXCEPT ![i].pc = "stored"]
  /\ op' = Obs("w", i, "Store", <<>>, <<>>)
  /\ UNCHANGED <<lock, rd>>

\* Unlock hands the mutex to the blocked writer, if any
Unlock(i) ==
  /\ w[i].pc \in {"stored", "aborting"}
  /\ LET bs == {k \in Writers : w[k].pc = "blocked"} IN
     IF bs = {} THEN /\ lock' = 0
                     /\ w' = [w EXCEPT ![i].pc = "unlocked"]
     ELSE LET k == CHOOSE k \in bs : TRUE IN
          /\ lock' = k
          /\ w' = [w EXCEPT ![i].pc = "unlocked", ![k].pc = "locked"]
  /\ op' = Obs("w", i, "Unlock", <<>>, <<>>)
  /\ UNCHANGED <<hist, rd>>

\* wrong variant: unlock first, store later
UnlockEarly(i) ==
  /\ Broken = "unlockfirst" /\ w[i].pc = "prestore" /\ lock = i
  /\ lock' = 0
  /\ op' = Obs("w", i, "UnlockEarly", <<>>, <<>>)
  /\ UNCHANGED <<hist, w, rd>>

Return(i) ==
  /\ w[i].pc = "unlocked"
  /\ w' = [w EXCEPT ![i].pc = "done"]
  /\ op' = Obs("w", i, "Return", <<>>, w[i].res)
  /\ UNCHANGED <<hist, lock, rd>>

--------------------------------------------------------------------------
\* Readers: one atomic load, then the whole read runs on the loaded version. No guard mentions the lock.
Eval(call, m) ==
  CASE call[1] = "has" -> <<m[call[2]]>>
    [] call[1] = "len" -> <<Cardinality({k \in Keys : m[k] # 0})>>
    [] call[1] = "all" -> <<m>>

\* the atomic load returns version v; in the model-checking instances v is always the current version,
\* trace validation may have to place the load a little earlier (see Trace_Conc)
RLoadAt(j, call, v) ==
  /\ rd[j].pc = "idle" /\ rd[j].n < MaxReads
  /\ rd' = [rd EXCEPT ![j].pc = "loaded", ![j].seen = v, ![j].call = call]
  /\ op' = Obs("r", j, "RLoad", call, <<>>)
  /\ UNCHANGED <<hist, lock, w>>
RLoad(j, call) == RLoadAt(j, call, ver)

RReturn(j) ==
  /\ rd[j].pc = "loaded"
  /\ rd' = [rd EXCEPT ![j].pc = "idle", ![j].last = rd[j].seen, ![j].n = @ + 1]
  /\ op' = Obs("r", j, "RReturn", rd[j].call, Eval(rd[j].call, hist[rd[j].seen]))
  /\ UNCHANGED <<hist, lock, w>>

--------------------------------------------------------------------------
WriterStep(i) ==
  \/ (w[i].pc = "idle" /\ CallBegin(i, Prog[i])) \/ Acquire(i) \/ TryAcquire(i) \/ LoadRoot(i) \/ RunSingle(i) \/ TxnOp(i) \/ CallEnd(i)
  \/ Store(i) \/ Unlock(i) \/ UnlockEarly(i) \/ Return(i)
ReaderStep(j) == (\E c \in ReadCalls : RLoad(j, c)) \/ RReturn(j)

Next == (\E i \in Writers : WriterStep(i)) \/ (\E j \in Readers : ReaderStep(j))

\* Fairness on reader steps ONLY: a writer may stay parked forever, at any point of its life.
Spec == Init /\ [][Next]_vars /\ \A j \in Readers : WF_vars(RReturn(j))

--------------------------------------------------------------------------
\* Safety
TypeOK ==
  /\ lock \in Writers \cup {0}
  /\ \A i \in Writers : w[i].pc \in {"idle", "waiting", "blocked", "locked", "open", "prestore", "stored", "aborting", "unlocked", "done"}
  /\ \A j \in Readers : rd[j].pc \in {"idle", "loaded"} /\ rd[j].seen \in 0..ver

\* C05: at most one writer is between lock and unlock, and it is the lock holder
MutualExclusion ==
  /\ \A i, k \in Writers : (Holding(i) /\ Holding(k)) => i = k
  /\ \A i \in Writers : Holding(i) => lock = i

\* C05: no lost update - a writer publishes a tree derived from the version that is current when it stores
NoLostUpdate ==
  \A i \in Writers : w[i].pc \in {"open", "prestore"} => w[i].base = ver

\* C04/C05: only whole committed private sets are ever published; the history only grows
AppendOnly == [][ \/ hist' = hist
                 \/ \E i \in Writers : w[i].pc = "prestore" /\ hist' = Append(hist, w[i].work) ]_vars

\* C05: a reader never observes an older version than one it has already observed
MonotoneReads == \A j \in Readers : rd[j].pc = "loaded" => rd[j].seen >= rd[j].last

\* C04: a reader only ever sees a published version, never a transaction's private set
ReadsSeePublished == \A j \in Readers : rd[j].pc = "loaded" => rd[j].seen \in 1..ver

\* C06: whatever the writers are doing (in particular whoever holds the lock, forever), every read step is enabled
ReadsNeverWait ==
  \A j \in Readers :
     /\ (rd[j].pc = "idle" /\ rd[j].n < MaxReads) => \A c \in ReadCalls : ENABLED RLoad(j, c)
     /\ rd[j].pc = "loaded" => ENABLED RReturn(j)

\* C06, second sentence: a writer waits only for the writer lock. Whatever the readers are doing (in particular a read
\* that never returns: a Lookup context never closed, an iterator never finished), a writer that is not queued behind
\* the lock can take its next step, and a queued one can as soon as the lock is free.
WritersWaitOnlyForWriters ==
  \A i \in Writers :
     /\ w[i].pc = "waiting" => (ENABLED Acquire(i) <=> lock = 0)
     /\ w[i].pc \in {"locked", "open", "prestore", "stored", "aborting", "unlocked"} => ENABLED WriterStep(i)

\* C06 liveness: a started read completes although no writer step is ever taken again
ReaderProgress == \A j \in Readers : (rd[j].pc = "loaded") ~> (rd[j].pc = "idle")

\* C05: when everybody is done, the published map is the result of the committed programs applied
\* one after the other in the order of their stores (each on top of the previous publication)
RECURSIVE RunProg(_, _, _)
RunProg(m, s, ops) ==
  IF s > Len(ops) THEN m ELSE RunProg(ApplyOp(m, ops[s]).m, s + 1, ops)

\* every published version is the committing writer's program applied to the previous version
LastIsProgOn(i) == w[i].work = RunProg(pub, 1, w[i].prog.ops)
StepwiseSerial ==
  [][ hist' # hist =>
        \E i \in Writers : /\ w[i].pc = "prestore"
                           /\ LastIsProgOn(i) ]_vars
=============================================================================
