------------------------------ MODULE MC_Conc ------------------------------
(* Bounded instances of FoxConc: every interleaving of the generated writer *)
(* programs and readers.  Emits every transition for the schedule replay.   *)
EXTENDS FoxConc, Gen_Conc, TLC, Json

Proj(h, l, ws, rs) ==
  [pub |-> h[Len(h)], ver |-> Len(h), lock |-> l,
   w |-> [i \in DOMAIN ws |-> [pc |-> ws[i].pc, step |-> ws[i].step, res |-> ws[i].res, work |-> ws[i].work, base |-> ws[i].base]],
   rd |-> [j \in DOMAIN rs |-> [pc |-> rs[j].pc, seen |-> rs[j].seen, n |-> rs[j].n, call |-> rs[j].call]]]

EmitEdge ==
  PrintT("VEC" \o ToJson([from |-> Proj(hist, lock, w, rd), op |-> op', to |-> Proj(hist', lock', w', rd')]))

\* FoxConc refines the reduced protocol FoxProto (whose invariant is proved inductive for any number of writers and
\* versions, FoxProto_proofs): blocked maps to waiting, unlocked / done to idle; a hand-over of the mutex is one step
PMap(p) == CASE p = "blocked" -> "waiting" [] p \in {"unlocked", "done"} -> "idle" [] OTHER -> p
Proto == INSTANCE FoxProto WITH Writers <- Writers, None <- 0, pc <- [i \in Writers |-> PMap(w[i].pc)],
                                 lock <- lock, ver <- Len(hist), base <- [i \in Writers |-> w[i].base]
RefinesProto == Proto!Spec

\* plain next-state relation without fairness for the safety configurations
SafetySpec == Init /\ [][Next]_vars
=============================================================================
