INIT Init
NEXT Next
CONSTANTS
  AnnKeys <- GenAnnKeys
  BadKeys <- GenBadKeys
CHECK_DEADLOCK FALSE
