------------------------------ MODULE Obs_Serve ------------------------------
(* D2 for C08/C11: requests served by the real router - plain and percent-   *)
(* encoded paths whose segments contain reserved characters, several methods *)
(* - are validated against FoxServe!Reply for the router's table.            *)
(* Observation:                                                              *)
(*   [m, path (characters of the path as routed: RawPath when set),          *)
(*    kind, route (index in GenTable or 0), params (<<name, value>> pairs of *)
(*    character sequences), code, routed / resolved (decoded segments of the *)
(*    routed path / of the resolved Location), query, resolvedquery]         *)
EXTENDS FoxServe, Gen_ObsServe, TLC, Json, IOUtils

AdjustedSegs(s) == IF Len(s) > 2 /\ s[Len(s)] = "" THEN SubSeq(s, 1, Len(s) - 1) ELSE Append(s, "")

T == [i \in DOMAIN GenTable |-> [m |-> GenTable[i].m, toks |-> Tokenize(GenTable[i].pat), pi |-> i, opt |-> GenTable[i].opt, ei |-> i]]

Obs == ndJsonDeserialize("obs.ndjson")
VARIABLES i, done
Init == i \in DOMAIN Obs /\ done = FALSE

Prescribed(o) == Reply(T, GenCfg, [m |-> o.m, host |-> GenHost, path |-> o.path])

Conforms ==
  LET o == Obs[i]
      r == Prescribed(o)
      open == r.kind \in {"options", "nomethod"} /\ r.amb /\ o.kind = "noroute"   \* a corner the statement leaves open
  IN /\ open \/ r.kind = o.kind
     /\ r.kind = "route" => (r.e = o.route /\ o.params = [k \in DOMAIN r.b |-> <<r.b[k][1], r.b[k][2]>>])
     /\ r.kind = "redirect" => /\ o.code = r.code
                               /\ o.resolved = AdjustedSegs(o.routed)
                               /\ o.resolvedquery = o.query

Summary(r) == IF r.kind = "route" THEN [kind |-> r.kind, route |-> r.e, tsr |-> r.tsr]
              ELSE IF r.kind = "redirect" THEN [kind |-> r.kind, code |-> r.code]
              ELSE [kind |-> r.kind]
Report == IF Conforms THEN TRUE ELSE PrintT("VEC" \o ToJson([i |-> i, want |-> Summary(Prescribed(Obs[i]))]))
Next == ~done /\ Report /\ done' = TRUE /\ UNCHANGED i
=============================================================================
