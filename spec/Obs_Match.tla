------------------------------ MODULE Obs_Match ------------------------------
(* D2 for C01 / C07 / C09: lookups recorded from real routers holding random  *)
(* tables far larger than the exhaustive instances (up to 60 routes, fan-out  *)
(* above the 50-child switch, deep patterns with many parameters, a larger    *)
(* byte alphabet, hostnames) are validated against FoxMatch!Lookup.           *)
(* Observation: [tab (index into GenTables), host, path (characters), route   *)
(* (pool index, 0 = none), tsr, params (<<name, value>> as characters)].      *)
(* For C07 every probe is observed twice: on a router that reached the table  *)
(* through a random mutation history and on a fresh router filled in a random *)
(* order; both must be what the specification prescribes for the set.         *)
EXTENDS FoxMatch, Gen_ObsMatch, TLC, Json, IOUtils, SequencesExt, FiniteSetsExt

PToks == [i \in DOMAIN GenPool |-> Tokenize(GenPool[i])]
TableOf(S) == LET ids == SetToSortSeq(S, <) IN [i \in DOMAIN ids |-> [toks |-> PToks[ids[i]], pi |-> ids[i]]]
Tables == [k \in DOMAIN GenTables |-> TableOf(GenTables[k])]

Obs == ndJsonDeserialize("obs.ndjson")
VARIABLES i, done
Init == i \in DOMAIN Obs /\ done = FALSE

Prescribed(o) == Lookup(Tables[o.tab], o.host, o.path)
Conforms ==
  LET o == Obs[i]
      r == Prescribed(o)
  IN IF ~r.ok THEN o.route = 0
     ELSE /\ Tables[o.tab][r.id].pi = o.route
          /\ r.tsr = o.tsr
          /\ o.params = [k \in DOMAIN r.b |-> <<r.b[k][1], r.b[k][2]>>]

Want(o) == LET r == Prescribed(o) IN
           IF r.ok THEN [route |-> Str(GenPool[Tables[o.tab][r.id].pi]), tsr |-> r.tsr,
                         params |-> [k \in DOMAIN r.b |-> <<Str(r.b[k][1]), Str(r.b[k][2])>>]]
           ELSE [route |-> "", tsr |-> FALSE, params |-> <<>>]
Report == IF Conforms THEN TRUE ELSE PrintT("VEC" \o ToJson([i |-> i, want |-> Want(Obs[i])]))
Next == ~done /\ Report /\ done' = TRUE /\ UNCHANGED i
=============================================================================
