----------------------------- MODULE Obs_Ranges -----------------------------
(* C18, last clause: the address ranges trusted by default contain no        *)
(* globally routable address.  Each default range, read from the real code   *)
(* through the verif accessor, is an observation                             *)
(*   [v |-> 4 | 6, g |-> groups, len |-> prefix length]                      *)
(* (IPv4: four 8-bit groups, IPv6: eight 16-bit groups) and must lie inside  *)
(* one of the non-global blocks below (IANA special-purpose registries,      *)
(* multicast and reserved space).                                            *)
EXTENDS Naturals, Sequences, TLC, Json, IOUtils

B4(a, b, c, d, l) == [v |-> 4, g |-> <<a, b, c, d>>, len |-> l]
B6(gs, l) == [v |-> 6, g |-> gs, len |-> l]

NonGlobal4 == {
  B4(0,0,0,0,8), B4(10,0,0,0,8), B4(100,64,0,0,10), B4(127,0,0,0,8), B4(169,254,0,0,16), B4(172,16,0,0,12),
  B4(192,0,0,0,24), B4(192,0,2,0,24), B4(192,31,196,0,24), B4(192,52,193,0,24), B4(192,88,99,0,24),
  B4(192,168,0,0,16), B4(192,175,48,0,24), B4(198,18,0,0,15), B4(198,51,100,0,24), B4(203,0,113,0,24),
  B4(224,0,0,0,4), B4(240,0,0,0,4) }

NonGlobal6 == {
  B6(<<0,0,0,0,0,0,0,0>>, 127),                   \* ::/128 and ::1/128
  B6(<<0,0,0,0,0,65535,0,0>>, 96),               \* ::ffff:0:0/96
  B6(<<100,65435,0,0,0,0,0,0>>, 96),             \* 64:ff9b::/96
  B6(<<100,65435,1,0,0,0,0,0>>, 48),             \* 64:ff9b:1::/48
  B6(<<256,0,0,0,0,0,0,0>>, 64),                 \* 100::/64
  B6(<<8193,0,0,0,0,0,0,0>>, 23),                \* 2001::/23 (includes 2001::/32, 2001:2::/48, 2001:10::/28 ...)
  B6(<<8193,3512,0,0,0,0,0,0>>, 32),             \* 2001:db8::/32
  B6(<<8194,0,0,0,0,0,0,0>>, 16),                \* 2002::/16
  B6(<<64512,0,0,0,0,0,0,0>>, 7),                \* fc00::/7
  B6(<<65152,0,0,0,0,0,0,0>>, 10),               \* fe80::/10
  B6(<<65280,0,0,0,0,0,0,0>>, 8) }               \* ff00::/8

RECURSIVE Pow2(_)
Pow2(n) == IF n = 0 THEN 1 ELSE 2 * Pow2(n - 1)

\* range r lies inside block b: at least as long a prefix, and the first b.len bits agree
Inside(r, b) ==
  LET w == IF r.v = 4 THEN 8 ELSE 16
      full == b.len \div w
      rest == b.len % w
  IN /\ r.v = b.v /\ r.len >= b.len
     /\ \A i \in 1..full : r.g[i] = b.g[i]
     /\ rest > 0 => (r.g[full + 1] \div Pow2(w - rest)) = (b.g[full + 1] \div Pow2(w - rest))

NonGlobalRange(r) == \E b \in (IF r.v = 4 THEN NonGlobal4 ELSE NonGlobal6) : Inside(r, b)

Obs == ndJsonDeserialize("obs.ndjson")
VARIABLES i, done
Init == i \in DOMAIN Obs /\ done = FALSE
Conforms == NonGlobalRange(Obs[i])
Report == IF Conforms THEN TRUE ELSE PrintT("VEC" \o ToJson([i |-> i, want |-> "inside a non-global block"]))
Next == ~done /\ Report /\ done' = TRUE /\ UNCHANGED i
=============================================================================
