SPECIFICATION SafetySpec
CONSTANTS
  Keys <- GenKeys
  Writers <- GenWriters
  Readers <- GenReaders
  Prog <- GenProg
  ReadCalls <- GenReadCalls
  MaxReads <- GenMaxReads
  Broken <- GenBroken
  InitMap <- GenInit
VIEW view
INVARIANTS TypeOK MutualExclusion NoLostUpdate MonotoneReads ReadsSeePublished ReadsNeverWait WritersWaitOnlyForWriters
PROPERTIES AppendOnly StepwiseSerial RefinesProto
ACTION_CONSTRAINT EmitEdge
CHECK_DEADLOCK FALSE
