---------------------------- MODULE FoxPattern ----------------------------
(* The documented route-pattern grammar of fox, written as a predicate on   *)
(* the character sequence (NOT as the single-pass state machine parseRoute  *)
(* implements), plus the token view of a pattern used by every other module.*)
(*                                                                          *)
(*   pattern  ::= [ hostname ] path                                         *)
(*   hostname ::= label ( "." label )*          (<= 255 static bytes + dots, *)
(*                                               not all-numeric)            *)
(*   label    ::= ldh* [ "{" name "}" ]          (not empty; the static text *)
(*                                               neither starts nor ends in  *)
(*                                               "-" and is <= 63 bytes)     *)
(*   path     ::= ( "/" segment )+                                          *)
(*   segment  ::= lit* [ "{" name "}" | "*{" name "}" ]                     *)
(*   lit      ::= any byte except "/", "{", "*"                             *)
(*   name     ::= one or more bytes, none of "/", "*", "{", "}"             *)
(*                (nor "." inside a hostname)                               *)
(*   no catch-all in a hostname; two catch-alls are never separated by only *)
(*   a "/"; at most maxParams wildcards, names of at most maxKey bytes.     *)
EXTENDS FoxStrings

Lit(c) == [k |-> "lit", v |-> <<c>>]
Par(n) == [k |-> "par", v |-> n]
Cat(n) == [k |-> "cat", v |-> n]

IsWild(t) == t.k \in {"par", "cat"}

LDH == Letters \cup Digits \cup {"_", "-"}

--------------------------------------------------------------------------
\* Token view.  Total on all character sequences; meaningful on valid ones.
RECURSIVE TokenizeFrom(_, _)
TokenizeFrom(s, i) ==
  IF i > Len(s) THEN <<>>
  ELSE IF s[i] = "{" /\ IndexFrom(s, "}", i) # 0 THEN
       LET j == IndexFrom(s, "}", i) IN <<Par(SubSeq(s, i + 1, j - 1))>> \o TokenizeFrom(s, j + 1)
  ELSE IF s[i] = "*" /\ i < Len(s) /\ s[i + 1] = "{" /\ IndexFrom(s, "}", i) # 0 THEN
       LET j == IndexFrom(s, "}", i) IN <<Cat(SubSeq(s, i + 2, j - 1))>> \o TokenizeFrom(s, j + 1)
  ELSE <<Lit(s[i])>> \o TokenizeFrom(s, i + 1)

Tokenize(s) == TokenizeFrom(s, 1)

\* back to characters
RECURSIVE Untokenize(_)
Untokenize(ts) ==
  IF ts = <<>> THEN <<>>
  ELSE LET t == Head(ts) IN
       (CASE t.k = "lit" -> t.v
          [] t.k = "par" -> <<"{">> \o t.v \o <<"}">>
          [] t.k = "cat" -> <<"*", "{">> \o t.v \o <<"}">>) \o Untokenize(Tail(ts))

Wildcards(ts) == SelectSeq(ts, IsWild)
ParamNames(ts) == [i \in DOMAIN Wildcards(ts) |-> Wildcards(ts)[i].v]
NumWild(ts) == Len(Wildcards(ts))

\* substitute vals[i] for the i-th wildcard
RECURSIVE InstantiateFrom(_, _, _)
InstantiateFrom(ts, vals, i) ==
  IF ts = <<>> THEN <<>>
  ELSE IF IsWild(Head(ts)) THEN vals[i] \o InstantiateFrom(Tail(ts), vals, i + 1)
  ELSE Head(ts).v \o InstantiateFrom(Tail(ts), vals, i)
Instantiate(ts, vals) == InstantiateFrom(ts, vals, 1)

\* host / path split of a pattern given as characters: the path starts at the first "/"
HostEnd(s) == Index(s, "/") - 1                     \* -1 when there is no "/"
HostChars(s) == Take(s, HostEnd(s))
PathChars(s) == Rest(s, HostEnd(s) + 1)

\* same on tokens (the first literal "/" starts the path; wildcard names contain no "/")
RECURSIVE HostTokLen(_)
HostTokLen(ts) ==
  IF ts = <<>> THEN 0
  ELSE IF Head(ts) = Lit("/") THEN 0 ELSE 1 + HostTokLen(Tail(ts))
HostToks(ts) == Take(ts, HostTokLen(ts))
PathToks(ts) == Rest(ts, HostTokLen(ts) + 1)
HasHost(ts) == HostTokLen(ts) > 0

--------------------------------------------------------------------------
\* Grammar
NameOK(n, forbidden) == n # <<>> /\ \A i \in DOMAIN n : n[i] \notin forbidden

\* g: one path segment (no "/")
SegmentOK(g) ==
  LET b == Index(g, "{")
      a == Index(g, "*")
      w == IF b = 0 THEN a ELSE IF a = 0 THEN b ELSE IF a < b THEN a ELSE b
  IN IF w = 0 THEN TRUE
     ELSE LET o == IF g[w] = "{" THEN w ELSE w + 1          \* position of the opening brace
              e == IF o > Len(g) THEN 0 ELSE IndexFrom(g, "}", o)
          IN /\ o <= Len(g) /\ g[o] = "{"
             /\ e = Len(g)                                   \* closed, and nothing after it
             /\ NameOK(SubSeq(g, o + 1, e - 1), {"/", "*", "{", "}"})

SegmentCatchAll(g) == LET a == Index(g, "*") IN a # 0 /\ (Index(g, "{") = 0 \/ a < Index(g, "{"))
SegmentOnlyCatchAll(g) == g # <<>> /\ g[1] = "*"

PathOK(p) ==
  /\ p # <<>> /\ p[1] = "/"
  /\ LET segs == SplitOn(Rest(p, 2), "/") IN
     /\ \A i \in DOMAIN segs : SegmentOK(segs[i])
     /\ \A i \in 1..(Len(segs) - 1) :
            ~(SegmentCatchAll(segs[i]) /\ SegmentOnlyCatchAll(segs[i + 1]))

LabelStatic(lab) == LET b == Index(lab, "{") IN IF b = 0 THEN lab ELSE Take(lab, b - 1)
LabelHasParam(lab) == Index(lab, "{") # 0

LabelOK(lab) ==
  LET b == Index(lab, "{")
      st == LabelStatic(lab)
  IN /\ lab # <<>>
     /\ \A i \in DOMAIN st : st[i] \in LDH
     /\ st # <<>> => st[1] # "-" /\ LastOf(st) # "-"
     /\ Len(st) <= 63
     /\ b # 0 => LET e == IndexFrom(lab, "}", b) IN
                 /\ e = Len(lab)
                 /\ NameOK(SubSeq(lab, b + 1, e - 1), {"/", "*", "{", "}", "."})

RECURSIVE SumLen(_)
SumLen(ss) == IF ss = <<>> THEN 0 ELSE Len(Head(ss)) + SumLen(Tail(ss))

HostOK(h) ==
  LET labs == SplitOn(h, ".") IN
  /\ \A i \in DOMAIN labs : LabelOK(labs[i])
  /\ SumLen([i \in DOMAIN labs |-> LabelStatic(labs[i])]) + (Len(labs) - 1) <= 255
  /\ \E i \in DOMAIN labs :
        \/ LabelHasParam(labs[i])
        \/ \E j \in DOMAIN labs[i] : labs[i][j] \in Letters \cup {"_", "-"}

NoLimit == 65535

ValidPattern(s, maxParams, maxKey) ==
  /\ Index(s, "/") # 0
  /\ HostEnd(s) > 0 => HostOK(HostChars(s))
  /\ PathOK(PathChars(s))
  /\ LET ts == Tokenize(s) IN
     /\ NumWild(ts) <= maxParams
     /\ \A i \in DOMAIN Wildcards(ts) : Len(Wildcards(ts)[i].v) <= maxKey

Valid(s) == ValidPattern(s, NoLimit, NoLimit)

--------------------------------------------------------------------------
\* Consequences of the grammar that the other modules rely on (checked by TLC
\* on the bounded domain in MC_Pattern):
\*   round trip, one wildcard per segment/label and only at its end.
RoundTrip(s) == Valid(s) => Untokenize(Tokenize(s)) = s

WildcardAtEnd(s) ==
  Valid(s) =>
    LET ts == Tokenize(s) IN
    \A i \in DOMAIN ts : IsWild(ts[i]) /\ i < Len(ts) =>
        ts[i + 1] \in (IF i <= HostTokLen(ts) THEN {Lit("."), Lit("/")} ELSE {Lit("/")})
=============================================================================
