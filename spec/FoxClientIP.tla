---------------------------- MODULE FoxClientIP ----------------------------
(* C18: which entry of the X-Forwarded-For / Forwarded header each resolver *)
(* designates.  A header is a sequence of lines, a line a sequence of       *)
(* entries; an entry is an abstract class                                   *)
(*    [ok |-> TRUE, id, cls]   a valid, specified address; cls says which   *)
(*                             range family contains it: "pub" (global),    *)
(*                             "privnet" / "loop" (private-space, loopback: *)
(*                             trusted by default), "cust" (custom ranges)  *)
(*    [ok |-> FALSE, id, cls |-> "junk" | "empty" | "unspec"]               *)
(* The concrete rendering (ports, brackets, zones, quotes, Forwarded        *)
(* parameters, whitespace) is chosen by the replayer from a table whose     *)
(* entries are labelled with class and canonical address when written.      *)
EXTENDS Naturals, Sequences, FiniteSets

RECURSIVE FlattenLines(_)
FlattenLines(ls) == IF ls = <<>> THEN <<>> ELSE Head(ls) \o FlattenLines(Tail(ls))

Err(why) == [ok |-> FALSE, why |-> why]
\* results designate an entry by its position in the flattened header
Sel(i)   == [ok |-> TRUE, pos |-> i]

IsAddr(e) == e.ok
In(e, classes) == e.ok /\ e.cls \in classes

\* n-th entry from the right (n >= 1)
FromRight(es, n) == es[Len(es) - n + 1]

\* rightmost-trusted-count: the n-th entry from the right; an error if it is absent or not an address
RightmostTrustedCount(ls, n) ==
  LET es == FlattenLines(ls) IN
  IF Len(es) < n THEN Err("tooshort")
  ELSE IF IsAddr(FromRight(es, n)) THEN Sel(Len(es) - n + 1) ELSE Err("invalid")

\* rightmost-non-private: the rightmost valid address outside the trusted classes
RECURSIVE RNP(_, _, _)
RNP(es, i, trusted) ==
  IF i < 1 THEN Err("none")
  ELSE IF IsAddr(es[i]) /\ ~In(es[i], trusted) THEN Sel(i)
  ELSE RNP(es, i - 1, trusted)
RightmostNonPrivate(ls, trusted) == LET es == FlattenLines(ls) IN RNP(es, Len(es), trusted)

\* rightmost-trusted-range: the first entry from the right that is not a trusted address;
\* an error if that entry is not an address at all (never a fallback to something further left)
RECURSIVE RTR(_, _, _)
RTR(es, i, trusted) ==
  IF i < 1 THEN Err("none")
  ELSE IF In(es[i], trusted) THEN RTR(es, i - 1, trusted)
  ELSE IF IsAddr(es[i]) THEN Sel(i) ELSE Err("invalid")
RightmostTrustedRange(ls, trusted) == LET es == FlattenLines(ls) IN RTR(es, Len(es), trusted)

\* leftmost-non-private: the first valid non-excluded address among the first limit entries
RECURSIVE LNP(_, _, _, _)
LNP(es, i, limit, excluded) ==
  IF i > Len(es) \/ i > limit THEN Err("none")
  ELSE IF IsAddr(es[i]) /\ ~In(es[i], excluded) THEN Sel(i)
  ELSE LNP(es, i + 1, limit, excluded)
LeftmostNonPrivate(ls, limit, excluded) == LNP(FlattenLines(ls), 1, limit, excluded)

\* single-IP header: the last header instance, which must be one address
SingleHeader(ls) ==
  IF ls = <<>> THEN Err("missing")
  ELSE LET l == ls[Len(ls)] IN
       IF Len(l) = 1 /\ IsAddr(l[1]) THEN Sel(Len(FlattenLines(ls))) ELSE Err("invalid")

\* chain: the first success
RECURSIVE Chain(_)
Chain(results) ==
  IF results = <<>> THEN Err("exhausted")
  ELSE IF Head(results).ok THEN Head(results) ELSE Chain(Tail(results))

--------------------------------------------------------------------------
\* Spoof resistance: prepending anything to the left never changes the outcome of a rightmost
\* strategy once the original header designates an entry (an address, or the entry that makes
\* rightmost-trusted-range fail).  pre is a sequence of lines placed before the header.
Shift(r, k) == IF r.ok THEN [r EXCEPT !.pos = @ + k] ELSE r
Unspoofable(ls, pre, trusted, n) ==
  LET k == Len(FlattenLines(pre)) IN
  /\ LET r == RightmostTrustedCount(ls, n) IN
     (r.ok \/ r.why = "invalid") => RightmostTrustedCount(pre \o ls, n) = Shift(r, k)
  /\ LET r == RightmostNonPrivate(ls, trusted) IN
     r.ok => RightmostNonPrivate(pre \o ls, trusted) = Shift(r, k)
  /\ LET r == RightmostTrustedRange(ls, trusted) IN
     (r.ok \/ r.why = "invalid") => RightmostTrustedRange(pre \o ls, trusted) = Shift(r, k)
=============================================================================
