----------------------------- MODULE FoxOptions -----------------------------
(* C19: the configuration a route carries.  Options are applied left to     *)
(* right, last one wins; a route starts from the router-wide configuration  *)
(* in force when it is created.                                             *)
(*   option  <<"ign", b>> | <<"red", b>> | <<"res", id>> | <<"ann", key, value>> *)
(*   id 0 = nil resolver; keys are named by kind, BadKeys cannot be map keys *)
EXTENDS Naturals, Sequences, FiniteSets

CONSTANTS AnnKeys, BadKeys

RouterDefault == [ign |-> FALSE, red |-> FALSE, res |-> 0]

TS(c, o) ==
  IF o[1] = "ign" THEN [c EXCEPT !.ign = o[2], !.red = IF o[2] THEN FALSE ELSE @]
  ELSE [c EXCEPT !.red = o[2], !.ign = IF o[2] THEN FALSE ELSE @]

\* a nil router-wide resolver is ignored (the option only ever installs one)
ApplyGlobal(c, o) ==
  CASE o[1] \in {"ign", "red"} -> TS(c, o)
    [] o[1] = "res" -> IF o[2] = 0 THEN c ELSE [c EXCEPT !.res = o[2]]

RECURSIVE FoldGlobal(_, _)
FoldGlobal(c, os) == IF os = <<>> THEN c ELSE FoldGlobal(ApplyGlobal(c, Head(os)), Tail(os))
RouterCfg(gs) == FoldGlobal(RouterDefault, gs)

RouteStart(rc) == [ign |-> rc.ign, red |-> rc.red, res |-> rc.res, ann |-> [k \in AnnKeys |-> 0], err |-> "ok"]

\* a nil per-route resolver means none; an annotation key that cannot be a map key is refused
ApplyRoute(c, o) ==
  IF c.err # "ok" THEN c
  ELSE CASE o[1] \in {"ign", "red"} -> [TS(c, o) EXCEPT !.err = "ok"]
         [] o[1] = "res" -> [c EXCEPT !.res = o[2]]
         [] o[1] = "ann" -> IF o[2] \in BadKeys THEN [c EXCEPT !.err = "invalidconfig"]
                            ELSE [c EXCEPT !.ann[o[2]] = o[3]]

RECURSIVE FoldRoute(_, _)
FoldRoute(c, os) == IF os = <<>> THEN c ELSE FoldRoute(ApplyRoute(c, Head(os)), Tail(os))
RouteCfg(gs, rs) == FoldRoute(RouteStart(RouterCfg(gs)), rs)

\* which resolver Context.ClientIP uses in a handler of the given kind
ResolverIn(kind, gs, rs) == IF kind = "route" THEN RouteCfg(gs, rs).res ELSE RouterCfg(gs).res

\* consequences stated by the property
MutuallyExclusive(gs, rs) == LET c == RouteCfg(gs, rs) IN ~(c.ign /\ c.red)
=============================================================================
