----------------------------- MODULE MC_Writer -----------------------------
EXTENDS FoxWriter, Gen_Writer, TLC, Json

EmitEdge == PrintT("VEC" \o ToJson([from |-> [st |-> st, n |-> n], op |-> op', to |-> [st |-> st', n |-> n']]))
=============================================================================
