----------------------------- MODULE FoxWriter -----------------------------
(* The response recorder behind Context.Writer() (C14).                     *)
(*                                                                          *)
(* State of the recorder:  status, size (-1 = nothing written), hij         *)
(* Log of the underlying http.ResponseWriter (what really went out):        *)
(*   hdrs  sequence of status codes it received (WriteHeader calls forwarded *)
(*         by the recorder, and the implicit 200 a net/http writer emits    *)
(*         itself when body bytes arrive first)                             *)
(*   body  number of body bytes it accepted                                 *)
(* n counts calls (bound); op is the observation variable.                  *)
(*                                                                          *)
(* Every call is a function on this state (so that the Context helpers can  *)
(* be written as compositions) wrapped in an action.  Faults are parameters:*)
(* the underlying writer accepts k of n bytes; a ReadFrom source delivers f *)
(* of m bytes before failing; the destination accepts at most j bytes.      *)
EXTENDS Integers, Sequences, FiniteSets

CONSTANTS
  Caps,        \* capabilities of the underlying writer, subset of
               \* {"readerfrom","flusher","hijacker","pusher","deadlines","duplex"}
  Codes,       \* status codes WriteHeader is called with
  WriteSizes,  \* set of <<n, k>>: a Write/WriteString of n bytes of which the underlying accepts k
  ReadFroms,   \* set of <<m, f, j>>: source of m bytes failing after f (f = m: clean EOF), destination accepts j
  MaxCalls,
  RedirectCodes, \* codes Context.Redirect is additionally tried with (a refused code changes nothing, so many are cheap)
  HelperCodes  \* status codes the Context helpers String/Blob/Stream/Redirect are called with ({} = helpers not explored)

VARIABLES st, n, op
vars == <<st, n, op>>
view == <<st, n>>

Informational(c) == c >= 100 /\ c <= 199 /\ c # 101
Final(c) == ~Informational(c)

\* ct: what the Content-Type response header holds: "none", "pre" (set by earlier code), "text" (String's
\* default), "given" (the type passed to Blob / Stream)
S0 == [status |-> 200, size |-> -1, hij |-> FALSE, hdrs |-> <<>>, body |-> 0, ct |-> "none"]

HasFinal(s) == \E i \in DOMAIN s.hdrs : Final(s.hdrs[i])
Min(a, b) == IF a < b THEN a ELSE b

\* what the three accessors must answer
Status(s)  == s.status
Size(s)    == IF s.size < 0 THEN 0 ELSE s.size
Written(s) == s.size >= 0

--------------------------------------------------------------------------
\* calls as functions on the state; R(s, ret) pairs the new state with the returned value
R(s, ret) == [s |-> s, ret |-> ret]

\* net/http (and httptest) refuse a code outside 100..999 by panicking in WriteHeader: nothing is forwarded, so
\* nothing is recorded either (F21: the recorder noted status and "written" before forwarding)
Refused(c) == c < 100 \/ c > 999
DoWriteHeader(s, c) ==
  IF s.hij \/ s.size >= 0 THEN R(s, "ignored")
  ELSE IF Refused(c) THEN R(s, "refused")
  ELSE IF Informational(c) THEN R([s EXCEPT !.hdrs = Append(@, c)], "ok")
  ELSE R([s EXCEPT !.hdrs = Append(@, c), !.status = c, !.size = 0], "ok")

\* Write / WriteString of nb bytes, the underlying accepts k
DoWrite(s, nb, k) ==
  IF s.hij THEN R(s, <<0, "hijacked">>)
  ELSE LET s1 == IF s.size < 0 THEN [s EXCEPT !.hdrs = Append(@, s.status), !.size = 0] ELSE s
       IN R([s1 EXCEPT !.body = @ + k, !.size = @ + k], <<k, IF k < nb THEN "short" ELSE "ok">>)

\* ReadFrom: f bytes arrive from the source (then EOF if f = m, an error otherwise), the destination takes
\* at most j of them.  Nothing at all happens when no byte arrives.
DoReadFrom(s, m, f, j) ==
  IF f = 0 THEN R(s, <<0, IF m = 0 THEN "ok" ELSE "srcerr">>)
  ELSE LET a == Min(f, j)
           s1 == IF s.size < 0 THEN [s EXCEPT !.hdrs = Append(@, s.status), !.size = 0] ELSE s
       IN R([s1 EXCEPT !.body = @ + a, !.size = @ + a],
            <<a, IF a < f THEN "short" ELSE IF f < m THEN "srcerr" ELSE "ok">>)

\* the pending header is forwarded before the flush is delegated; whether the flush then succeeds does not
\* change what was forwarded
DoFlush(s, fails) ==
  IF "flusher" \notin Caps THEN R(s, "notsupported")
  ELSE LET ret == IF fails /\ "flusherror" \in Caps THEN "flusherr" ELSE "ok" IN
       IF s.size < 0 /\ ~s.hij THEN R([s EXCEPT !.hdrs = Append(@, s.status), !.size = 0], ret)
       ELSE R(s, ret)

DoHijack(s) ==
  IF "hijacker" \notin Caps THEN R(s, "notsupported") ELSE R([s EXCEPT !.hij = TRUE], "ok")

DoCap(s, cap) == R(s, IF cap \in Caps THEN "ok" ELSE "notsupported")

\* Context helpers as compositions
\* String keeps a content type that is already set, Blob and Stream send the one they are given
DoString(s, c, nb) == LET a == DoWriteHeader([s EXCEPT !.ct = IF @ = "none" THEN "text" ELSE @], c) IN DoWrite(a.s, nb, nb)
DoBlob(s, c, nb)   == LET a == DoWriteHeader([s EXCEPT !.ct = "given"], c) IN DoWrite(a.s, nb, nb)
DoStream(s, c, m)  == LET a == DoWriteHeader([s EXCEPT !.ct = "given"], c) IN DoReadFrom(a.s, m, m, m)
DoRedirect(s, c, hasBody, nb) ==
  IF c < 300 \/ c > 308 THEN R(s, "invalidcode")
  ELSE LET a == DoWriteHeader(s, c) IN IF hasBody THEN R(DoWrite(a.s, nb, nb).s, "ok") ELSE R(a.s, "ok")

--------------------------------------------------------------------------
Init == st = S0 /\ n = 0 /\ op = [call |-> "init", arg |-> <<>>, ret |-> "ok"]

Step(r, call, arg) == /\ n < MaxCalls /\ st' = r.s /\ n' = n + 1 /\ op' = [call |-> call, arg |-> arg, ret |-> r.ret]

WriteHeader(c)     == Step(DoWriteHeader(st, c), "WriteHeader", <<c>>)
Write(w)           == Step(DoWrite(st, w[1], w[2]), "Write", w)
WriteString(w)     == Step(DoWrite(st, w[1], w[2]), "WriteString", w)
ReadFrom(rf)       == ~st.hij /\ Step(DoReadFrom(st, rf[1], rf[2], rf[3]), "ReadFrom", rf)
Flush(fails)       == Step(DoFlush(st, fails), "Flush", <<IF fails THEN 1 ELSE 0>>)
SetCT              == st.ct = "none" /\ Step(R([st EXCEPT !.ct = "pre"], "ok"), "SetContentType", <<>>)
Hijack             == Step(DoHijack(st), "Hijack", <<>>)
Cap(cap)           == Step(DoCap(st, cap), cap, <<>>)

\* Context helpers (the request is a POST, for which http.Redirect sends the header only)
HString(c)   == ~st.hij /\ Step(DoString(st, c, 4), "String", <<c, 4>>)
HBlob(c)     == ~st.hij /\ Step(DoBlob(st, c, 4), "Blob", <<c, 4>>)
HStream(c)   == ~st.hij /\ Step(DoStream(st, c, 5), "Stream", <<c, 5>>)
HRedirect(c) == ~st.hij /\ Step(DoRedirect(st, c, FALSE, 0), "Redirect", <<c>>)

Next ==
  \/ \E c \in HelperCodes : HString(c) \/ HBlob(c) \/ HStream(c) \/ HRedirect(c)
  \/ (HelperCodes # {} /\ \E c \in RedirectCodes : HRedirect(c))
  \/ \E c \in Codes : WriteHeader(c)
  \/ \E w \in WriteSizes : Write(w) \/ WriteString(w)
  \/ \E rf \in ReadFroms : ReadFrom(rf)
  \/ Flush(FALSE) \/ Flush(TRUE) \/ Hijack
  \/ (HelperCodes # {} /\ SetCT)
  \/ \E cap \in {"pusher", "deadlines", "duplex"} : Cap(cap)

Spec == Init /\ [][Next]_vars

--------------------------------------------------------------------------
\* C14 as invariants over the log of the underlying writer
Finals(s) == {i \in DOMAIN s.hdrs : Final(s.hdrs[i])}

AtMostOneFinal == Cardinality(Finals(st)) <= 1

StatusIsFirstFinal ==
  IF Finals(st) = {} THEN st.status = 200
  ELSE st.status = st.hdrs[CHOOSE i \in Finals(st) : \A k \in Finals(st) : i <= k]

SizeIsAccepted == Size(st) = st.body

WrittenIff == Written(st) <=> (HasFinal(st) \/ st.body > 0)

\* no header of any kind is forwarded once body bytes were accepted, and a final header precedes the body
NoHeaderAfterBody == [][st.body > 0 => st'.hdrs = st.hdrs]_vars
BodyNeedsHeader == st.body > 0 => HasFinal(st)

\* the underlying writer only ever gains bytes
BodyMonotone == [][st'.body >= st.body]_vars

TypeOK == st.size >= -1 /\ st.body >= 0 /\ n \in 0..MaxCalls
=============================================================================
