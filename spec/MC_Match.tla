----------------------------- MODULE MC_Match -----------------------------
(* Exhaustive small-scope instance of the reference matcher (C01/C08/C09): *)
(* every conflict-free table of at most MaxTab routes over the generated   *)
(* pool x every generated request.  For each table TLC                      *)
(*   - checks the theorems Sound and Irrelevant of FoxMatch, and           *)
(*   - emits one JSON line with the prescribed outcome of every request,   *)
(*     which the Go replayer drives through the real router (D1).          *)
(* Gen_Match is written by the harness from VERIF_SEED.                    *)
EXTENDS FoxMatch, Gen_Match, TLC, Json, FiniteSetsExt, SequencesExt

PoolToks == [i \in DOMAIN GenPool |-> Tokenize(GenPool[i])]
ValidIdx == {i \in DOMAIN GenPool : Valid(GenPool[i])}

RECURSIVE ConflictAt(_, _)
ConflictAt(a, b) ==
  IF a = <<>> \/ b = <<>> THEN FALSE
  ELSE IF Head(a) = Head(b) THEN ConflictAt(Tail(a), Tail(b))
  ELSE Head(a).k = Head(b).k /\ Head(a).k \in {"par", "cat"}

ConflictFreeIdx(S) == \A i, j \in S : ~ConflictAt(PoolToks[i], PoolToks[j])

Tables ==
  {S \in (SubsetsUpTo(ValidIdx \cap (1..GenEnumN), GenMaxTab) \ {{}}) \cup GenExtraTables :
      S \subseteq ValidIdx /\ ConflictFreeIdx(S)}

VARIABLES tab, done
vars == <<tab, done>>

TableOf(S) == LET ids == SetToSortSeq(S, <) IN [i \in DOMAIN ids |-> [toks |-> PoolToks[ids[i]], pi |-> ids[i]]]

Binds(r) == [i \in DOMAIN r.b |-> <<Str(r.b[i][1]), Str(r.b[i][2])>>]

Probe(T, h, p) ==
  LET r == Lookup(T, GenHosts[h], GenPaths[p]) IN
  IF ~SoundR(T, r, GenHosts[h], GenPaths[p]) THEN Assert(FALSE, <<"theorem Sound fails", T, GenHosts[h], GenPaths[p], r>>)
  ELSE IF GenCheckIrrelevant /\ ~IrrelevantR(T, r, GenHosts[h], GenPaths[p]) THEN Assert(FALSE, <<"theorem Irrelevant fails", T, GenHosts[h], GenPaths[p], r>>)
  ELSE IF r.ok THEN <<h, p, T[r.id].pi, IF r.tsr THEN 1 ELSE 0, Binds(r)>>
  ELSE <<h, p, 0, 0, <<>>>>

HostsFor(T) == IF HostIds(T) = {} THEN {1} ELSE DOMAIN GenHosts

Vec(S) ==
  LET T == TableOf(S)
      hs == SetToSortSeq(HostsFor(T), <)
  IN [t |-> SetToSortSeq(S, <),
      pr |-> FlattenSeq([i \in DOMAIN hs |-> [p \in DOMAIN GenPaths |-> Probe(T, hs[i], p)]])]

Init == tab \in Tables /\ done = FALSE
Next == /\ ~done
        /\ PrintT("VEC" \o ToJson(Vec(tab)))
        /\ done' = TRUE
        /\ UNCHANGED tab
Spec == Init /\ [][Next]_vars
=============================================================================
