----------------------------- MODULE MC_Pattern -----------------------------
(* C10: every string over GenAlphabet up to length GenPrefixLen+GenSuffixLen: *)
(* the grammar verdict under each parameter-limit configuration, and for      *)
(* every accepted pattern the routability theorem (as the only route, every   *)
(* instantiation with non-empty values is routed to it and the reported       *)
(* values re-instantiate the request).  Emits the accepted patterns with      *)
(* their instantiations for the D1 replay; everything else must be rejected.  *)
EXTENDS FoxMatch, Gen_Pattern, TLC, Json, SequencesExt, FiniteSetsExt

VARIABLES pre, done

Sufs == SeqsUpTo(GenAlphabet, GenSuffixLen)

\* all value assignments for the wildcards of ts
RECURSIVE Assignments(_)
Assignments(ws) ==
  IF ws = <<>> THEN {<<>>}
  ELSE LET rest == Assignments(Tail(ws))
           vals == IF Head(ws).k = "cat" THEN GenParamValues \cup GenCatchValues ELSE GenParamValues
       IN {<<v>> \o r : v \in vals, r \in rest}

\* a catch-all followed by further pattern text may be split in several valid ways
ExactCapture(ts) == \A i \in DOMAIN ts : ts[i].k = "cat" => i = Len(ts)

Routable(s, vals) ==
  LET ts == Tokenize(s)
      T == <<[toks |-> ts]>>
      whole == Instantiate(ts, vals)
      he == HostTokLen(ts)
      host == Instantiate(HostToks(ts), vals)
      path == SubSeq(whole, Len(host) + 1, Len(whole))
      r == Lookup(T, host, path)
  IN IF ~(r.ok /\ ~r.tsr /\ Instantiate(ts, ParamVals(r)) = whole /\ (ExactCapture(ts) => ParamVals(r) = vals))
        THEN Assert(FALSE, <<"routability theorem fails", s, vals, r>>)
     ELSE [h |-> Str(host), p |-> Str(path), v |-> [i \in DOMAIN vals |-> Str(vals[i])],
           b |-> [i \in DOMAIN r.b |-> <<Str(r.b[i][1]), Str(r.b[i][2])>>],
           x |-> ExactCapture(ts)]

Verdicts(s) == [i \in DOMAIN GenLimits |-> ValidPattern(s, GenLimits[i][1], GenLimits[i][2])]

Entry(s) ==
  IF ~(RoundTrip(s) /\ WildcardAtEnd(s)) THEN Assert(FALSE, <<"grammar consequence fails", s>>)
  ELSE [s |-> Str(s), ok |-> Verdicts(s),
        inst |-> IF Valid(s) THEN SetToSeq({Routable(s, a) : a \in Assignments(Wildcards(Tokenize(s)))}) ELSE <<>>]

Strings == IF pre = <<"short">> THEN SeqsUpTo(GenAlphabet, GenPrefixLen - 1) ELSE {pre \o x : x \in Sufs}

\* only strings accepted under at least one configuration are listed; the replayer enumerates the same
\* strings itself and requires every unlisted one to be rejected under every configuration
Vec == [pre |-> Str(pre),
        acc |-> SetToSeq({Entry(s) : s \in {x \in Strings : \E i \in DOMAIN GenLimits : ValidPattern(x, GenLimits[i][1], GenLimits[i][2])}})]

Init == pre \in SeqsOfLen(GenAlphabet, GenPrefixLen) \cup {<<"short">>} /\ done = FALSE
Next == ~done /\ PrintT("VEC" \o ToJson(Vec)) /\ done' = TRUE /\ UNCHANGED pre
=============================================================================
