SPECIFICATION Spec
CONSTANTS
  Caps <- GenCaps
  Codes <- GenCodes
  WriteSizes <- GenWriteSizes
  ReadFroms <- GenReadFroms
  MaxCalls <- GenMaxCalls
  HelperCodes <- GenHelperCodes
  RedirectCodes <- GenRedirectCodes
VIEW view
INVARIANTS TypeOK AtMostOneFinal StatusIsFirstFinal SizeIsAccepted WrittenIff BodyNeedsHeader
PROPERTIES NoHeaderAfterBody BodyMonotone
ACTION_CONSTRAINT EmitEdge
CHECK_DEADLOCK FALSE
