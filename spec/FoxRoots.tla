------------------------------ MODULE FoxRoots ------------------------------
(* The roots slice of the routing tree (tree.go: roots, addRoot, updateRoot,  *)
(* removeRoot, truncate): one entry per method, shared between the versions   *)
(* of the tree exactly like nodes are, and copied on every change.  FoxCow    *)
(* models what happens below one entry; here the trees are opaque (an         *)
(* identity and a number of routes) and the subject is the slice itself.      *)
(*                                                                            *)
(*   heap  rs   sequence of roots slices, each a sequence of entries          *)
(*              [m, t]: method, tree identity (t = 0: an entry nil-ed for     *)
(*              the garbage collector)                                        *)
(*         cnt  number of routes of every tree identity                       *)
(* The four standard methods are never removed: their entry is replaced by an *)
(* empty tree.  Any other method disappears from the slice with its last      *)
(* route, and when it is truncated.                                           *)
EXTENDS Naturals, Sequences, FiniteSets

CONSTANTS Common,     \* the pre-instantiated methods, a sequence (never removed, always the first entries, in this order)
          Custom,     \* other methods in use, a set
          MaxCnt,     \* bound on the routes per method
          Variant
Is(v) == Variant = v

Entry(m, t) == [m |-> m, t |-> t]
MethodIdx(sl, m) == IF \E i \in DOMAIN sl : sl[i].m = m THEN CHOOSE i \in DOMAIN sl : sl[i].m = m ELSE 0
IsCommon(m) == \E i \in DOMAIN Common : Common[i] = m

\* H = [rs, cnt]; allocation
NewTree(H, n) == [H |-> [H EXCEPT !.cnt = Append(@, n)], t |-> Len(H.cnt) + 1]
NewSlice(H, sl) == [H |-> [H EXCEPT !.rs = Append(@, sl)], s |-> Len(H.rs) + 1]

\* addRoot / updateRoot / removeRoot: always a fresh slice
AddRoot(H, s, m, t) == NewSlice(H, Append(H.rs[s], Entry(m, t)))
UpdateRoot(H, s, m, t) == NewSlice(H, [i \in DOMAIN H.rs[s] |-> IF H.rs[s][i].m = m THEN Entry(m, t) ELSE H.rs[s][i]])
RemoveRoot(H, s, m) == NewSlice(H, SelectSeq(H.rs[s], LAMBDA e : e.m # m))

\* a successful insert of one route in method m
Insert(H, s, m) ==
  LET i == MethodIdx(H.rs[s], m) IN
  IF i = 0 THEN LET a == NewTree(H, 1) IN AddRoot(a.H, s, m, a.t)
  ELSE LET a == NewTree(H, H.cnt[H.rs[s][i].t] + 1) IN UpdateRoot(a.H, s, m, a.t)

\* a successful delete of one route of method m (m is present and has routes)
Delete(H, s, m) ==
  LET i == MethodIdx(H.rs[s], m)
      left == H.cnt[H.rs[s][i].t] - 1
  IN IF left = 0 /\ ~IsCommon(m) THEN RemoveRoot(H, s, m)
     ELSE LET a == NewTree(H, left) IN UpdateRoot(a.H, s, m, a.t)

\* truncate(methods) works on nr, a copy of the slice: a standard method gets a fresh empty tree in place, any other
\* method is cut out (the entries behind it move forward); the vacated tail of nr is nil-ed for the collector.
\* ms: the methods in the order given. Returns the heap and the slice the transaction continues with.
RECURSIVE TruncLoop(_, _, _)
TruncLoop(H, nr, ms) ==
  IF ms = <<>> THEN [H |-> H, nr |-> nr]
  ELSE LET m == Head(ms)
           i == MethodIdx(nr, m)
       IN IF i = 0 THEN TruncLoop(H, nr, Tail(ms))
          ELSE IF IsCommon(m) THEN LET a == NewTree(H, 0) IN TruncLoop(a.H, [nr EXCEPT ![i] = Entry(m, a.t)], Tail(ms))
          ELSE TruncLoop(H, SelectSeq(nr, LAMBDA e : e.m # m), Tail(ms))

\* in-place form of the same loop on slice s of the heap (what the wrong variants do to the old slice):
\* entries are overwritten and shifted inside the old backing array, the tail beyond the new length is nil-ed
Pad(sl, n) == sl \o [i \in 1..(n - Len(sl)) |-> Entry("", 0)]
Truncate(H, s, ms) ==
  IF ms = <<>> THEN
     \* all methods: a brand-new slice with an empty tree for every standard method
     LET RECURSIVE Fresh(_, _, _)
         Fresh(HH, i, acc) == IF i > Len(Common) THEN NewSlice(HH, acc)
                              ELSE LET a == NewTree(HH, 0) IN Fresh(a.H, i + 1, Append(acc, Entry(Common[i], a.t)))
     IN Fresh(H, 1, <<>>)
  ELSE LET old == H.rs[s]
           r == TruncLoop(H, old, ms)
           inPlace == Is("truncateInPlace") \/ (Is("copyOnlyIfCustom") /\ Len(old) <= Len(Common))
           H1 == IF inPlace THEN [r.H EXCEPT !.rs[s] = Pad(r.nr, Len(old))]                  \* the old array now holds the new content
                 ELSE IF Is("clearOldTail") THEN [r.H EXCEPT !.rs[s] = [i \in DOMAIN old |-> IF i > Len(r.nr) THEN Entry("", 0) ELSE old[i]]]
                 ELSE r.H
       IN NewSlice(H1, r.nr)

\* ---- reachability and renumbering -----------------------------------------------------------------------
Unchanged(H, H2, roots) == \A i \in DOMAIN roots : H2.rs[roots[i]] = H.rs[roots[i]]

PosIn(seq, x) == CHOOSE i \in DOMAIN seq : seq[i] = x
RECURSIVE Dedup(_, _)
Dedup(seq, acc) == IF seq = <<>> THEN acc
                   ELSE IF \E i \in DOMAIN acc : acc[i] = Head(seq) THEN Dedup(Tail(seq), acc) ELSE Dedup(Tail(seq), Append(acc, Head(seq)))
RECURSIVE TreesOf(_, _, _)
TreesOf(H, ss, acc) ==
  IF ss = <<>> THEN acc
  ELSE LET sl == H.rs[Head(ss)]
           ts == [i \in DOMAIN sl |-> sl[i].t]
       IN TreesOf(H, Tail(ss), Dedup(SelectSeq(ts, LAMBDA t : t # 0), acc))
Renumber(H, roots) ==
  LET ss == Dedup(roots, <<>>)
      ts == TreesOf(H, ss, <<>>)
  IN [H |-> [rs |-> [j \in DOMAIN ss |-> [i \in DOMAIN H.rs[ss[j]] |->
                       LET e == H.rs[ss[j]][i] IN Entry(e.m, IF e.t = 0 THEN 0 ELSE PosIn(ts, e.t))]],
             cnt |-> [k \in DOMAIN ts |-> H.cnt[ts[k]]]],
      roots |-> [i \in DOMAIN roots |-> PosIn(ss, roots[i])]]

\* what a reader sees through a roots slice: the methods that have routes, in slice order, with their route counts
Listing(H, s) == SelectSeq([i \in DOMAIN H.rs[s] |-> LET e == H.rs[s][i] IN <<e.m, IF e.t = 0 THEN 0 ELSE H.cnt[e.t]>>], LAMBDA x : x[2] > 0)
Broken(H, s) == \E i \in DOMAIN H.rs[s] : H.rs[s][i].t = 0      \* a nil entry: readers panic on it
=============================================================================
