----------------------------- MODULE MC_Logger -----------------------------
EXTENDS FoxLogger, Gen_Logger, TLC, Json, SequencesExt
VARIABLES k, done
Res == {"none", "ok", "fail"}
Vec(kind) == [kind |-> kind,
  cases |-> SetToSeq({[did |-> d, loc |-> l, router |-> a, route |-> b, rec |-> Record(kind, d, l, a, b)] :
                       d \in GenDid, l \in BOOLEAN, a \in Res, b \in Res})]
Init == k \in {"route", "noroute", "nomethod", "redirect", "options"} /\ done = FALSE
Next == ~done /\ PrintT("VEC" \o ToJson(Vec(k))) /\ done' = TRUE /\ UNCHANGED k
=============================================================================
