SPECIFICATION TSpec
CONSTANTS
  PoolChars <- GenPool
  MethodChars <- GenMethods
  Txns <- GenTxns
  Snaps <- GenSnaps
  MaxOps <- GenMaxOps
  MaxParams <- GenMaxParams
  MaxKey <- GenMaxKey
  TruncSets <- GenTruncSets
  KindsUsed <- GenKinds
  SettledUsed <- GenSettled
INVARIANTS LockDiscipline
PROPERTIES SnapshotFrozen PublishOnlyAtCommit WritesArePrivate
CONSTRAINT HighWater
POSTCONDITION Accepted
CHECK_DEADLOCK FALSE
