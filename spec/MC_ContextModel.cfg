SPECIFICATION Spec
PROPERTIES ClonesStable
CONSTRAINT Bound
CHECK_DEADLOCK FALSE
