SPECIFICATION Spec
VIEW view
INVARIANTS Structure Refinement Canonicity
ACTION_CONSTRAINT EmitEdge
CHECK_DEADLOCK FALSE
