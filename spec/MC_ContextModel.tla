-------------------------- MODULE MC_ContextModel --------------------------
EXTENDS FoxContext, Gen_Context
Bound == n <= GenMaxLen
=============================================================================
