----------------------------- MODULE FoxMatch -----------------------------
(* Reference semantics of route selection (C01), trailing-slash detection  *)
(* (C08) and hostname matching (C09).                                      *)
(*                                                                         *)
(* The matcher is a priority-ordered depth-first search over the *set of   *)
(* patterns* (as token sequences) and the remaining input.  It never       *)
(* mentions radix nodes, edges, skipped-node stacks or saved counters: it  *)
(* is the documented rule "static text before a named parameter before a   *)
(* catch-all, at each position, backtracking when the more specific branch *)
(* fails".                                                                 *)
(*                                                                         *)
(* A table T is a sequence of routes; a route is a record with at least    *)
(*   toks : token sequence of the pattern (FoxPattern!Tokenize)            *)
(* Candidates carry the index of the route in T and its remaining tokens.  *)
EXTENDS FoxPattern

NoMatch == [ok |-> FALSE]
Match(id, b) == [ok |-> TRUE, id |-> id, b |-> b]

Advance(C) == {[id |-> c.id, rem |-> Tail(c.rem)] : c \in C}

\* C: candidates (all share the token prefix consumed so far); p: remaining path;
\* b: bindings so far, a sequence of <<name, value>>.
RECURSIVE Dfs(_, _, _), TryInfix(_, _, _, _, _)
Dfs(C, p, b) ==
  IF p = <<>> THEN
     LET done == {c \in C : c.rem = <<>>} IN
     IF done = {} THEN NoMatch ELSE Match((CHOOSE c \in done : TRUE).id, b)
  ELSE
     LET live == {c \in C : c.rem # <<>>}
         S == {c \in live : Head(c.rem) = Lit(Head(p))}
         P == {c \in live : Head(c.rem).k = "par"}
         W == {c \in live : Head(c.rem).k = "cat"}
         r1 == IF S = {} THEN NoMatch ELSE Dfs(Advance(S), Tail(p), b)
     IN IF r1.ok THEN r1 ELSE
        LET k0 == Index(p, "/")
            k  == IF k0 = 0 THEN Len(p) + 1 ELSE k0              \* the first segment is p[1..k-1]
            r2 == IF P = {} \/ k = 1 THEN NoMatch                 \* a {param} never captures ""
                  ELSE LET nm == Head((CHOOSE c \in P : TRUE).rem).v IN
                       Dfs(Advance({c \in P : Head(c.rem).v = nm}), Rest(p, k),
                           Append(b, <<nm, Take(p, k - 1)>>))
        IN IF r2.ok THEN r2 ELSE
           IF W = {} THEN NoMatch ELSE
           LET nm == Head((CHOOSE c \in W : TRUE).rem).v
               Wn == {c \in W : Head(c.rem).v = nm}
               infix  == {c \in Wn : Len(c.rem) > 1}              \* *{x} followed by more pattern text
               suffix == {c \in Wn : Len(c.rem) = 1}              \* *{x} ends the pattern
               r3 == IF infix = {} \/ Head(p) = "/" THEN NoMatch  \* an infix capture never starts with "/"
                     ELSE TryInfix(Advance(infix), p, b, nm, 2)
           IN IF r3.ok THEN r3 ELSE
              IF suffix = {} THEN NoMatch
              ELSE Match((CHOOSE c \in suffix : TRUE).id, Append(b, <<nm, p>>))

\* try every "/" of p from left to right as the end of the infix capture (shortest capture first)
TryInfix(I, p, b, nm, from) ==
  LET k == IndexFrom(p, "/", from) IN
  IF k = 0 THEN NoMatch
  ELSE LET r == Dfs(I, Rest(p, k), Append(b, <<nm, Take(p, k - 1)>>)) IN
       IF r.ok THEN r ELSE TryInfix(I, p, b, nm, k + 1)

\* Host stage: same walk over the host with "." as separator and no catch-all; the path is only
\* entered when the host is exhausted, through candidates whose next token is the literal "/".
RECURSIVE HostDfs(_, _, _, _)
HostDfs(C, h, p, b) ==
  IF h = <<>> THEN
     LET atPath == {c \in C : c.rem # <<>> /\ Head(c.rem) = Lit("/")} IN
     IF atPath = {} THEN NoMatch ELSE Dfs(atPath, p, b)
  ELSE
     LET live == {c \in C : c.rem # <<>>}
         S == {c \in live : Head(h) # "/" /\ Head(c.rem) = Lit(Head(h))}
         P == {c \in live : Head(c.rem).k = "par"}
         r1 == IF S = {} THEN NoMatch ELSE HostDfs(Advance(S), Tail(h), p, b)
     IN IF r1.ok THEN r1 ELSE
        LET k0 == Index(h, ".")
            k  == IF k0 = 0 THEN Len(h) + 1 ELSE k0
        IN IF P = {} \/ k = 1 THEN NoMatch
           ELSE LET nm == Head((CHOOSE c \in P : TRUE).rem).v IN
                HostDfs(Advance({c \in P : Head(c.rem).v = nm}), Rest(h, k), p,
                        Append(b, <<nm, Take(h, k - 1)>>))

--------------------------------------------------------------------------
\* Tables.  ids: a set of indices into T (the candidates considered).
Cands(T, ids) == {[id |-> i, rem |-> T[i].toks] : i \in ids}

PathOnlyIds(T) == {i \in DOMAIN T : ~HasHost(T[i].toks)}
HostIds(T)     == {i \in DOMAIN T : HasHost(T[i].toks)}
EndsInSlash(ts) == ts # <<>> /\ LastOf(ts) = Lit("/")

Adjusted(p) == IF Len(p) > 1 /\ LastOf(p) = "/" THEN DropLast(p) ELSE Append(p, "/")

\* result of a lookup: [ok, id, tsr, b]
Found(r, tsr) == [ok |-> TRUE, id |-> r.id, tsr |-> tsr, b |-> r.b]
NotFound == [ok |-> FALSE]

\* Direct match then trailing-slash match within one stage; walk(ids, path) is the stage's matcher.
Stage(T, ids, p, walk(_, _)) ==
  LET d == walk(ids, p) IN
  IF d.ok THEN Found(d, FALSE)
  ELSE IF p = <<"/">> THEN NotFound
  ELSE IF LastOf(p) = "/" THEN
       LET r == walk(ids, DropLast(p)) IN IF r.ok THEN Found(r, TRUE) ELSE NotFound
  ELSE \* the added slash must be matched by a literal "/" ending the pattern
       LET r == walk({i \in ids : EndsInSlash(T[i].toks)}, Append(p, "/")) IN
       IF r.ok THEN Found(r, TRUE) ELSE NotFound

PathStage(T, p) ==
  LET walk(ids, q) == IF ids = {} THEN NoMatch ELSE Dfs(Cands(T, ids), q, <<>>) IN
  Stage(T, PathOnlyIds(T), p, walk)

HostStage(T, h, p) ==
  LET walk(ids, q) == IF ids = {} THEN NoMatch ELSE HostDfs(Cands(T, ids), h, q, <<>>) IN
  Stage(T, HostIds(T), p, walk)

--------------------------------------------------------------------------
\* Host header normalisation: one ":port" removed (bracket aware), then one trailing dot.
\* Mirrors the documented behaviour "any port and one trailing dot removed"; when the value has a
\* colon but is not host:port (e.g. a bare IPv6 literal) it is left unchanged.
AllDigits(s) == \A i \in DOMAIN s : s[i] \in Digits
TrimDot(h) == IF h # <<>> /\ LastOf(h) = "." THEN DropLast(h) ELSE h

StripHostPort(h) ==
  IF h = <<>> THEN h
  ELSE IF ~HasChar(h, ":") THEN TrimDot(h)
  ELSE LET c == LastIndex(h, ":") IN
       IF h[1] = "[" THEN
          LET e == Index(h, "]") IN
          IF e # 0 /\ e + 1 = c THEN TrimDot(SubSeq(h, 2, e - 1))     \* [v6]:port   (port may be empty)
          ELSE h
       ELSE IF Index(h, ":") = c /\ ~HasChar(h, "]") THEN TrimDot(Take(h, c - 1))   \* host:port
       ELSE h

\* The full lookup for one method's table T (a sequence of routes of that method).
\* A method whose routes have no hostname ignores the Host altogether.
Lookup(T, hostport, p) ==
  IF HostIds(T) = {} THEN PathStage(T, p)
  ELSE LET h == StripHostPort(hostport)
           r == IF h = <<>> \/ HasChar(h, "/") THEN NotFound ELSE HostStage(T, h, p)   \* a Host with a slash is no hostname
       IN IF r.ok THEN r ELSE PathStage(T, p)

--------------------------------------------------------------------------
\* Theorems about the reference itself (checked by TLC on the bounded domain).
ParamVals(r) == [i \in DOMAIN r.b |-> r.b[i][2]]
ParamKeys(r) == [i \in DOMAIN r.b |-> r.b[i][1]]

\* whole input the selected pattern must reproduce
Whole(T, r, hostport, p) ==
  IF HasHost(T[r.id].toks) THEN StripHostPort(hostport) \o p ELSE p

SoundR(T, r, hostport, p) ==
  r.ok =>
    LET ts == T[r.id].toks
        q  == IF r.tsr THEN Adjusted(p) ELSE p
        ws == Wildcards(ts)
    IN /\ ParamKeys(r) = ParamNames(ts)
       /\ Instantiate(ts, ParamVals(r)) = Whole(T, r, hostport, q)
       /\ \A i \in DOMAIN ws :
             /\ ParamVals(r)[i] # <<>>
             /\ ws[i].k = "par" =>
                  ~HasChar(ParamVals(r)[i], "/") /\ (i <= NumWild(HostToks(ts)) => ~HasChar(ParamVals(r)[i], "."))
       /\ r.tsr => p # <<"/">>

Sound(T, hostport, p) == SoundR(T, Lookup(T, hostport, p), hostport, p)

\* A route that matches neither the path nor its adjusted form never changes the outcome.
MatchesAlone(T, i, hostport, p) ==
  LET one == <<T[i]>> IN Lookup(one, hostport, p).ok

Without(T, i) == [j \in 1..(Len(T) - 1) |-> IF j < i THEN T[j] ELSE T[j + 1]]
ShiftId(r, i) == IF r.ok /\ r.id >= i THEN [r EXCEPT !.id = r.id + 1] ELSE r

\* Lookup restricted to candidate ids (used for the irrelevance theorem without renumbering)
LookupIds(T, ids, hostport, p) ==
  LET hids == ids \cap HostIds(T)
      pids == ids \cap PathOnlyIds(T)
      pwalk(js, q) == IF js = {} THEN NoMatch ELSE Dfs(Cands(T, js), q, <<>>)
      pstage == Stage(T, pids, p, pwalk)
  IN IF HostIds(T) = {} THEN pstage
     ELSE LET h == StripHostPort(hostport)
              hwalk(js, q) == IF js = {} THEN NoMatch ELSE HostDfs(Cands(T, js), h, q, <<>>)
              r == IF h = <<>> \/ HasChar(h, "/") THEN NotFound ELSE Stage(T, hids, p, hwalk)
          IN IF r.ok THEN r ELSE pstage

IrrelevantR(T, r, hostport, p) ==
  \A i \in DOMAIN T :
     LET alone == LookupIds(T, {i}, hostport, p) IN
     ~alone.ok => LookupIds(T, DOMAIN T \ {i}, hostport, p) = r

Irrelevant(T, hostport, p) == IrrelevantR(T, Lookup(T, hostport, p), hostport, p)
=============================================================================
