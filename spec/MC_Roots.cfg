SPECIFICATION Spec
VIEW view
CONSTANTS
  Common <- GenCommon
  Custom <- GenCustom
  MaxCnt <- GenMaxCnt
  Variant <- GenVariant
INVARIANTS NothingFrozenIsTouched NoNilEntry CommonFirst
CONSTRAINT Bounded
CHECK_DEADLOCK FALSE
