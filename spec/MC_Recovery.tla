---------------------------- MODULE MC_Recovery ----------------------------
EXTENDS FoxRecovery, Gen_Recovery, TLC, Json, SequencesExt
VARIABLES c, done
Vec(class) ==
  [class |-> class,
   cases |-> SetToSeq({[progress |-> p, repanic |-> Repanic(class), response |-> Response(class, p), logged |-> Logged(class)] : p \in Progress}),
   headers |-> [i \in DOMAIN GenHeaderNames |-> [name |-> Str(GenHeaderNames[i]), redacted |-> Redacted(GenHeaderNames[i], GenSensitive)]]]
Init == c \in Classes /\ done = FALSE
Next == ~done /\ PrintT("VEC" \o ToJson(Vec(c))) /\ done' = TRUE /\ UNCHANGED c
=============================================================================
