---------------------------- MODULE FoxRecovery ----------------------------
(* C15: what the Recovery middleware does with a panic, and what it logs.   *)
EXTENDS FoxStrings

\* classes of panic values
\*   abort          http.ErrAbortHandler itself
\*   wrappedAbort   an error wrapping it
\*   brokenPipe / connReset   *net.OpError wrapping an os.SyscallError EPIPE / ECONNRESET
\*   otherOpError   *net.OpError with another cause
\*   error, string, nilval (panic(nil) -> *runtime.PanicNilError), custom
\*   brokenPipeWrapped / connResetNested   the same syscall error one level deeper inside the *net.OpError (wrapped
\*                  with %w, or carried by a nested *net.OpError)
\*   nilErrPtr / nilOpError / panickyError   panic values whose own methods panic: a nil pointer of an error type
\*                  whose Error dereferences it, a nil *net.OpError (Error and Unwrap dereference it), an error
\*                  whose Error method always panics. "A panic with any value": they are recovered like any other
\*                  value (F20: the recovery itself panicked while rendering them)
Classes == {"abort", "wrappedAbort", "brokenPipe", "connReset", "brokenPipeWrapped", "connResetNested", "otherOpError", "error", "string", "nilval", "custom",
            "nilErrPtr", "nilOpError", "panickyError"}
Progress == {"none", "header", "partial", "flushed", "emptycopy", "info"}   \* flushed: the header went out through Flush, no explicit WriteHeader
\* emptycopy: the handler copied a source that yields nothing into the writer (ReadFrom / io.Copy): nothing went out
\* info: only an informational header (103 Early Hints) went out: no final header, no body byte, the 500 reply is due
NothingSent(progress) == progress \in {"none", "emptycopy", "info"}

Repanic(class) == class \in {"abort", "wrappedAbort"}
Broken(class) == class \in {"brokenPipe", "connReset", "brokenPipeWrapped", "connResetNested"}

\* what the client gets: "500" (error page written by the recovery), "nothing" (broken connection: no write at
\* all), "untouched" (the response the handler had started stays as it is)
Response(class, progress) ==
  IF Repanic(class) THEN "untouched"
  ELSE IF ~NothingSent(progress) THEN "untouched"
  ELSE IF Broken(class) THEN "nothing"
  ELSE "500"

Logged(class) == ~Repanic(class)

\* header-name canonicalisation (net/http): first letter and letters after "-" upper case, others lower case
UpperSeq == <<"A","B","C","D","E","F","G","H","I","J","K","L","M","N","O","P","Q","R","S","T","U","V","W","X","Y","Z">>
LowerSeq == <<"a","b","c","d","e","f","g","h","i","j","k","l","m","n","o","p","q","r","s","t","u","v","w","x","y","z">>
IdxIn(seq, c) == CHOOSE i \in DOMAIN seq : seq[i] = c
ToUpper(c) == IF c \in Lower THEN UpperSeq[IdxIn(LowerSeq, c)] ELSE c
ToLower(c) == IF c \in Upper THEN LowerSeq[IdxIn(UpperSeq, c)] ELSE c

Canonical(name) ==
  [i \in DOMAIN name |-> IF i = 1 \/ name[i - 1] = "-" THEN ToUpper(name[i]) ELSE ToLower(name[i])]

Chars(str) == str  \* names are given as character sequences by the generated module

Redacted(name, sensitive) == \E s \in sensitive : Canonical(name) = Canonical(s)
=============================================================================
