SPECIFICATION Spec
CONSTANTS
  PoolChars <- GenPool
  MethodChars <- GenMethods
  Txns <- GenTxns
  Snaps <- GenSnaps
  MaxOps <- GenMaxOps
  MaxParams <- GenMaxParams
  MaxKey <- GenMaxKey
  TruncSets <- GenTruncSets
  KindsUsed <- GenKinds
  SettledUsed <- GenSettled
VIEW view
INVARIANTS TypeOK LockDiscipline
PROPERTIES SnapshotFrozen PublishOnlyAtCommit AbortLeavesNothing FailedCallNoEffect WritesArePrivate
ACTION_CONSTRAINT EmitEdge
CHECK_DEADLOCK FALSE
