----------------------------- MODULE FoxContext -----------------------------
(* C12: what a handler observes through its Context is a function of the    *)
(* current request only.  Contexts are recycled: the pool holds contexts    *)
(* still carrying what earlier requests left in them (stale tokens); a      *)
(* request takes any of them, or a fresh one.                               *)
(*                                                                          *)
(* Every request carries a unique token in every observable field.  The     *)
(* observation a request of a given shape must make is Expect(shape) with   *)
(* the request's own token substituted for "T" - whatever the pool holds.   *)
EXTENDS Naturals, Sequences, FiniteSets

\* tsrclone: a Clone taken in a handler reached through an ignored trailing slash; hostdirect / hosttsr: a route with a
\* hostname parameter and a path parameter, matched directly / through an ignored trailing slash; statichost: a route
\* below a static hostname whose handler routes another request by hand (Router.Lookup) while its own context is in use
Shapes == {"direct", "tsr", "redirect", "noroute", "nomethod", "options", "lookup", "lookupclone", "clonewith", "clone",
           "tsrclone", "hostdirect", "hosttsr", "statichost", "hijack", "txnlookup",
           "staticdirect", "statictsr", "tsrclonewith", "tsrlookup", "wrapclone", "directcopy", "noroutecopy",
           "swapped", "wrapf", "noquery", "hostnomethod", "infix"}
\* infix: a route with an infix catch-all whose suffix matches at the first candidate segment (/fx/*{x}/dl asked with
\* /fx/T/dl): the lookup below the catch-all runs on a second recycled context, whose parameters must not be added
\* noquery: a request without a query string whose handler writes into the values QueryParams returned; hostnomethod: a
\* 405 whose Allow header is computed by walking hostname routes with competing static and parameter labels
\* hijack: the handler takes over the connection (the next user of the context must find a working writer);
\* txnlookup: the handler routes its request by hand through a read-only transaction (View + Txn.Lookup)
RouteShapes == {"direct", "tsr", "lookup", "lookupclone", "clonewith", "clone", "tsrclone", "hostdirect", "hosttsr", "statichost",
                "hijack", "txnlookup", "staticdirect", "statictsr", "tsrclonewith", "tsrlookup", "wrapclone", "directcopy",
                "swapped", "wrapf", "noquery", "infix"}
\* swapped: the handler observes, then replaces the context's request (SetRequest, a foreign request whose query it
\* then reads) and writer (SetWriter) - whoever gets this context next must see nothing of either; wrapf: the handler is
\* an http.HandlerFunc behind WrapF: it gets the current request's parameters, as a copy of its own that stays as it is
\* directcopy / noroutecopy: a middleware in front of everything hands a CloneWith copy of the context down the chain;
\* the route handler / the no-route handler then works on the copy
\* staticdirect / statictsr: a route without any parameter, matched directly / through an ignored trailing slash (the
\* recycled context must not lend it parameters); tsrclonewith: CloneWith in a handler reached through an ignored
\* trailing slash; tsrlookup: a manual Lookup that matches through a trailing slash; wrapclone: CloneWith around a
\* writer of the caller's own type, then Clone of the copy before anything is written
StaticShapes == {"staticdirect", "statictsr"}
CloneShapes == {"lookupclone", "clone", "tsrclone", "wrapclone"}
KeptParamShapes == {"wrapf"}      \* what is kept is the parameter list handed to the wrapped handler
HostParamShapes == {"hostdirect", "hosttsr"}
NeedsHostShapes == HostParamShapes \cup {"statichost", "hostnomethod"}

ScopeOf(shape) ==
  CASE shape \in RouteShapes -> "route"
    [] shape = "redirect" -> "redirect"
    [] shape \in {"noroute", "noroutecopy"} -> "noroute"
    [] shape \in {"nomethod", "hostnomethod"} -> "nomethod"
    [] shape = "options" -> "options"

\* "T" = the current request's token, "-" = absent/empty
Expect(shape) ==
  [route   |-> IF shape \in RouteShapes THEN "pattern" ELSE "-",
   params  |-> IF shape \in HostParamShapes THEN <<"T", "T">>
               ELSE IF shape \in StaticShapes THEN <<>>
               ELSE IF shape \in RouteShapes THEN <<"T">> ELSE <<>>,
   scope   |-> ScopeOf(shape),
   query   |-> IF shape = "noquery" THEN "-" ELSE "T", reqhdr |-> "T", path |-> "T", host |-> IF shape = "statichost" THEN "static" ELSE "T", remote |-> "T",
   status  |-> 200, size |-> 0, written |-> FALSE,
   resphdr |-> "-"]                         \* nothing of an earlier response is visible

VARIABLES pool, clones, n, op
vars == <<pool, clones, n, op>>

Init == pool = {} /\ clones = <<>> /\ n = 0 /\ op = [shape |-> "init", tok |-> 0, took |-> 0, replaced |-> FALSE]

\* took: the stale context the request happens to get (0 = a fresh one); replaced: the routing tree (and its
\* pool) was replaced by a write just before the request
Request(shape, took, replaced) ==
  /\ took \in pool \cup {0}
  /\ n' = n + 1
  /\ pool' = (IF replaced THEN {} ELSE pool) \cup {n + 1}
  /\ clones' = IF shape \in CloneShapes THEN Append(clones, n + 1) ELSE clones
  /\ op' = [shape |-> shape, tok |-> n + 1, took |-> took, replaced |-> replaced]

Next == \E s \in Shapes, t \in pool \cup {0}, r \in BOOLEAN : Request(s, t, r)
Spec == Init /\ [][Next]_vars

\* ContextFresh: the prescribed observation does not mention the pool - it is Expect(op.shape) with op.tok;
\* stated as: two requests of the same shape and token observe the same whatever they took from the pool.
\* ClonesStable: a clone keeps the token of the request it was taken in, forever.
ClonesStable == [][\A i \in DOMAIN clones : clones'[i] = clones[i]]_vars
=============================================================================
