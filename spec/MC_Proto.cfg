SPECIFICATION MCSpec
CONSTANTS
  Writers = {"w1", "w2", "w3"}
  None = "none"
INVARIANTS TypeOK MutualExclusion NoLostUpdate PublishedOnce LockOwner
CONSTRAINT VerBound
