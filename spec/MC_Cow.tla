------------------------------- MODULE MC_Cow -------------------------------
(* The copy-on-write heap of FoxCow inside the transaction life cycle: one   *)
(* write transaction at a time (caching, as Router.Txn(true) / Updates), the *)
(* one-call writes of the router (a non-caching transaction of one write),   *)
(* snapshots taken inside a transaction (Txn.Snapshot, Txn.Iter), readers    *)
(* that keep the published tree (Router.Iter, a read-only Txn, a request in   *)
(* flight), commit and abort.  Every write is checked, inside the action and *)
(* before the heap is renumbered, against the three statements of FoxCow:    *)
(* result class and tree value as FoxRadix prescribes, nothing reachable from *)
(* the published root or a snapshot touched.                                 *)
EXTENDS FoxCow, Gen_Cow, TLC, Json

Pool == GenPool
VARIABLES h, pub, snaps, tx, viol, hist, op
vars == <<h, pub, snaps, tx, viol, hist, op>>
view == <<h, pub, snaps, tx, viol>>

NoTx == [on |-> FALSE, root |-> 0, wr |-> {}, dirty |-> FALSE, vt |-> EmptyRoot]
Init == h = EmptyHeap /\ pub = 1 /\ snaps = <<>> /\ tx = NoTx /\ viol = "none" /\ hist = <<>>
        /\ op = [name |-> "init", p |-> 0, err |-> "ok"]

Frozen == <<pub>> \o snaps

\* install a raw result: collect garbage, renumber canonically
Install(h1, pub1, snaps1, tx1) ==
  LET roots == <<pub1>> \o snaps1 \o (IF tx1.on THEN <<tx1.root>> ELSE <<>>)
      r == Renumber(h1, roots, tx1.wr)
  IN /\ h' = r.h
     /\ pub' = r.roots[1]
     /\ snaps' = [i \in DOMAIN snaps1 |-> r.roots[i + 1]]
     /\ tx' = IF tx1.on THEN [tx1 EXCEPT !.root = r.roots[Len(roots)], !.wr = r.wr] ELSE NoTx

Log(name, p, err) == /\ op' = [name |-> name, p |-> p, err |-> err]
                     /\ hist' = Append(hist, [name |-> name, p |-> p, err |-> err])

ValueOp(kind, t, path) == CASE kind = "Insert" -> InsertRoute(t, path)
                            [] kind = "Update" -> UpdateRoute(t, path)
                            [] kind = "Remove" -> RemoveRoute(t, path)
HeapOp(kind, T, path) == CASE kind = "Insert" -> CowInsert(T, path)
                           [] kind = "Update" -> CowUpdate(T, path)
                           [] kind = "Remove" -> CowRemove(T, path)

Verdict(res, want, frozen) ==
  IF viol # "none" THEN viol
  ELSE IF res.err # want.err THEN "result"
  ELSE IF ~Unchanged(h, res.T.h, frozen) THEN "frozen"
  ELSE IF Val(res.T.h, res.T.root) # want.t THEN "refines"
  ELSE "none"

Begin == /\ ~tx.on
         /\ tx' = [on |-> TRUE, root |-> pub, wr |-> {}, dirty |-> FALSE, vt |-> Val(h, pub)]
         /\ UNCHANGED <<h, pub, snaps, viol>> /\ Log("Begin", 0, "ok")

TxWrite(kind, p) ==
  /\ tx.on
  /\ kind = "Insert" => Cardinality(Routes(tx.vt)) < GenMaxRoutes
  /\ LET T == [h |-> h, root |-> tx.root, wr |-> tx.wr, cache |-> TRUE]
         res == HeapOp(kind, T, Pool[p])
         want == ValueOp(kind, tx.vt, Pool[p])
     IN /\ viol' = Verdict(res, want, Frozen)
        /\ Install(res.T.h, pub, snaps, [tx EXCEPT !.root = res.T.root, !.wr = res.T.wr, !.vt = want.t,
                                                    !.dirty = @ \/ res.err = "ok"])
        /\ Log("Tx" \o kind, p, want.err)

\* Txn.Snapshot / Txn.Iter: the current uncommitted tree is kept; the transaction forgets what it owns
TxSnapshot ==
  /\ tx.on /\ Len(snaps) < GenMaxSnaps
  /\ LET keepWr == Is("noSnapshotReset") \/ (Is("resetOnlyIfDirty") /\ ~tx.dirty)
     IN Install(h, pub, Append(snaps, tx.root), [tx EXCEPT !.wr = IF keepWr THEN @ ELSE {}, !.dirty = FALSE])
  /\ UNCHANGED viol /\ Log("TxSnapshot", 0, "ok")

\* a reader keeps the published tree (Router.Iter, a read-only transaction, a request in flight)
ReaderHold ==
  /\ Len(snaps) < GenMaxSnaps
  /\ \A i \in DOMAIN snaps : snaps[i] # pub
  /\ Install(h, pub, Append(snaps, pub), tx)
  /\ UNCHANGED viol /\ Log("ReaderHold", 0, "ok")

Forget(i) ==
  /\ i \in DOMAIN snaps
  /\ Install(h, pub, [j \in 1..(Len(snaps) - 1) |-> IF j < i THEN snaps[j] ELSE snaps[j + 1]], tx)
  /\ UNCHANGED viol /\ Log("Forget", i, "ok")

Commit == /\ tx.on
          /\ Install(h, tx.root, snaps, NoTx)
          /\ UNCHANGED viol /\ Log("Commit", 0, "ok")

Abort == /\ tx.on
         /\ Install(h, pub, snaps, NoTx)
         /\ UNCHANGED viol /\ Log("Abort", 0, "ok")

\* Router.Handle / Update / Delete: a non-caching transaction of one write, committed when it succeeds
RouterWrite(kind, p) ==
  /\ ~tx.on
  /\ kind = "Insert" => Cardinality(Routes(Val(h, pub))) < GenMaxRoutes
  /\ LET T == [h |-> h, root |-> pub, wr |-> {}, cache |-> FALSE]
         res == HeapOp(kind, T, Pool[p])
         want == ValueOp(kind, Val(h, pub), Pool[p])
     IN /\ viol' = Verdict(res, want, Frozen)
        /\ Install(res.T.h, IF want.err = "ok" THEN res.T.root ELSE pub, snaps, NoTx)
        /\ Log(kind, p, want.err)

Next == \/ Begin \/ TxSnapshot \/ ReaderHold \/ Commit \/ Abort
        \/ \E i \in 1..GenMaxSnaps : Forget(i)
        \/ \E kind \in GenKinds, p \in DOMAIN Pool : TxWrite(kind, p) \/ RouterWrite(kind, p)
Spec == Init /\ [][Next]_vars

\* ---- properties ---------------------------------------------------------------------------------------
NothingFrozenIsTouched == viol = "none"
WritablePrivate == tx.on => \A w \in tx.wr : \A i \in DOMAIN Reach(h, Frozen).n : Reach(h, Frozen).n[i] # w
Refines == tx.on => Val(h, tx.root) = tx.vt
PublishedCanonical == Val(h, pub) = Canonical(Routes(Val(h, pub)))
Bounded == Len(hist) <= GenMaxHist

\* ---- emission: every transition with the history that led to its source state ---------------------------
HeapJson(hh) == [nd |-> [i \in DOMAIN hh.nd |-> [k |-> Str(hh.nd[i].k), r |-> Str(hh.nd[i].r), s |-> hh.nd[i].s]], sl |-> hh.sl]
EmitEdge == PrintT("VEC" \o ToJson([hist |-> hist', heap |-> HeapJson(h'), pub |-> pub', snaps |-> snaps',
                                    txroot |-> tx'.root, wr |-> SetToSeq(tx'.wr)]))
=============================================================================
