----------------------------- MODULE FoxRadix -----------------------------
(* Implementation-shaped refinement of the registered set: the radix tree  *)
(* of one method and the surgery the write operations perform on it        *)
(* (tree.go: insert with its four cases, update, remove with its merges).  *)
(*                                                                         *)
(* A node is a record [k, r, c]:                                           *)
(*   k  key: the characters this edge contributes (empty for the root)     *)
(*   r  the pattern registered exactly here (as characters), <<>> if none  *)
(*   c  children, a sequence of nodes sorted by key                        *)
(* The abstract content of a tree is Routes(t): the set of patterns at its *)
(* leaves.  FoxRoutes gives the meaning of the operations on that set; the *)
(* operators below give their meaning on the tree, case by case as the     *)
(* implementation has them.  MC_Radix checks, for every bounded history,   *)
(*   - the structural invariants (WellFormed),                             *)
(*   - refinement: Routes(tree) is the set FoxRoutes prescribes, with the  *)
(*     same result class for every call,                                   *)
(*   - canonicity: the tree is a function of the set (the tree built by    *)
(*     inserting the set in sorted order), which is C07 at the level of    *)
(*     the data structure,                                                 *)
(* and the conformance harness compares the real tree (dumped through the  *)
(* verif accessor) with this one after every step.                         *)
EXTENDS FoxPattern, SequencesExt, FiniteSetsExt

Node(k, r, c) == [k |-> k, r |-> r, c |-> c]
EmptyRoot == Node(<<>>, <<>>, <<>>)
IsLeaf(n) == n.r # <<>>

\* ---- generic helpers ------------------------------------------------------------------------------
RECURSIVE CommonLen(_, _)
CommonLen(a, b) == IF a = <<>> \/ b = <<>> \/ Head(a) # Head(b) THEN 0 ELSE 1 + CommonLen(Tail(a), Tail(b))

\* lexicographic order on character sequences by an order on characters given as a sequence (byte order)
ByteOrder == <<"!", "\"", "#", "$", "%", "&", "'", "(", ")", "*", "+", ",", "-", ".", "/", "0", "1", "2", "3", "4", "5", "6", "7", "8", "9", ":", ";", "<", "=", ">", "?", "@", "A", "B", "C", "D", "E", "F", "G", "H", "I", "J", "K", "L", "M", "N", "O", "P", "Q", "R", "S", "T", "U", "V", "W", "X", "Y", "Z", "[", "\\", "]", "^", "_", "`", "a", "b", "c", "d", "e", "f", "g", "h", "i", "j", "k", "l", "m", "n", "o", "p", "q", "r", "s", "t", "u", "v", "w", "x", "y", "z", "{", "|", "}", "~">>
Rank(ch) == IF \E i \in DOMAIN ByteOrder : ByteOrder[i] = ch THEN CHOOSE i \in DOMAIN ByteOrder : ByteOrder[i] = ch ELSE 0
RECURSIVE KeyLess(_, _)
KeyLess(a, b) ==
  IF a = <<>> THEN b # <<>>
  ELSE IF b = <<>> THEN FALSE
  ELSE IF Head(a) = Head(b) THEN KeyLess(Tail(a), Tail(b))
  ELSE Rank(Head(a)) < Rank(Head(b))

SortKids(kids) == SortSeq(kids, LAMBDA x, y : KeyLess(x.k, y.k))

ChildIdx(n, ch) == IF \E i \in DOMAIN n.c : n.c[i].k[1] = ch THEN CHOOSE i \in DOMAIN n.c : n.c[i].k[1] = ch ELSE 0

\* the set of patterns registered in the tree
RECURSIVE Routes(_)
Routes(n) == (IF IsLeaf(n) THEN {n.r} ELSE {}) \cup UNION {Routes(n.c[i]) : i \in DOMAIN n.c}

\* ---- search (copyOnWriteSearch without the copying): where does path lead ---------------------------
\* result: trail (child indices from the root to the matched node), cm (characters matched), cmn (characters
\* matched inside the matched node)
RECURSIVE Walk(_, _, _, _, _)
Walk(n, path, cm, trail, cmn) ==
  LET i == IF cm < Len(path) THEN ChildIdx(n, path[cm + 1]) ELSE 0 IN
  IF i = 0 THEN [trail |-> trail, cm |-> cm, cmn |-> cmn]
  ELSE LET ch == n.c[i]
           m == CommonLen(ch.k, Rest(path, cm + 1))
       IN IF m = Len(ch.k) THEN Walk(ch, path, cm + m, Append(trail, i), m)
          ELSE [trail |-> Append(trail, i), cm |-> cm + m, cmn |-> m]

Search(root, path) == Walk(root, path, 0, <<>>, 0)

RECURSIVE NodeAt(_, _)
NodeAt(n, trail) == IF trail = <<>> THEN n ELSE NodeAt(n.c[Head(trail)], Tail(trail))

\* replace the node at trail by new
RECURSIVE SetAt(_, _, _)
SetAt(n, trail, new) ==
  IF trail = <<>> THEN new
  ELSE [n EXCEPT !.c[Head(trail)] = SetAt(n.c[Head(trail)], Tail(trail), new)]

Classify(root, s, path) ==
  LET matched == NodeAt(root, s.trail) IN
  IF s.cm = Len(path) THEN (IF s.cmn = Len(matched.k) THEN "exact" ELSE "keyEndMidEdge")
  ELSE (IF s.cmn = Len(matched.k) \/ s.trail = <<>> THEN "toEndOfEdge" ELSE "toMiddleOfEdge")

\* ---- insert ----------------------------------------------------------------------------------------
\* the new leaf for the part of the pattern not matched yet; a hostname keeps its path in a dedicated child
NewBranch(path, cm, hostSplit) ==
  LET suffix == Rest(path, cm + 1) IN
  IF hostSplit > 0 /\ cm < hostSplit
    THEN Node(Take(suffix, hostSplit - cm), <<>>, <<Node(Rest(suffix, hostSplit - cm + 1), path, <<>>)>>)
  ELSE Node(suffix, path, <<>>)

\* wildcard conflict test on the common prefix of the split (tree.go, incompleteMatchToMiddleOfEdge)
RECURSIVE ScanBack(_, _, _, _)
ScanBack(p, i, stop, bad) ==
  IF i < 1 THEN FALSE
  ELSE IF p[i] = stop THEN FALSE
  ELSE IF p[i] \in bad THEN TRUE
  ELSE ScanBack(p, i - 1, stop, bad)

SplitConflict(cPrefix, cm, hostSplit) ==
  IF cm > hostSplit THEN ScanBack(cPrefix, Len(cPrefix), "/", {"{", "*"})                 \* in the path part
  ELSE IF cPrefix # <<>> /\ LastOf(cPrefix) = "}" THEN FALSE                              \* a.{b} is a whole label
  ELSE ScanBack(cPrefix, Len(cPrefix), ".", {"{"})

IRes(err, t, matched) == [err |-> err, t |-> t, matched |-> matched]

InsertRoute(root, path) ==
  LET s == Search(root, path)
      matched == NodeAt(root, s.trail)
      hostSplit == HostEnd(path)
      kind == Classify(root, s, path)
  IN CASE kind = "exact" ->
            IF IsLeaf(matched) THEN IRes("exist", root, {})
            ELSE IRes("ok", SetAt(root, s.trail, [matched EXCEPT !.r = path]), {})
       [] kind = "keyEndMidEdge" ->
            LET pre == Take(matched.k, s.cmn)
                rest == Node(Rest(matched.k, s.cmn + 1), matched.r, matched.c)
            IN IRes("ok", SetAt(root, s.trail, Node(pre, path, <<rest>>)), {})
       [] kind = "toEndOfEdge" ->
            LET child == NewBranch(path, s.cm, hostSplit)
            IN IRes("ok", SetAt(root, s.trail, [matched EXCEPT !.c = SortKids(Append(@, child))]), {})
       [] kind = "toMiddleOfEdge" ->
            LET cPrefix == Take(matched.k, s.cmn) IN
            IF SplitConflict(cPrefix, s.cm, hostSplit) THEN IRes("conflict", root, Routes(matched))
            ELSE LET n1 == NewBranch(path, s.cm, hostSplit)
                     n2 == Node(Rest(matched.k, s.cmn + 1), matched.r, matched.c)
                 IN IRes("ok", SetAt(root, s.trail, Node(cPrefix, <<>>, SortKids(<<n1, n2>>))), {})

\* ---- update ----------------------------------------------------------------------------------------
UpdateRoute(root, path) ==
  LET s == Search(root, path)
      matched == NodeAt(root, s.trail)
  IN IF Classify(root, s, path) = "exact" /\ IsLeaf(matched) THEN IRes("ok", root, {}) ELSE IRes("notfound", root, {})

\* ---- remove ----------------------------------------------------------------------------------------
Merged(n, child) == Node(n.k \o child.k, child.r, child.c)
KidsWithout(n, i) == [j \in 1..(Len(n.c) - 1) |-> IF j < i THEN n.c[j] ELSE n.c[j + 1]]

RemoveRoute(root, path) ==
  LET s == Search(root, path)
      matched == NodeAt(root, s.trail)
  IN IF ~(Classify(root, s, path) = "exact" /\ IsLeaf(matched)) THEN IRes("notfound", root, {})
     ELSE IF Len(matched.c) > 1 THEN IRes("ok", SetAt(root, s.trail, [matched EXCEPT !.r = <<>>]), {})
     ELSE IF Len(matched.c) = 1 THEN IRes("ok", SetAt(root, s.trail, Merged(matched, matched.c[1])), {})
     ELSE \* a childless leaf goes away; its parent may have to be merged with what remains
       LET pTrail == DropLast(s.trail)
           p == NodeAt(root, pTrail)
           pEdges == KidsWithout(p, LastOf(s.trail))
           pIsRoot == pTrail = <<>>
       IN IF pEdges = <<>> /\ ~IsLeaf(p) /\ ~pIsRoot THEN
             \* p only existed to hold the path of a hostname: it goes away too
             LET ppTrail == DropLast(pTrail)
                 pp == NodeAt(root, ppTrail)
                 ppEdges == KidsWithout(pp, LastOf(pTrail))
                 ppIsRoot == ppTrail = <<>>
                 parent == IF Len(ppEdges) = 1 /\ ~IsLeaf(pp) /\ ppEdges[1].k[1] # "/" /\ ~ppIsRoot
                             THEN Merged(pp, ppEdges[1])
                           ELSE [pp EXCEPT !.c = ppEdges]
             IN IRes("ok", SetAt(root, ppTrail, parent), {})
          ELSE LET parent == IF Len(pEdges) = 1 /\ ~IsLeaf(p) /\ ~pIsRoot THEN Merged(p, pEdges[1])
                             ELSE [p EXCEPT !.c = pEdges]
               IN IRes("ok", SetAt(root, pTrail, parent), {})

\* ---- structural invariants ------------------------------------------------------------------------
RECURSIVE WellFormedAt(_, _, _)
WellFormedAt(n, prefix, isRoot) ==
  LET full == prefix \o n.k IN
  /\ isRoot \/ n.k # <<>>
  /\ IsLeaf(n) => n.r = full                                   \* a leaf holds exactly the pattern spelled by its path
  /\ \A i \in 1..(Len(n.c) - 1) : KeyLess(n.c[i].k, n.c[i + 1].k)   \* children sorted ...
  /\ \A i, j \in DOMAIN n.c : i # j => n.c[i].k[1] # n.c[j].k[1]      \* ... with distinct first characters
  /\ isRoot \/ IsLeaf(n) \/ n.c # <<>>                          \* no dangling inner node
  \* an inner node with a single child is merged with it, except above the path of a hostname
  /\ (~isRoot /\ ~IsLeaf(n) /\ Len(n.c) = 1) => n.c[1].k[1] = "/"
  /\ \A i \in DOMAIN n.c : WellFormedAt(n.c[i], full, FALSE)

WellFormed(root) == WellFormedAt(root, <<>>, TRUE)

\* the tree a set of patterns is stored as: the patterns inserted in a fixed order
RECURSIVE BuildFrom(_, _)
BuildFrom(t, ps) == IF ps = <<>> THEN t ELSE BuildFrom(InsertRoute(t, Head(ps)).t, Tail(ps))
Canonical(S) == BuildFrom(EmptyRoot, SetToSortSeq(S, KeyLess))

\* bookkeeping the implementation keeps next to the tree
RECURSIVE Depth(_)
Depth(n) == IF n.c = <<>> THEN 0 ELSE 1 + Max({Depth(n.c[i]) : i \in DOMAIN n.c})
=============================================================================
