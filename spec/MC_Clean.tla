------------------------------ MODULE MC_Clean ------------------------------
(* C17: every string over GenAlphabet up to length GenPrefixLen+GenSuffixLen: *)
(* the CleanPath theorems are checked and (input, canonical form) pairs are  *)
(* emitted for the D1 replay.  A state is a prefix; its line covers all      *)
(* extensions by at most GenSuffixLen characters.                            *)
EXTENDS FoxCleanPath, Gen_Clean, TLC, Json, SequencesExt

VARIABLES pre, done

Sufs == SeqsUpTo(GenAlphabet, GenSuffixLen)

Check(s) ==
  IF Idempotent(s) /\ ResultCanonical(s) /\ FixedPoint(s) /\ TrailingRule(s) THEN <<Str(s), Str(Clean(s))>>
  ELSE Assert(FALSE, <<"CleanPath theorem fails for", s>>)

\* the short strings are covered by one extra state (pre = <<"short">>)
Vec ==
  IF pre = <<"short">> THEN SetToSeq({Check(s) : s \in SeqsUpTo(GenAlphabet, GenPrefixLen - 1)})
  ELSE SetToSeq({Check(pre \o x) : x \in Sufs})

Init == pre \in SeqsOfLen(GenAlphabet, GenPrefixLen) \cup {<<"short">>} /\ done = FALSE
Next == ~done /\ PrintT("VEC" \o ToJson(Vec)) /\ done' = TRUE /\ UNCHANGED pre
=============================================================================
